package main

import (
	"bufio"
	"crypto/sha256"
	"encoding/hex"
	"encoding/json"
	"fmt"
	"io"
	"math/rand"
	"os"
	"os/exec"
	"path/filepath"
	"sort"
	"strings"
	"sync"
	"time"
)

// Driver is one running instance of the compiled Lean model driver (line protocol).
type Driver struct {
	cmd *exec.Cmd
	in  io.WriteCloser
	out *bufio.Reader
	mu  sync.Mutex
	n   int
}

func StartDriver(path string) (*Driver, error) {
	cmd := exec.Command(path)
	in, err := cmd.StdinPipe()
	if err != nil {
		return nil, err
	}
	out, err := cmd.StdoutPipe()
	if err != nil {
		return nil, err
	}
	cmd.Stderr = os.Stderr
	if err := cmd.Start(); err != nil {
		return nil, err
	}
	return &Driver{cmd: cmd, in: in, out: bufio.NewReaderSize(out, 1<<20)}, nil
}

// Ask sends one operation and returns the model's canonical answer.
func (d *Driver) Ask(op string, args ...string) string {
	d.mu.Lock()
	defer d.mu.Unlock()
	d.n++
	id := fmt.Sprintf("%d", d.n)
	line := id + " " + op
	if len(args) > 0 {
		line += " " + strings.Join(args, " ")
	}
	if _, err := io.WriteString(d.in, line+"\n"); err != nil {
		return "driver-error: " + err.Error()
	}
	resp, err := d.out.ReadString('\n')
	if err != nil {
		return "driver-error: " + err.Error()
	}
	resp = strings.TrimRight(resp, "\r\n")
	if !strings.HasPrefix(resp, id+" ") {
		return "driver-error: out of sync: " + resp
	}
	return resp[len(id)+1:]
}

func (d *Driver) Close() {
	d.in.Close()
	d.cmd.Wait()
}

// hx is the wire form of a byte string ("-" for empty).
func hx(b []byte) string {
	if len(b) == 0 {
		return "-"
	}
	return hex.EncodeToString(b)
}

func unhx(s string) []byte {
	if s == "-" {
		return nil
	}
	b, _ := hex.DecodeString(s)
	return b
}

// Failure is one case on which something did not hold.
type Failure struct {
	Kind    string      `json:"kind"` // "property" (oracle failed on the Go code) or "tie" (model and Go disagree)
	Matcher string      `json:"matcher,omitempty"`
	What    string      `json:"what"`
	Case    interface{} `json:"case"`
	Go      string      `json:"go,omitempty"`
	Model   string      `json:"model,omitempty"`
	Spec    string      `json:"spec,omitempty"`
}

type KnownFinding struct {
	Property string      `json:"property"`
	ID       string      `json:"id"`
	Status   string      `json:"status"` // "known" | "fixed"
	What     string      `json:"what"`
	Matcher  string      `json:"matcher"`
	Witness  interface{} `json:"witness,omitempty"`
	Commit   string      `json:"commit,omitempty"`
}

type Obligations struct {
	Obligations int      `json:"obligations"`
	Discharged  int      `json:"discharged"`
	BuildOK     bool     `json:"build_ok"`
	Failed      []string `json:"failed"`
	Theorems    []string `json:"theorems"`
	CheckerCmd  string   `json:"checker_cmd"`
	Axioms      []string `json:"axioms"`
	Facts       string   `json:"extracted_facts,omitempty"`
	BuildLog    string   `json:"build_log,omitempty"`
}

type Ctx struct {
	Prop      string
	Tier      string
	Seed      int64
	Rng       *rand.Rand
	Drv       *Driver
	GenDrv    *Driver // the driver over the translated code (nil when it is not available)
	genTies   int
	DrvPath   string
	VerifDir  string
	RepoDir   string
	Thorough  bool
	start     time.Time
	mu        sync.Mutex
	evals     int
	distinct  map[[16]byte]bool
	classes   map[string]int
	samples   []interface{}
	failures  []Failure
	known     []KnownFinding
	knownHits map[string]int
	notes     map[string]interface{}
	traces    int
	Rule      string
	Assume    []string
	Shard     int // this process explores shard Shard of Shards (thorough tier; 0 of 1 = everything)
	Shards    int
}

func (c *Ctx) Quick() bool { return !c.Thorough }

// N picks a budget by tier.
func (c *Ctx) N(quick, thorough int) int {
	if c.Thorough {
		if c.Shards > 1 { // the random budget is divided among the shards (each has its own PRNG stream)
			return (thorough + c.Shards - 1) / c.Shards
		}
		return thorough
	}
	return quick
}

// P picks a parameter (a size, a length, a sampling stride) by tier; unlike N it is not a budget and is
// not divided among shards.
func (c *Ctx) P(quick, thorough int) int {
	if c.Thorough {
		return thorough
	}
	return quick
}

// Mine says whether item i of a deterministic enumeration belongs to this shard.
func (c *Ctx) Mine(i int) bool { return c.Shards <= 1 || i%c.Shards == c.Shard }

// Count records one evaluated case. key identifies the case for the distinct count;
// nontrivial says whether it counts by the property's stated rule; class feeds the histogram.
func (c *Ctx) Count(key string, nontrivial bool, class string) {
	c.mu.Lock()
	defer c.mu.Unlock()
	c.evals++
	if nontrivial {
		h := sha256.Sum256([]byte(key))
		var k [16]byte
		copy(k[:], h[:16])
		c.distinct[k] = true
	}
	c.classes[class]++
}

// Class counts an occurrence of an input class without counting an evaluation (distribution only)
func (c *Ctx) Class(class string) { c.mu.Lock(); c.classes[class]++; c.mu.Unlock() }

func (c *Ctx) Trace() { c.mu.Lock(); c.traces++; c.mu.Unlock() }

func (c *Ctx) Sample(s interface{}) {
	c.mu.Lock()
	defer c.mu.Unlock()
	if len(c.samples) < 6 {
		c.samples = append(c.samples, s)
	}
}

func (c *Ctx) Note(k string, v interface{}) {
	c.mu.Lock()
	defer c.mu.Unlock()
	c.notes[k] = v
}

func (c *Ctx) Fail(f Failure) {
	c.mu.Lock()
	defer c.mu.Unlock()
	if f.Matcher != "" {
		for _, k := range c.known {
			if k.Property == c.Prop && k.Status == "known" && k.Matcher == f.Matcher {
				c.knownHits[k.ID]++
				return
			}
		}
	}
	for _, g := range c.failures {
		if g.Kind == f.Kind && g.What == f.What && fmt.Sprint(g.Case) == fmt.Sprint(f.Case) {
			return
		}
	}
	if len(c.failures) < 50 {
		c.failures = append(c.failures, f)
	}
}

// Probe evaluates f in a scratch context that shares the driver and the known findings but records
// nothing into this run; it returns the failures f produced (used by shrinkers).
func (c *Ctx) Probe(f func(*Ctx)) []Failure {
	p := &Ctx{Prop: c.Prop, Tier: c.Tier, Seed: c.Seed, Rng: rand.New(rand.NewSource(c.Seed)), Drv: c.Drv, GenDrv: c.GenDrv, DrvPath: c.DrvPath,
		VerifDir: c.VerifDir, RepoDir: c.RepoDir, Thorough: c.Thorough, start: c.start,
		distinct: map[[16]byte]bool{}, classes: map[string]int{}, knownHits: map[string]int{}, notes: map[string]interface{}{}, known: c.known}
	f(p)
	return p.failures
}

func (c *Ctx) NFailures() int { c.mu.Lock(); defer c.mu.Unlock(); return len(c.failures) }

// ReplaceFailuresFrom drops the failures recorded since index n and records fs instead.
func (c *Ctx) ReplaceFailuresFrom(n int, fs []Failure) {
	c.mu.Lock()
	defer c.mu.Unlock()
	if n <= len(c.failures) {
		c.failures = append(c.failures[:n], fs...)
	}
}

func (c *Ctx) Failed() bool { c.mu.Lock(); defer c.mu.Unlock(); return len(c.failures) > 0 }

func loadKnown(path string) []KnownFinding {
	b, err := os.ReadFile(path)
	if err != nil {
		return nil
	}
	var doc struct {
		Findings []KnownFinding `json:"findings"`
	}
	if err := json.Unmarshal(b, &doc); err != nil {
		fmt.Fprintf(os.Stderr, "known_findings.json: %v\n", err)
		return nil
	}
	return doc.Findings
}

// shardResult is what a shard process hands back to the parent.
type shardResult struct {
	Evals     int                    `json:"evals"`
	Distinct  string                 `json:"distinct"` // hex of the concatenated 16-byte keys
	Classes   map[string]int         `json:"classes"`
	Samples   []interface{}          `json:"samples"`
	Failures  []Failure              `json:"failures"`
	KnownHits map[string]int         `json:"known_hits"`
	Notes     map[string]interface{} `json:"notes"`
	Traces    int                    `json:"traces"`
}

// DumpShard writes this shard's counters for the parent instead of an evidence file.
func (c *Ctx) DumpShard(path string) {
	c.mu.Lock()
	defer c.mu.Unlock()
	keys := make([]byte, 0, 16*len(c.distinct))
	for k := range c.distinct {
		keys = append(keys, k[:]...)
	}
	r := shardResult{c.evals, hex.EncodeToString(keys), c.classes, c.samples, c.failures, c.knownHits, c.notes, c.traces}
	b, _ := json.Marshal(r)
	os.WriteFile(path, b, 0o644)
}

// MergeShard adds a shard's counters to this (parent) context.
func (c *Ctx) MergeShard(path string, idx int) error {
	b, err := os.ReadFile(path)
	if err != nil {
		return err
	}
	var r shardResult
	if err := json.Unmarshal(b, &r); err != nil {
		return err
	}
	c.mu.Lock()
	defer c.mu.Unlock()
	c.evals += r.Evals
	c.traces += r.Traces
	keys, _ := hex.DecodeString(r.Distinct)
	for i := 0; i+16 <= len(keys); i += 16 {
		var k [16]byte
		copy(k[:], keys[i:i+16])
		c.distinct[k] = true
	}
	for k, v := range r.Classes {
		c.classes[k] += v
	}
	for k, v := range r.KnownHits {
		c.knownHits[k] += v
	}
	for k, v := range r.Notes {
		if _, has := c.notes[k]; !has {
			c.notes[k] = v
		}
	}
	for _, sm := range r.Samples {
		if len(c.samples) < 12 {
			c.samples = append(c.samples, sm)
		}
	}
	for _, f := range r.Failures {
		if len(c.failures) < 50 {
			c.failures = append(c.failures, f)
		}
	}
	return nil
}

// Finish writes the evidence file, prints KNOWN-FINDING / VIOLATION lines and returns the exit code.
func (c *Ctx) Finish(ob *Obligations) int {
	wall := time.Since(c.start).Seconds()
	violations := 0
	var lines []string

	// known findings that re-confirmed
	ids := []string{}
	for id := range c.knownHits {
		ids = append(ids, id)
	}
	sort.Strings(ids)
	for _, id := range ids {
		for _, k := range c.known {
			if k.ID == id {
				lines = append(lines, fmt.Sprintf("KNOWN-FINDING: property=%s %s (%s; %d cases absorbed)", c.Prop, k.What, k.ID, c.knownHits[id]))
			}
		}
	}

	propFails := []Failure{}
	tieFails := []Failure{}
	for _, f := range c.failures {
		if f.Kind == "property" {
			propFails = append(propFails, f)
		} else {
			tieFails = append(tieFails, f)
		}
	}
	proofBroken := ob != nil && (!ob.BuildOK || ob.Discharged != ob.Obligations || ob.Obligations == 0)

	replayDir := filepath.Join(c.VerifDir, "replays", c.Prop)
	writeReplay := func(v interface{}) string {
		os.MkdirAll(replayDir, 0o755)
		b, _ := json.MarshalIndent(v, "", " ")
		h := sha256.Sum256(b)
		p := filepath.Join(replayDir, hex.EncodeToString(h[:6])+".json")
		os.WriteFile(p, b, 0o644)
		return p
	}
	if len(propFails) > 0 {
		violations = len(propFails)
		p := writeReplay(map[string]interface{}{
			"property": c.Prop, "seed": c.Seed, "tier": c.Tier, "kind": "property-violated-on-go-code",
			"failures": propFails, "replay_cmd": fmt.Sprintf("./check %s --replay <this file>", c.Prop),
			"broken_obligations": obFailed(ob), "tie_disagreements": tieFails,
		})
		lines = append(lines, fmt.Sprintf("VIOLATION property=%s replay=%s", c.Prop, p))
	} else if proofBroken || len(tieFails) > 0 {
		violations = 1
		p := writeReplay(map[string]interface{}{
			"property": c.Prop, "seed": c.Seed, "tier": c.Tier, "kind": "no-longer-shown",
			"broken_obligations": obFailed(ob), "build_log": obLog(ob), "tie_disagreements": tieFails,
			"note": "a proof obligation or the model/implementation correspondence no longer checks; the search found no input on which the Go code violates the property",
		})
		lines = append(lines, fmt.Sprintf("VIOLATION property=%s replay=%s no-failing-input-found", c.Prop, p))
	}

	cov := map[string]interface{}{
		"evaluations":                   c.evals,
		"distinct_nontrivial":           len(c.distinct),
		"rule":                          c.Rule,
		"samples":                       c.samples,
		"traces_validated_against_impl": c.traces,
		"class_histogram":               c.classes,
		"known_findings_reconfirmed":    c.knownHits,
		"notes":                         c.notes,
		"tie_disagreements":             len(tieFails),
		"property_failures":             len(propFails),
	}
	if ob != nil {
		if ob.Discharged >= 1 {
			cov["obligations"] = ob.Obligations
			cov["discharged"] = ob.Discharged
		} else { // keep the file schema-valid on a run whose proof obligations all broke
			cov["obligations_total"] = ob.Obligations
			cov["obligations_discharged"] = 0
		}
		cov["checker_cmd"] = ob.CheckerCmd
		cov["theorems"] = ob.Theorems
		cov["axioms_used"] = ob.Axioms
		cov["failed_obligations"] = ob.Failed
		cov["extracted_facts"] = ob.Facts
		cov["trusted_base"] = []string{
			"Lean 4.33.0 kernel (lake build; thorough tier re-checks with leanchecker)",
			"axioms: only propext, Classical.choice, Quot.sound (audited with #print axioms on every property theorem)",
			"tools/extract (go/ast fact extractor) for the regenerated Extracted.lean",
			"tools/go2lean (go/types translator of the functions in tools/go2lean/targets.json) for the regenerated Gen.lean; validated by executing the translated code on the harness inputs (translated_code_ties)",
			"hand-written Lean Impl models: refined by the translated code as a theorem (Properties/*g.lean) where a translation exists, otherwise validated against the Go code by the differential run counted in traces_validated_against_impl (sampled)",
			"Go standard library, x/crypto/cryptobyte, x/text, afero as used by the code under test",
		}
	}
	if len(c.samples) == 0 {
		cov["samples"] = []interface{}{"(no case sampled)"}
	}
	ev := map[string]interface{}{
		"property_id": c.Prop,
		"tier":        c.Tier,
		"seed":        c.Seed,
		"level":       "proof",
		"coverage":    cov,
		"assumptions": c.Assume,
		"wall_s":      wall,
		"violations":  violations,
	}
	os.MkdirAll(filepath.Join(c.VerifDir, "evidence"), 0o755)
	b, _ := json.MarshalIndent(ev, "", " ")
	os.WriteFile(filepath.Join(c.VerifDir, "evidence", c.Prop+".json"), b, 0o644)

	for _, l := range lines {
		fmt.Println(l)
	}
	fmt.Printf("%s %s seed=%d evaluations=%d distinct_nontrivial=%d traces=%d obligations=%s violations=%d wall=%.1fs\n",
		c.Prop, c.Tier, c.Seed, c.evals, len(c.distinct), c.traces, obStr(ob), violations, wall)
	if violations > 0 {
		return 1
	}
	return 0
}

func obFailed(ob *Obligations) []string {
	if ob == nil {
		return nil
	}
	return ob.Failed
}
func obLog(ob *Obligations) string {
	if ob == nil {
		return ""
	}
	return ob.BuildLog
}
func obStr(ob *Obligations) string {
	if ob == nil {
		return "n/a"
	}
	return fmt.Sprintf("%d/%d", ob.Discharged, ob.Obligations)
}

// GenTie asks the driver over the TRANSLATED code (Gen.lean, regenerated from the Go source) the same question
// the hand-written model answered with `model`; a different answer is a correspondence failure of its own kind:
// the translator, the abstraction of the refinement theorems, or the model is wrong about this input.
func (c *Ctx) GenTie(cs Case, what, model, op string, args ...string) {
	if c.GenDrv == nil {
		return
	}
	g := c.GenDrv.Ask(op, args...)
	c.genTies++
	c.notes["translated_code_ties"] = c.genTies
	if g != model {
		c.Fail(Failure{Kind: "tie", What: what + ": the code translated from the Go source (Gen.lean) and the hand-written Impl model disagree", Case: cs, Model: clip(model), Go: "translated: " + clip(g)})
	}
}

// GenTieGo asks the driver over the TRANSLATED code (Gen.lean) for its answer on an input and compares it with what
// the REAL library answered on the same input (goObs): a difference means that the translator (or its prelude) does
// not say what the Go code does.
func (c *Ctx) GenTieGo(cs Case, what, goObs, op string, args ...string) {
	if c.GenDrv == nil {
		return
	}
	g := c.GenDrv.Ask(op, args...)
	c.genTies++
	c.notes["translated_code_ties"] = c.genTies
	if g != goObs {
		c.Fail(Failure{Kind: "tie", What: what + ": the code translated from the Go source (Gen.lean) and the implementation disagree", Case: cs, Model: "translated: " + clip(g), Go: clip(goObs)})
	}
}
