package main

import (
	"bytes"
	"crypto"
	"crypto/sha256"
	"crypto/x509"
	"encoding/binary"
	"fmt"
	"io"
	"os"
	"path/filepath"
	"strings"

	"github.com/foxboron/go-uefi/authenticode"
)

// one (image, certificate) pair for Verify
func c02Pair(c *Ctx, cs Case, img []byte, cert *x509.Certificate, class, certkind string) {
	canon := func(s string) string {
		// the theorem's observation is success / negative / error / crash, not which layer reported the error
		s = strings.TrimPrefix(s, "parse-")
		return s
	}
	got := canon(goVerifyClass(img, cert))
	c.Count(fmt.Sprintf("%s|%s|%s|%x", cs.Key(), class, certkind, sha256.Sum256(img)), true, "verify/"+class+"/"+certkind+"/"+strings.ReplaceAll(got, " ", "-"))
	model, strict, spec := askPeVerifyLenient(c, img, cert)
	_ = strict
	model = canon(model)
	c.Trace()
	if model != got {
		c.Fail(Failure{Kind: "tie", What: "Parse+Verify: model and implementation disagree (" + class + ", " + certkind + ")", Case: cs, Model: model, Go: got})
	}
	if strings.Contains(got, "panic") {
		c.Fail(Failure{Kind: "property", Matcher: "c02.verify_panics", What: "verification panicked (" + class + ")", Case: cs, Go: got})
		return
	}
	if got == "ok true" && spec != "true" {
		matcher := ""
		if class == "size-inflate" {
			matcher = "c02.size_inflate"
		}
		c.Fail(Failure{Kind: "property", Matcher: matcher, What: "verification succeeded although the image carries no signature by this certificate's key that commits to the Authenticode digest of these bytes (" + class + ", certificate: " + certkind + ")", Case: cs,
			Go: got, Spec: "Spec.authenticodeVerifyLenient=" + spec})
	}
	if got == "ok true" && certkind != "right" {
		c.Fail(Failure{Kind: "property", What: "verification succeeded under a certificate whose key did not sign (" + certkind + ")", Case: cs, Go: got})
	}
}

// replace the certificate table of img by `table` (8-aligned entries) and fix the directory entry
func withTable(img []byte, table []byte) []byte {
	dd, bodyEnd := peOffsets(img)
	out := append([]byte{}, img[:bodyEnd]...)
	for len(out)%8 != 0 {
		out = append(out, 0)
	}
	va := len(out)
	out = append(out, table...)
	if len(table) == 0 {
		va = 0
	}
	binary.LittleEndian.PutUint32(out[dd:], uint32(va))
	binary.LittleEndian.PutUint32(out[dd+4:], uint32(len(table)))
	return out
}

func winCert(body []byte) []byte {
	e := make([]byte, 8, 8+len(body)+8)
	binary.LittleEndian.PutUint32(e, uint32(8+len(body)))
	binary.LittleEndian.PutUint16(e[4:], 0x0200)
	binary.LittleEndian.PutUint16(e[6:], 0x0002)
	e = append(e, body...)
	for len(e)%8 != 0 {
		e = append(e, 0)
	}
	return e
}

func tableOf(img []byte) []byte {
	dd, _ := peOffsets(img)
	va, sz := int(binary.LittleEndian.Uint32(img[dd:])), int(binary.LittleEndian.Uint32(img[dd+4:]))
	if va == 0 || va+sz > len(img) {
		return nil
	}
	return img[va : va+sz]
}

func signImage(c *Ctx, img []byte, keyIdx int) ([]byte, []byte, error) {
	key := poolKey(c, 2048, keyIdx)
	cert := makeRSACert(key, certShapes(c)[keyIdx%len(certShapes(c))])
	p, err := authenticode.Parse(bytes.NewReader(img))
	if err != nil {
		return nil, nil, err
	}
	sig, err := p.Sign(key, cert)
	if err != nil {
		return nil, nil, err
	}
	return p.Bytes(), sig, nil
}

func c02Eval(c *Ctx, cs Case) {
	var base, other []byte
	var flips []int
	if cs.S("path") != "" {
		b, err := os.ReadFile(filepath.Join(c.RepoDir, cs.S("path")))
		if err != nil || len(b) < 0x100 {
			return
		}
		base = b
	} else {
		s := specOfCase(cs)
		s.CertBodies = nil
		b := buildPE(s)
		base = b.img
		flips = flipPositions(c, b)
	}
	// a second, different image for transplants
	s2 := genPeSpec(c, false)
	s2.CertBodies = nil
	other = buildPE(s2).img
	signed, sig, err := signImage(c, base, 0)
	if err != nil {
		c.Fail(Failure{Kind: "property", What: "signing a well-formed image failed: " + err.Error(), Case: cs})
		return
	}
	c.Sample(cs)
	shapes := certShapes(c)
	right := makeRSACert(poolKey(c, 2048, 0), shapes[0])
	twin := makeRSACert(poolKey(c, 2048, 1), shapes[0]) // same issuer and serial, another key
	stranger := makeRSACert(poolKey(c, 2048, 1), shapes[1])
	all := func(img []byte, class string) {
		c02Pair(c, cs, img, right, class, "right")
		c02Pair(c, cs, img, twin, class, "twin")
		if c.Rng.Intn(3) == 0 {
			c02Pair(c, cs, img, stranger, class, "stranger")
		}
	}
	all(signed, "signed")
	c02Pair(c, cs, base, right, "unsigned", "right")
	// --- every class of the quantifier ---
	// 1. single-byte changes of the signed image (stratified)
	if len(flips) == 0 {
		flips = randomPositions(c, len(signed), 16)
	}
	for _, p := range flips {
		if p >= len(signed) {
			continue
		}
		m := append([]byte{}, signed...)
		m[p] ^= byte(1 << uint(c.Rng.Intn(8)))
		c02Pair(c, cs, m, right, "byte-change", "right")
	}
	for i := 0; i < 8; i++ { // inside the certificate table
		m := append([]byte{}, signed...)
		_, be := peOffsets(signed)
		p := be + c.Rng.Intn(len(signed)-be)
		m[p] ^= byte(1 << uint(c.Rng.Intn(8)))
		c02Pair(c, cs, m, right, "table-byte-change", "right")
	}
	// 2. cross-image transplant of the certificate table
	all(withTable(other, tableOf(signed)), "transplant")
	// 3. change a covered byte and overwrite the digest inside the blob with the new image digest
	{
		m := append([]byte{}, signed...)
		_, be := peOffsets(signed)
		pos := be - 1 - c.Rng.Intn(min(be-1, 64))
		m[pos] ^= 0x01
		if cl := c.Drv.Ask("pe.classify", hx(m), fmt.Sprint(pos)); cl == "covered" {
			if pm, err := authenticode.Parse(bytes.NewReader(m)); err == nil {
				nd := pm.Hash(crypto.SHA256)
				od := embeddedDigest(sig)
				if len(od) == 32 && len(nd) == 32 {
					if i := bytes.LastIndex(m, od); i >= 0 {
						copy(m[i:], nd)
						all(m, "digest-rewrite")
					}
					// the same, together with one unsigned edit of the blob: no field outside the
					// signed attributes may switch the content binding off
					if j := bytes.LastIndex(sig, od); j >= 0 && (c.Thorough || cs.S("path") != "" || c.Rng.Intn(3) == 0) {
						sig2 := append([]byte{}, sig...)
						copy(sig2[j:], nd)
						seed2 := p7Seed{name: "image-signature-rewritten", blob: sig2, right: right, twin: twin, other: stranger}
						k := 0
						forgeries(c, seed2, func(class string, b []byte) {
							k++
							if strings.HasPrefix(class, "oid-swap") && strings.Contains(class, "+forge-content") {
								return
							}
							if strings.HasPrefix(class, "oid-swap") && !c.Thorough && k%3 != 0 && !strings.HasSuffix(class, "sha384") {
								return
							}
							if strings.HasPrefix(class, "forge-carrie") && !c.Thorough { // section 6 runs the carriers on every image
								return
							}
							c02Pair(c, cs, withTable(m, winCert(b)), right, "digest-rewrite+"+class, "right")
						})
					}
				}
			}
		}
	}
	// 4. structural / targeted edits inside the blob (content, content type, certificates, signer identity, attributes)
	seed := p7Seed{name: "image-signature", blob: sig, right: right, twin: twin, other: stranger}
	nf := 0
	forgeries(c, seed, func(class string, b []byte) {
		if strings.HasPrefix(class, "oid-swap") { // C04 runs all of these on the blob itself
			nf++
			if c.Thorough || nf%5 == 0 {
				c02Pair(c, cs, withTable(signed, winCert(b)), right, "blob-"+class, "right")
			}
			return
		}
		if strings.HasPrefix(class, "forge-carrie") && !c.Thorough {
			// a passenger blob in a re-signed / in the genuine signature of the UNCHANGED image: under the signer's
			// certificate, a sample (section 6 runs every position on a tampered image, C04 on the blobs themselves)
			nf++
			if nf%4 == 0 {
				c02Pair(c, cs, withTable(signed, winCert(b)), right, "blob-"+class, "right")
			}
			return
		}
		if class == "forge-resigned-by-other" {
			// the stranger's key really signs here (a genuine signature of the stranger over this image's digest):
			// asked under the certificates whose keys did not
			c02Pair(c, cs, withTable(signed, winCert(b)), right, "blob-"+class, "right")
			c02Pair(c, cs, withTable(signed, winCert(b)), twin, "blob-"+class, "twin")
			return
		}
		all(withTable(signed, winCert(b)), "blob-"+class)
	})
	n := 0
	mutateBlob(c, sig, func(class string, b []byte) {
		n++
		if n%c.P(97, 7) == 0 { // a sample of the generic blob mutations (C04 runs them all on the blob itself)
			c02Pair(c, cs, withTable(signed, winCert(b)), right, "blob-"+class, "right")
		}
	})
	// 6. a covered byte changed, and the changed image signed by a foreign key: one entry has the right key
	// (over the old digest), the other the right digest (under the wrong key) — no single entry has both
	{
		_, be := peOffsets(base)
		if be > 0x100 {
			tb := append([]byte{}, base...)
			pos := be - 1 - c.Rng.Intn(min(be-1, 64))
			tb[pos] ^= 0x04
			if cl := c.Drv.Ask("pe.classify", hx(tb), fmt.Sprint(pos)); cl == "covered" {
				if _, sigF, err := signImage(c, tb, 3); err == nil {
					all(withTable(tb, append(winCert(sig), winCert(sigF)...)), "tampered+foreign-resign")
					all(withTable(tb, append(winCert(sigF), winCert(sig)...)), "tampered+foreign-resign")
					// ... and as ONE table entry: the foreign key's signature over the tampered bytes, with the
					// genuine signature over the original bytes travelling inside it, in every place of a blob
					// that can hold a blob (unsigned attributes, certificates, CRLs, content, further signer
					// entries, trailing fields). A signature of the right key over another image is a transplant
					// wherever it sits.
					p7Carriers(sigF, sig, func(pos string, b []byte) {
						all(withTable(tb, winCert(b)), "tampered+foreign-resign+carrier/"+pos)
					})
					// the reverse: the genuine signature (over the original bytes) carrying the foreign one
					p7Carriers(sig, sigF, func(pos string, b []byte) {
						if c.Thorough || c.Rng.Intn(4) == 0 {
							c02Pair(c, cs, withTable(tb, winCert(b)), right, "tampered+genuine-carrying-foreign/"+pos, "right")
						}
					})
				}
			}
		}
	}
	// 7. the directory entry of the certificate table is not signed: let it claim more than the table.
	// (a) Size inflated so that the "table" swallows the last d bytes in front of it, which are changed, while
	// the zero padding computed from the new file size stands in for them; (b) the same with the address moved
	// down by d and an empty leading entry, so that address + size still ends at the end of the file.
	{
		ov := append(append([]byte{}, base...), []byte("OVERLAY-DATA")...)
		ov = append(ov, make([]byte, 7)...)
		for len(ov)%8 != 0 {
			ov = append(ov, 0)
		}
		if sOv, _, err := signImage(c, ov, 0); err == nil {
			dd, _ := peOffsets(sOv)
			va, sz := int(binary.LittleEndian.Uint32(sOv[dd:])), int(binary.LittleEndian.Uint32(sOv[dd+4:]))
			ds := []int{1 + c.Rng.Intn(7)}
			if c.Thorough || cs.S("path") != "" {
				ds = []int{1, 2, 3, 4, 5, 6, 7}
			}
			if va > 8 && va+sz == len(sOv) {
				all(sOv, "signed-overlay")
				for _, d := range ds {
					ev := append([]byte{}, sOv...)
					for i := 0; i < d; i++ {
						ev[va-1-i] = 0xCC
					}
					ev = append(ev, bytes.Repeat([]byte{0x41}, 8-d)...)
					binary.LittleEndian.PutUint32(ev[dd+4:], uint32(sz+8))
					all(ev, "size-inflate")
					sh := append([]byte{}, sOv[:va-d]...)
					sh = append(sh, 8, 0, 0, 0, 0, 2, 2, 0) // an entry with an empty body in front of the real ones
					sh = append(sh, sOv[va:va+sz]...)
					for i := 0; i < d && i < 4; i++ { // the bytes in front of the old table were zeros: make the change visible
						if sh[va-d+i] == 0 {
							sh[va-d+i] = 8
						}
					}
					binary.LittleEndian.PutUint32(sh[dd:], uint32(va-d))
					binary.LittleEndian.PutUint32(sh[dd+4:], uint32(sz+8))
					all(sh, "table-shift")
				}
			}
		}
	}
	// 8. data behind the certificate table (a multiple of 8 bytes keeps the padding the same): the table is no
	// longer the tail of the file, nothing may verify
	for _, n := range []int{8, 16 + 8*c.Rng.Intn(64)} {
		m := append(append([]byte{}, signed...), bytes.Repeat([]byte{0x5A}, n)...)
		all(m, "data-after-table")
		m2 := append([]byte{}, m...) // ... also when the directory entry is stretched over the appended data
		dd, _ := peOffsets(m2)
		binary.LittleEndian.PutUint32(m2[dd+4:], binary.LittleEndian.Uint32(m2[dd+4:])+uint32(n))
		all(m2, "data-after-table+size")
	}
	// 9. the public reader-based API (Authenticode.Verify / SignAuthenticode) with every reader kind: success
	// exactly when the reader delivers the specification's hash input of the image
	if pre := unhx(fieldAfter(c.Drv.Ask("pe.spec", hx(signed)), "pre=")); len(pre) > 0 {
		if a, err := authenticode.ParseAuthenticode(sig); err == nil {
			streams := map[string][]byte{"same": pre}
			t1 := append([]byte{}, pre...)
			t1[len(t1)-1] ^= 0x20
			streams["last-byte"] = t1
			t2 := append([]byte{}, pre...)
			t2[len(t2)/2] ^= 0x01
			streams["middle-byte"] = t2
			streams["prefix"] = pre[:len(pre)-1]
			streams["other-image"] = other
			for name, st := range streams {
				for _, kind := range append([]string{"open-section"}, readerKinds...) {
					var rd io.Reader
					if kind == "open-section" {
						rd = io.NewSectionReader(bytes.NewReader(st), 0, 1<<62)
					} else {
						rd = newSrcReader(kind, st).r
					}
					var ok bool
					var verr error
					if pan, _ := safely(func() { ok, verr = a.Verify(right, rd) }); pan {
						c.Fail(Failure{Kind: "property", Matcher: "c02.verify_panics", What: "Authenticode.Verify panicked (" + kind + ")", Case: cs})
						continue
					}
					c.Count(fmt.Sprintf("%s|reader|%s|%s", cs.Key(), name, kind), true, "reader-api/"+name+"/"+kind)
					if want := name == "same"; (ok && verr == nil) != want {
						c.Fail(Failure{Kind: "property", What: fmt.Sprintf("Authenticode.Verify over a %s reader delivering the %s stream: success=%v, expected %v", kind, name, ok && verr == nil, want), Case: cs, Go: fmt.Sprint(ok, verr)})
					}
				}
			}
			// signing through the same reader kinds commits to the digest of exactly the bytes delivered
			want := sha256.Sum256(pre)
			for _, kind := range append([]string{"open-section"}, readerKinds...) {
				var rd io.Reader
				if kind == "open-section" {
					rd = io.NewSectionReader(bytes.NewReader(pre), 0, 1<<62)
				} else {
					rd = newSrcReader(kind, pre).r
				}
				key := poolKey(c, 2048, 0)
				if sg, err := authenticode.SignAuthenticode(key, right, rd, crypto.SHA256); err == nil {
					if d := embeddedDigest(sg); !bytes.Equal(d, want[:]) {
						c.Fail(Failure{Kind: "property", What: "SignAuthenticode over a " + kind + " reader embeds a digest that is not the digest of the bytes delivered", Case: cs, Go: hx(d), Spec: hx(want[:])})
					}
				} else {
					c.Fail(Failure{Kind: "property", What: "SignAuthenticode failed over a " + kind + " reader", Case: cs, Go: err.Error()})
				}
			}
		}
	}
	// 5. two entries: a foreign valid signature first, ours second, and the reverse
	if s2signed, sig2, err := signImage(c, base, 3); err == nil {
		_ = s2signed
		all(withTable(signed, append(winCert(sig2), winCert(sig)...)), "two-signatures")
		all(withTable(signed, append(winCert(sig), winCert(sig2)...)), "two-signatures")
	}
}

func c02Gen(c *Ctx) {
	for _, f := range []string{"tests/data/binary/HelloWorld.efi", "authenticode/testdata/test.pecoff"} {
		c02Eval(c, Case{"op": "verify-derivations", "path": f})
	}
	for i := 0; i < c.N(12, 800) && c.NFailures() < 6; i++ {
		s := genPeSpec(c, i%10 == 9)
		cs := specCase(s)
		cs["op"] = "verify-derivations"
		c02Eval(c, cs)
	}
}

func init() {
	register("C02", &PropDef{
		Rule:   "images from the C01 generator and two repository binaries, signed by the library; for each, Verify under the signer's certificate, a twin certificate (same issuer and serial, another key) and a stranger, on: the signed image, the unsigned image, ~25 stratified single-byte changes (+8 inside the certificate table), a cross-image transplant of the certificate table, a covered-byte change with the embedded digest overwritten by the new image digest (alone, and combined with each targeted blob edit and OID replacement), targeted edits inside the blob (content, content type, certificates, signer identity, message digest, dropped attributes), a sample of generic blob mutations, two-signature tables in both orders, a tampered image carrying the original signature plus a foreign key's signature over the tampered bytes (both orders), and the same tampered image with ONE table entry: the foreign key's signature with the genuine signature over the original bytes placed inside it, in every place of a blob that can hold another blob (unsigned attributes of a signer entry under the SpcNestedSignature / MS RFC 3161 timestamp / timeStampToken / an unknown attribute type, one and two values; a counter-signature attribute holding the genuine signer entry; an extra certificate; the CRL field; a further content element; the genuine signer entries appended / prepended; trailing fields of SignedData and of the content info; a second SignedData), plus a sample of the reverse nesting. The targeted blob edits include the two-signer-entry combinations of C04 (identity x signature, and identity x attributes re-bound to replaced content) and a blob consistently re-signed by another key. Every pair is compared with the Lean Impl verifier (real SHA-256/RSA) and judged by Spec.authenticodeVerify. Every case is non-trivial; distinct = distinct (image bytes, certificate).",
		Assume: []string{"RSA/SHA-256 on the model side are the executable Lean implementations", "x509.ParseCertificates is opaque (its verdicts are handed to the model)"},
		Eval:   c02Eval, Gen: c02Gen,
	})
}
