package main

import (
	"bytes"
	"crypto"
	"crypto/sha256"
	"crypto/x509"
	"encoding/binary"
	"fmt"
	"hash/crc32"
	"io"
	"os"
	"path/filepath"
	"sort"
	"strconv"
	"strings"

	"github.com/foxboron/go-uefi/authenticode"
	"github.com/foxboron/go-uefi/pkcs7"
)

// one (image, certificate) pair for Verify
func c02Pair(c *Ctx, cs Case, img []byte, cert *x509.Certificate, class, certkind string) {
	canon := func(s string) string {
		// the theorem's observation is success / negative / error / crash, not which layer reported the error
		s = strings.TrimPrefix(s, "parse-")
		return s
	}
	got := canon(goVerifyClass(img, cert))
	c.Count(fmt.Sprintf("%s|%s|%s|%x", cs.Key(), class, certkind, sha256.Sum256(img)), true, "verify/"+class+"/"+certkind+"/"+strings.ReplaceAll(got, " ", "-"))
	model, strict, spec := askPeVerifyLenient(c, img, cert)
	_ = strict
	model = canon(model)
	c.Trace()
	if model != got {
		c.Fail(Failure{Kind: "tie", What: "Parse+Verify: model and implementation disagree (" + class + ", " + certkind + ")", Case: cs, Model: model, Go: got})
	}
	if strings.Contains(got, "panic") {
		c.Fail(Failure{Kind: "property", Matcher: "c02.verify_panics", What: "verification panicked (" + class + ")", Case: cs, Go: got})
		return
	}
	if got == "ok true" && spec != "true" {
		matcher := ""
		if class == "size-inflate" {
			matcher = "c02.size_inflate"
		}
		c.Fail(Failure{Kind: "property", Matcher: matcher, What: "verification succeeded although the image carries no signature by this certificate's key that commits to the Authenticode digest of these bytes (" + class + ", certificate: " + certkind + ")", Case: cs,
			Go: got, Spec: "Spec.authenticodeVerifyLenient=" + spec})
	}
	if got == "ok true" && certkind != "right" {
		c.Fail(Failure{Kind: "property", What: "verification succeeded under a certificate whose key did not sign (" + class + ", certificate: " + certkind + ")", Case: cs, Go: got})
	}
	// an oracle that does not go through the Lean Spec: the way these classes are built rules a success out (no
	// signature at all / a covered byte differs from what every key present signed / the signature was made over
	// another image / the certificate table is not the tail of the file)
	if got == "ok true" && c02StdlibJudges(class) {
		if acc, claimed := c02IndependentAccepts(img, cert); claimed && !acc {
			c.Fail(Failure{Kind: "property", What: "verification succeeded although no entry of the certificate table is accepted by the independent verifier (encoding/asn1 + crypto/rsa over the attributes as transmitted, message digest = SHA-256 of the content) with a SHA-256 DigestInfo equal to the independently computed image digest (" + class + ", certificate: " + certkind + ")", Case: cs, Go: got, Spec: "Spec.authenticodeVerifyLenient=" + spec})
		} else if claimed {
			c.Class("independent-verifier-agrees/" + class[:min(len(class), 24)])
		}
	}
	if got == "ok true" && c02MustReject(class) {
		c.Fail(Failure{Kind: "property", What: "verification succeeded on a derived image whose construction leaves no signature by any of the asked keys over these bytes (" + class + ", certificate: " + certkind + ")", Case: cs, Go: got})
	}
}

// ---- an oracle for "success => a signature by this key over these bytes" built without Lean: the table walk
// of extractCertTable, the encoding/asn1 + crypto/rsa verifier of p7common.go, and the digest below ----

// goAuthDigest: SHA-256 over the Authenticode hash input of an image whose layout peLayoutOf claims (and in
// which every section header that declares raw data has a place in the file): headers without the checksum and
// the certificate-table entry, the sections in file order, everything from SizeOfHeaders + the sum of the raw
// sizes to the certificate table, zero padding to a multiple of 8.
func goAuthDigest(img []byte) ([]byte, bool) {
	l, ok := peLayoutOf(img)
	if !ok || l.nobits > 0 {
		return nil, false
	}
	h := sha256.New()
	h.Write(img[:l.ck])
	h.Write(img[l.ck+4 : l.dd])
	h.Write(img[l.dd+8 : l.soh])
	secs := append([][2]int{}, l.secs...)
	sort.Slice(secs, func(i, j int) bool { return secs[i][0] < secs[j][0] })
	sum := l.soh
	for _, sc := range secs {
		h.Write(img[sc[0]:sc[1]])
		sum += sc[1] - sc[0]
	}
	if sum > l.certStart {
		return nil, false
	}
	h.Write(img[sum:l.certStart])
	if l.certStart == len(img) {
		h.Write(make([]byte, (8-len(img)%8)%8))
	}
	return h.Sum(nil), true
}

// spcDigestInfo: (digest algorithm OID, digest) of the SpcIndirectDataContent inside a SignedData, read off the DER tree
func spcDigestInfo(blob []byte) (alg, digest []byte) {
	roots, ok := parseDER(blob)
	if !ok || len(roots) == 0 {
		return nil, nil
	}
	sd := p7SignedDataOf(roots[0])
	if len(sd.kids) < 3 || len(sd.kids[2].kids) < 2 || len(sd.kids[2].kids[1].kids) < 1 {
		return nil, nil
	}
	spc := sd.kids[2].kids[1].kids[0]
	if spc.tag != 0x30 || len(spc.kids) < 2 {
		return nil, nil
	}
	di := spc.kids[1]
	if di.tag != 0x30 || len(di.kids) < 2 || di.kids[0].tag != 0x30 || len(di.kids[0].kids) < 1 || di.kids[0].kids[0].tag != 0x06 || di.kids[1].tag != 0x04 {
		return nil, nil
	}
	return di.kids[0].kids[0].leaf, di.kids[1].leaf
}

// c02IndependentAccepts: does some entry of the certificate table hold a CMS signature that the stdlib-based
// verifier accepts for cert and whose DigestInfo names SHA-256 and holds the image digest? claimed is false when
// the image layout or an entry is outside what these independent readers handle.
func c02IndependentAccepts(img []byte, cert *x509.Certificate) (accepts, claimed bool) {
	d, ok := goAuthDigest(img)
	if !ok {
		return false, false
	}
	claimed = true
	for _, e := range extractCertTable(img) {
		std, parsed := stdVerify(e, cert, nil)
		if !parsed {
			claimed = false
			continue
		}
		alg, dg := spcDigestInfo(e)
		if std && bytes.Equal(alg, []byte{0x60, 0x86, 0x48, 0x01, 0x65, 0x03, 0x04, 0x02, 0x01}) && bytes.Equal(dg, d) {
			return true, true
		}
	}
	return false, claimed
}

// classes whose blobs are well-formed DER inside the SignedData syntax (the stdlib decoder is stricter than the
// property about unsigned structure, so random blob mutations are left to the Spec)
func c02StdlibJudges(class string) bool {
	if strings.Contains(class, "outside-the-syntax") {
		return false
	}
	switch class {
	case "signed", "unsigned", "byte-change", "transplant", "digest-rewrite", "two-signatures", "tampered+foreign-resign", "signed-overlay",
		"size-inflate", "table-shift", "data-after-table", "data-after-table+size":
		return true // the blobs are the library's own, untouched (the digest overwritten in place at most)
	}
	for _, pre := range []string{"tampered+foreign-resign+carrier/", "tampered+genuine-carrying-foreign/", "cross-protocol/", "signed/"} {
		if strings.HasPrefix(class, pre) {
			return true
		}
	}
	for _, pre := range []string{"blob-", "digest-rewrite+"} {
		if t, ok := strings.CutPrefix(class, pre); ok {
			return strings.HasPrefix(t, "forge-") || strings.HasPrefix(t, "two-signers/") || t == "drop-signed-attrs"
		}
	}
	return false
}

// c02MustReject: derivation classes on which no certificate of the harness may verify, by construction.
// (Not among them: data-after-table+size, where the directory entry is stretched over the appended bytes - these
// then lie inside the certificate table behind its last entry, which the digest excludes.)
func c02MustReject(class string) bool {
	for _, p := range []string{"digest-rewrite", "tampered+", "blob-forge-rsa-block/", "cross-protocol/"} {
		if strings.HasPrefix(class, p) {
			return true
		}
	}
	for _, p := range []string{"unsigned", "transplant", "data-after-table", "size-inflate", "table-shift"} {
		if class == p {
			return true
		}
	}
	return false
}

// peFileLayout is a walk of the headers that shares nothing with the library or the Lean Spec. It returns the
// end of the headers, the raw data ranges of the sections that have a place in the file (SizeOfRawData > 0 and
// PointerToRawData > 0), the first position behind the last of them (at least the end of the headers) and the
// start of the certificate table (or the file length). ok is false when the ranges overlap, leave the file or
// reach into the headers: then nothing is claimed about the image.
type peFileLayout struct {
	ck, dd, soh, tail, certStart int
	opt, secTab                  int // the optional header: [opt, secTab)
	secs                         [][2]int
	nobits                       int // headers that declare raw data but have no file pointer
}

func peLayoutOf(img []byte) (l peFileLayout, ok bool) {
	if len(img) < 0x40 {
		return l, false
	}
	pe := int(binary.LittleEndian.Uint32(img[0x3c:]))
	if pe < 0 || pe+24+2 > len(img) {
		return l, false
	}
	opt := pe + 24
	l.ck, l.dd = opt+64, opt+128
	if binary.LittleEndian.Uint16(img[opt:]) == 0x20b {
		l.dd = opt + 144
	}
	nsec := int(binary.LittleEndian.Uint16(img[pe+6:]))
	secTab := opt + int(binary.LittleEndian.Uint16(img[pe+20:]))
	if l.dd+8 > secTab || secTab+40*nsec > len(img) {
		return l, false
	}
	l.opt, l.secTab = opt, secTab
	l.soh = int(binary.LittleEndian.Uint32(img[opt+60:]))
	l.certStart = len(img)
	if sz := int(binary.LittleEndian.Uint32(img[l.dd+4:])); sz > 0 {
		l.certStart = int(binary.LittleEndian.Uint32(img[l.dd:]))
		if l.certStart+sz != len(img) {
			return l, false
		}
	}
	if secTab+40*nsec > l.soh || l.soh > l.certStart {
		return l, false
	}
	l.tail = l.soh
	for i := 0; i < nsec; i++ {
		e := secTab + 40*i
		size, ptr := int(binary.LittleEndian.Uint32(img[e+16:])), int(binary.LittleEndian.Uint32(img[e+20:]))
		if size != 0 && ptr == 0 {
			l.nobits++
		}
		if size == 0 || ptr == 0 {
			continue // no byte of the file belongs to this section
		}
		if ptr < l.soh || ptr+size > l.certStart {
			return l, false
		}
		for _, o := range l.secs {
			if ptr < o[1] && o[0] < ptr+size {
				return l, false
			}
		}
		l.secs = append(l.secs, [2]int{ptr, ptr + size})
		if ptr+size > l.tail {
			l.tail = ptr + size
		}
	}
	return l, true
}

// c02CoveredChanges: the clause "no change to a covered byte of a signed image", judged without the Lean Spec
// and therefore on EVERY signed image the library accepts, inside the Spec's well-formed domain or not. What the
// Authenticode digest covers whatever the section table says: the headers outside the checksum and the
// certificate-table directory entry, the raw data of every section that has a place in the file, and every byte
// behind the last such section up to the certificate table (the data "after the last section": symbol tables,
// debug data, overlays, the padding in front of the table). One bit of such a byte is changed; the image must no
// longer verify under the signer's certificate. Positions: both ends of every region and, for the data behind the
// last section, its first bytes one by one, powers of two from its start, its last bytes and random ones.
func c02CoveredChanges(c *Ctx, cs Case, signed []byte, right *x509.Certificate, domain string) {
	l, ok := peLayoutOf(signed)
	if !ok {
		c.Class("covered-change/" + domain + "/layout-not-claimed")
		return
	}
	if got := goVerifyClass(signed, right); got != "ok true" {
		c.Class("covered-change/" + domain + "/signed-image-does-not-verify")
		return
	}
	type pos struct {
		p      int
		region string
	}
	var ps []pos
	add := func(region string, p, lo, hi int) {
		if p >= lo && p < hi && !(p >= l.ck && p < l.ck+4) && !(p >= l.dd && p < l.dd+8) {
			ps = append(ps, pos{p, region})
		}
	}
	add("headers", 2+c.Rng.Intn(0x3a), 0, l.soh) // the DOS header between the magic and e_lfanew
	add("headers", l.soh-1, 0, l.soh)
	// the optional header, field by field: one byte (chosen by the case) in every 8-byte window from the
	// certificate-table directory entry back to the start of the optional header and forward to the section table,
	// i.e. every other data directory the image has (NumberOfRvaAndSizes is the image's: 5..16 in the generated
	// images) and the fields in front of them; the only bytes of this range that a signature does not cover are the
	// checksum and the certificate-table entry itself
	for w := l.dd - 8; w >= l.opt; w -= 8 {
		add("optional-header", w+c.Rng.Intn(8), l.opt, l.dd)
	}
	for w := l.dd + 8; w+8 <= l.secTab; w += 8 {
		add("optional-header", w+c.Rng.Intn(8), l.dd+8, l.secTab)
	}
	for i, sc := range l.secs {
		if i < 3 || i == len(l.secs)-1 {
			add("section", sc[0], sc[0], sc[1])
			add("section", sc[1]-1, sc[0], sc[1])
		}
	}
	for d := 0; d < 4; d++ {
		add("behind-last-section", l.tail+d, l.tail, l.certStart)
	}
	for d := 4; l.tail+d < l.certStart; d *= 2 {
		add("behind-last-section", l.tail+d, l.tail, l.certStart)
		add("behind-last-section", l.tail+d-1, l.tail, l.certStart)
	}
	add("behind-last-section", l.certStart-1, l.tail, l.certStart)
	add("behind-last-section", l.certStart-9, l.tail, l.certStart)
	for i := 0; i < 3 && l.certStart > l.tail; i++ {
		add("behind-last-section", l.tail+c.Rng.Intn(l.certStart-l.tail), l.tail, l.certStart)
	}
	seen := map[int]bool{}
	for _, q := range ps {
		if seen[q.p] {
			continue
		}
		seen[q.p] = true
		m := append([]byte{}, signed...)
		m[q.p] ^= byte(1 << uint(c.Rng.Intn(8)))
		got := strings.TrimPrefix(goVerifyClass(m, right), "parse-")
		c.Count(fmt.Sprintf("%s|covered-change|%d|%x", cs.Key(), q.p, sha256.Sum256(m)), true, "covered-change/"+domain+"/"+q.region+"/"+strings.ReplaceAll(got, " ", "-"))
		if strings.Contains(got, "panic") {
			c.Fail(Failure{Kind: "property", Matcher: "c02.verify_panics", What: "verification panicked (covered byte changed, " + q.region + ")", Case: cs, Go: got})
		} else if got == "ok true" {
			c.Fail(Failure{Kind: "property", What: fmt.Sprintf("byte %#x of a signed image that verifies was changed (%#02x -> %#02x) and the image still verifies under the signer's certificate; the byte lies in: %s (end of headers %#x, end of the last section with file data %#x, certificate table at %#x, %d bytes; image %s the Spec's well-formed domain)",
				q.p, signed[q.p], m[q.p], q.region, l.soh, l.tail, l.certStart, len(signed), domain), Case: cs, Go: got, Spec: "the byte is covered by the Authenticode digest: a change must make verification fail"})
		}
	}
}

// cutReader delivers the bytes of r and then fails: a file on a medium that goes away in the middle of a read.
// withData: the error is returned together with the last bytes (io.Reader allows both).
type cutReader struct {
	r        *bytes.Reader
	withData bool
}

func (q *cutReader) Read(p []byte) (int, error) {
	if q.r.Len() == 0 {
		return 0, errInjected
	}
	n, _ := q.r.Read(p)
	if q.withData && q.r.Len() == 0 {
		return n, errInjected
	}
	return n, nil
}

// c02OneObject: one parsed object is asked again and again, the way a caller walks the entries of a signature
// database with one parsed signature. Every call must answer what the same call answers on a freshly parsed
// object, and only (signer's certificate, the image's own hash input) may succeed: a success is bound to the key
// and the bytes of THIS call, never to what an earlier call established.
func c02OneObject(c *Ctx, cs Case, signed, sig, pre []byte, certs map[string]*x509.Certificate) {
	tampered := append([]byte{}, pre...)
	tampered[len(tampered)/2] ^= 0x01
	// what the reader of a step delivers: the hash input of the image ("same"), a changed one ("changed"), only its
	// first k bytes ("head@k") or only the bytes from k on ("tail@k"), or its first k bytes followed by a read error
	// ("fault@k": the error comes with a read of its own; "fault+@k": together with the last bytes) - a medium that
	// goes away in the middle of a read. Only "same" is the image.
	reader := func(stream string) io.Reader {
		name, ks, _ := strings.Cut(stream, "@")
		k, _ := strconv.Atoi(ks)
		k = max(0, min(k, len(pre)))
		switch name {
		case "changed":
			return bytes.NewReader(tampered)
		case "head":
			return bytes.NewReader(pre[:k])
		case "tail":
			return bytes.NewReader(pre[k:])
		case "fault", "fault+":
			return &cutReader{r: bytes.NewReader(pre[:k]), withData: name == "fault+"}
		}
		return bytes.NewReader(pre)
	}
	// fresh: the call is made on an object parsed for this call (another parsed copy of the signature / the image)
	type step struct {
		api, cert, stream string
		fresh             bool
	}
	cls := func(pan bool, ok bool, err error) string {
		if pan {
			return "panic"
		}
		if err != nil {
			return "err"
		}
		return fmt.Sprintf("ok %v", ok)
	}
	// one call on the given objects (nil: parse fresh ones)
	call := func(a *authenticode.Authenticode, p *authenticode.PECOFFBinary, st step) string {
		var ok bool
		var err error
		var pan bool
		switch st.api {
		case "Authenticode.Verify":
			if a == nil {
				if a, err = authenticode.ParseAuthenticode(sig); err != nil {
					return "parse-err"
				}
			}
			rd := reader(st.stream)
			pan, _ = safely(func() { ok, err = a.Verify(certs[st.cert], rd) })
		case "PKCS7.Verify":
			if a == nil {
				if a, err = authenticode.ParseAuthenticode(sig); err != nil {
					return "parse-err"
				}
			}
			pan, _ = safely(func() { ok, err = a.Pkcs.Verify(certs[st.cert]) })
		case "PECOFFBinary.Verify":
			if p == nil {
				if p, err = authenticode.Parse(bytes.NewReader(signed)); err != nil {
					return "parse-err"
				}
			}
			pan, _ = safely(func() { ok, err = p.Verify(certs[st.cert]) })
		}
		return cls(pan, ok, err)
	}
	kinds := []string{"right", "twin", "stranger"}
	apis := []string{"Authenticode.Verify", "PKCS7.Verify", "PECOFFBinary.Verify"}
	var histories [][]step
	// the signer's certificate first, then each other certificate through each entry point; and the reverse
	for _, api := range apis {
		histories = append(histories, []step{{api, "right", "same", false}, {api, "twin", "same", false}, {api, "stranger", "same", false}, {api, "right", "same", false}},
			[]step{{api, "twin", "same", false}, {api, "right", "same", false}, {api, "twin", "same", false}})
	}
	histories = append(histories,
		[]step{{"Authenticode.Verify", "right", "same", false}, {"PKCS7.Verify", "twin", "", false}, {"Authenticode.Verify", "twin", "same", false}},
		[]step{{"PKCS7.Verify", "right", "", false}, {"Authenticode.Verify", "twin", "same", false}, {"PKCS7.Verify", "twin", "", false}},
		[]step{{"Authenticode.Verify", "right", "same", false}, {"Authenticode.Verify", "right", "changed", false}, {"Authenticode.Verify", "right", "same", false}},
		[]step{{"Authenticode.Verify", "right", "changed", false}, {"Authenticode.Verify", "right", "same", false}, {"Authenticode.Verify", "twin", "changed", false}})
	// a call that is cut short by a read error after k bytes, or that is handed only the first k bytes, and then a
	// call that is handed only the REST of the image (on the same object, on an object parsed for that call, under
	// the same or another certificate), or the whole image
	cuts := []int{1, 63, 64, len(pre) / 2, len(pre) - 1, 1 + c.Rng.Intn(len(pre)-1), 1 + c.Rng.Intn(len(pre)-1)}
	if !c.Thorough {
		cuts = []int{cuts[c.Rng.Intn(5)], cuts[5]}
	}
	for ci, k := range cuts {
		if k < 1 || k >= len(pre) {
			continue
		}
		av := "Authenticode.Verify"
		at := func(name string) string { return fmt.Sprintf("%s@%d", name, k) }
		fault := at([]string{"fault", "fault+"}[ci%2])
		histories = append(histories,
			[]step{{av, "right", fault, false}, {av, "right", at("tail"), false}, {av, "right", "same", false}},
			[]step{{av, "right", fault, false}, {av, "right", at("tail"), true}, {av, "right", "same", true}},
			[]step{{av, "right", fault, false}, {av, "right", "same", false}, {av, "right", at("tail"), false}},
			[]step{{av, "twin", fault, true}, {av, "right", at("tail"), false}},
			[]step{{av, "right", at("head"), false}, {av, "right", at("tail"), false}, {av, "right", fault, false}, {"PECOFFBinary.Verify", "right", "", false}, {av, "right", at("tail"), true}})
	}
	walkStream := func() string {
		k := 1 + c.Rng.Intn(len(pre)-1)
		return []string{"same", "same", "changed", fmt.Sprintf("fault@%d", k), fmt.Sprintf("fault+@%d", k), fmt.Sprintf("tail@%d", k), fmt.Sprintf("head@%d", k)}[c.Rng.Intn(7)]
	}
	for i := 0; i < c.P(3, 12); i++ { // random walks
		var h []step
		for j := 0; j < 3+c.Rng.Intn(4); j++ {
			h = append(h, step{apis[c.Rng.Intn(len(apis))], kinds[c.Rng.Intn(len(kinds))], walkStream(), c.Rng.Intn(4) == 0})
			if last := h[len(h)-1]; strings.HasPrefix(last.stream, "fault") && c.Rng.Intn(2) == 0 { // the rest of that image next
				h = append(h, step{"Authenticode.Verify", "right", "tail" + last.stream[strings.Index(last.stream, "@"):], c.Rng.Intn(2) == 0})
			}
		}
		histories = append(histories, h)
	}
	for hi, h := range histories {
		a, err1 := authenticode.ParseAuthenticode(sig)
		p, err2 := authenticode.Parse(bytes.NewReader(signed))
		if err1 != nil || err2 != nil {
			return
		}
		// the history runs first, nothing else is called between its steps; what each call answers alone (on objects
		// parsed for it) is asked afterwards
		gots := make([]string, len(h))
		for si, st := range h {
			if st.fresh {
				gots[si] = call(nil, nil, st)
			} else {
				gots[si] = call(a, p, st)
			}
		}
		trail := ""
		for si, st := range h {
			got := gots[si]
			fresh := call(nil, nil, st)
			sc, _, _ := strings.Cut(st.stream, "@")
			c.Count(fmt.Sprintf("%s|one-object|%d|%d", cs.Key(), hi, si), true, "one-object/"+st.api+"/"+st.cert+map[bool]string{true: "/" + sc, false: ""}[st.api == "Authenticode.Verify" && sc != "same" && sc != "changed"]+"/"+strings.ReplaceAll(got, " ", "-"))
			here := fmt.Sprintf("%s(%s certificate%s%s)", st.api, st.cert, map[bool]string{true: ", " + st.stream + " stream", false: ""}[st.api == "Authenticode.Verify"], map[bool]string{true: ", on an object parsed for this call", false: ""}[st.fresh])
			if got == "panic" {
				c.Fail(Failure{Kind: "property", Matcher: "c02.verify_panics", What: here + " panicked on an object that had answered: " + trail, Case: cs})
			}
			mayOK := st.cert == "right" && (st.api != "Authenticode.Verify" || st.stream == "same")
			if got == "ok true" && !mayOK {
				c.Fail(Failure{Kind: "property", What: "a history of verification calls: " + here + " succeeded although this key did not sign the bytes the reader delivers (the hash input of the signed image has " + fmt.Sprint(len(pre)) + " bytes); calls before it: " + trail, Case: cs, Go: got, Spec: "a freshly parsed object answers: " + fresh})
			} else if got != fresh {
				c.Fail(Failure{Kind: "property", What: "a history of verification calls: " + here + " answers differently from the same call made alone on a freshly parsed object; calls before it: " + trail, Case: cs, Go: got, Spec: "a freshly parsed object answers: " + fresh})
			}
			trail += here + "=" + got + "; "
		}
	}
}

// positionedReaders: seekable readers over `whole` that are handed over standing at offset off - a caller that has
// seeked to, or read up to, the part it wants processed. Each delivers whole[off:]. The second result releases
// the file behind the os.File reader.
type namedReader struct {
	kind string
	r    io.Reader
}

func positionedReaders(whole []byte, off int) ([]namedReader, func()) {
	var out []namedReader
	at := fmt.Sprintf("@%d", off)
	seek := func(kind string, r io.ReadSeeker) {
		if _, err := r.Seek(int64(off), io.SeekStart); err == nil {
			out = append(out, namedReader{kind + "/seeked" + at, r})
		}
	}
	read := func(kind string, r io.Reader) {
		if _, err := io.CopyN(io.Discard, r, int64(off)); err == nil {
			out = append(out, namedReader{kind + "/read-up-to" + at, r})
		}
	}
	seek("bytes.Reader", bytes.NewReader(whole))
	read("bytes.Reader", bytes.NewReader(whole))
	seek("strings.Reader", strings.NewReader(string(whole)))
	// a window into a larger buffer
	big := append(append(bytes.Repeat([]byte{0xEE}, 24), whole...), bytes.Repeat([]byte{0xDD}, 40)...)
	seek("io.SectionReader", io.NewSectionReader(bytes.NewReader(big), 24, int64(len(whole))))
	read("io.SectionReader", io.NewSectionReader(bytes.NewReader(big), 24, int64(len(whole))))
	done := func() {}
	if f, err := os.CreateTemp("", "vcheck-c02-*"); err == nil {
		done = func() { f.Close(); os.Remove(f.Name()) }
		if _, err := f.Write(whole); err == nil {
			seek("os.File", f)
		}
	}
	return out, done
}

// replace the certificate table of img by `table` (8-aligned entries) and fix the directory entry
func withTable(img []byte, table []byte) []byte {
	dd, bodyEnd := peOffsets(img)
	out := append([]byte{}, img[:bodyEnd]...)
	for len(out)%8 != 0 {
		out = append(out, 0)
	}
	va := len(out)
	out = append(out, table...)
	if len(table) == 0 {
		va = 0
	}
	binary.LittleEndian.PutUint32(out[dd:], uint32(va))
	binary.LittleEndian.PutUint32(out[dd+4:], uint32(len(table)))
	return out
}

func winCert(body []byte) []byte {
	e := make([]byte, 8, 8+len(body)+8)
	binary.LittleEndian.PutUint32(e, uint32(8+len(body)))
	binary.LittleEndian.PutUint16(e[4:], 0x0200)
	binary.LittleEndian.PutUint16(e[6:], 0x0002)
	e = append(e, body...)
	for len(e)%8 != 0 {
		e = append(e, 0)
	}
	return e
}

func tableOf(img []byte) []byte {
	dd, _ := peOffsets(img)
	va, sz := int(binary.LittleEndian.Uint32(img[dd:])), int(binary.LittleEndian.Uint32(img[dd+4:]))
	if va == 0 || va+sz > len(img) {
		return nil
	}
	return img[va : va+sz]
}

func signImage(c *Ctx, img []byte, keyIdx int) ([]byte, []byte, error) {
	key := poolKey(c, 2048, keyIdx)
	cert := makeRSACert(key, certShapes(c)[keyIdx%len(certShapes(c))])
	p, err := authenticode.Parse(bytes.NewReader(img))
	if err != nil {
		return nil, nil, err
	}
	sig, err := p.Sign(key, cert)
	if err != nil {
		return nil, nil, err
	}
	return p.Bytes(), sig, nil
}

func c02Eval(c *Ctx, cs Case) {
	var base, other []byte
	var flips []int
	if cs.S("path") != "" {
		b, err := os.ReadFile(filepath.Join(c.RepoDir, cs.S("path")))
		if err != nil || len(b) < 0x100 {
			return
		}
		base = b
	} else {
		s := specOfCase(cs)
		s.CertBodies = nil
		b := buildPE(s)
		base = b.img
		flips = flipPositions(c, b)
	}
	// a second, different image for transplants
	s2 := genPeSpec(c, false)
	s2.CertBodies = nil
	other = buildPE(s2).img
	shapes := certShapes(c)
	right := makeRSACert(poolKey(c, 2048, 0), shapes[0])
	twin := makeRSACert(poolKey(c, 2048, 1), shapes[0]) // same issuer and serial, another key
	stranger := makeRSACert(poolKey(c, 2048, 1), shapes[1])
	// Is the image inside the domain the Lean Spec speaks about? The Spec decides, not the harness.
	if wf := fieldAfter(c.Drv.Ask("pe.spec", hx(base)), "wf="); wf != "true" {
		// Outside it (a section that declares raw data without a file pointer, ...) the Spec assigns no digest and the
		// Impl model is not a model of the library. The library may refuse such an image at any stage; when it signs
		// it and verifies what it signed, the clauses of the property that need no digest still bind it: no other key,
		// no transplant, no change of a byte that every reading of the format covers.
		cl := "outside-wf-domain/" + specOfCase(cs).class() + "/"
		var signed []byte
		var err error
		if pan, _ := safely(func() { signed, _, err = signImage(c, base, 0) }); pan {
			c.Fail(Failure{Kind: "property", Matcher: "c02.verify_panics", What: "parsing/signing an image outside the well-formed domain panicked", Case: cs})
			return
		}
		if err != nil {
			c.Count(cs.Key()+"|outside", true, cl+"not-signed-by-the-library")
			return
		}
		for _, kc := range []struct {
			kind string
			c    *x509.Certificate
		}{{"right", right}, {"twin", twin}, {"stranger", stranger}} {
			for _, v := range []struct {
				class string
				img   []byte
			}{{"signed", signed}, {"transplant", withTable(other, tableOf(signed))}} {
				got := goVerifyClass(v.img, kc.c)
				c.Count(fmt.Sprintf("%s|outside|%s|%s", cs.Key(), v.class, kc.kind), true, cl+v.class+"/"+kc.kind+"/"+strings.ReplaceAll(got, " ", "-"))
				if strings.Contains(got, "panic") {
					c.Fail(Failure{Kind: "property", Matcher: "c02.verify_panics", What: "verification panicked (" + v.class + ", image outside the well-formed domain)", Case: cs, Go: got})
				} else if got == "ok true" && (kc.kind != "right" || v.class != "signed") {
					c.Fail(Failure{Kind: "property", What: "verification succeeded without a signature by this key over these bytes (" + v.class + ", certificate: " + kc.kind + ", image outside the well-formed domain)", Case: cs, Go: got})
				}
			}
		}
		c02CoveredChanges(c, cs, signed, right, "outside")
		return
	}
	signed, sig, err := signImage(c, base, 0)
	if err != nil {
		c.Fail(Failure{Kind: "property", What: "signing a well-formed image failed: " + err.Error(), Case: cs})
		return
	}
	// what the derivations start from must be a signed image for a reader that owes nothing to the library: the
	// certificate-table directory entry (independent header walk) names a non-empty table that is the tail of the file
	if dd, be := peOffsets(signed); be < dd+8 || be >= len(signed) || int(binary.LittleEndian.Uint32(signed[dd:])) != be {
		c.Fail(Failure{Kind: "property", What: fmt.Sprintf("the library signed a well-formed image (%d data directories), but in the output the certificate-table directory entry, located by an independent header walk at %#x, does not name a table that is the tail of the file (address %#x, size %#x, file length %#x): no verifier finds the signature where the format puts it, and whatever the library's own Verify accepts here it does not take from this image's certificate table",
			specOfCase(cs).NDirs, dd, binary.LittleEndian.Uint32(signed[dd:]), binary.LittleEndian.Uint32(signed[dd+4:]), len(signed)), Case: cs, Go: goVerifyClass(signed, right)})
		return
	}
	c.Sample(cs)
	all := func(img []byte, class string) {
		c02Pair(c, cs, img, right, class, "right")
		c02Pair(c, cs, img, twin, class, "twin")
		if c.Rng.Intn(3) == 0 {
			c02Pair(c, cs, img, stranger, class, "stranger")
		}
	}
	all(signed, "signed")
	c02Pair(c, cs, base, right, "unsigned", "right")
	c02CoveredChanges(c, cs, signed, right, "inside")
	// --- every class of the quantifier ---
	// 1. single-byte changes of the signed image (stratified)
	if len(flips) == 0 {
		flips = randomPositions(c, len(signed), 16)
	}
	for _, p := range flips {
		if p >= len(signed) {
			continue
		}
		m := append([]byte{}, signed...)
		m[p] ^= byte(1 << uint(c.Rng.Intn(8)))
		c02Pair(c, cs, m, right, "byte-change", "right")
	}
	for i := 0; i < 8; i++ { // inside the certificate table
		m := append([]byte{}, signed...)
		_, be := peOffsets(signed)
		p := be + c.Rng.Intn(len(signed)-be)
		m[p] ^= byte(1 << uint(c.Rng.Intn(8)))
		c02Pair(c, cs, m, right, "table-byte-change", "right")
	}
	// 2. cross-image transplant of the certificate table
	all(withTable(other, tableOf(signed)), "transplant")
	// 3. change a covered byte and overwrite the digest inside the blob with the new image digest
	{
		m := append([]byte{}, signed...)
		_, be := peOffsets(signed)
		pos := be - 1 - c.Rng.Intn(min(be-1, 64))
		m[pos] ^= 0x01
		if cl := c.Drv.Ask("pe.classify", hx(m), fmt.Sprint(pos)); cl == "covered" {
			if pm, err := authenticode.Parse(bytes.NewReader(m)); err == nil {
				nd := pm.Hash(crypto.SHA256)
				od := embeddedDigest(sig)
				if len(od) == 32 && len(nd) == 32 {
					if i := bytes.LastIndex(m, od); i >= 0 {
						copy(m[i:], nd)
						all(m, "digest-rewrite")
					}
					// the same, together with one unsigned edit of the blob: no field outside the
					// signed attributes may switch the content binding off
					if j := bytes.LastIndex(sig, od); j >= 0 && (c.Thorough || cs.S("path") != "" || c.Rng.Intn(3) == 0) {
						sig2 := append([]byte{}, sig...)
						copy(sig2[j:], nd)
						seed2 := p7Seed{name: "image-signature-rewritten", blob: sig2, right: right, twin: twin, other: stranger}
						k := 0
						forgeries(c, seed2, func(class string, b []byte) {
							k++
							if strings.HasPrefix(class, "oid-swap") && strings.Contains(class, "+forge-content") {
								return
							}
							if strings.HasPrefix(class, "oid-swap") && !c.Thorough && k%3 != 0 && !strings.HasSuffix(class, "sha384") {
								return
							}
							if strings.HasPrefix(class, "forge-carrie") && !c.Thorough { // section 6 runs the carriers on every image
								return
							}
							if (strings.HasPrefix(class, "forge-empty-content/") || strings.HasPrefix(class, "forge-resigned-under-hash/")) && !c.Thorough && k%4 != 0 {
								return
							}
							c02Pair(c, cs, withTable(m, winCert(b)), right, "digest-rewrite+"+class, "right")
						})
					}
				}
			}
		}
	}
	// 4. structural / targeted edits inside the blob (content, content type, certificates, signer identity, attributes)
	seed := p7Seed{name: "image-signature", blob: sig, right: right, twin: twin, other: stranger}
	nf, ne := 0, 0
	forgeries(c, seed, func(class string, b []byte) {
		if strings.HasPrefix(class, "oid-swap") { // C04 runs all of these on the blob itself
			nf++
			if c.Thorough || nf%5 == 0 {
				c02Pair(c, cs, withTable(signed, winCert(b)), right, "blob-"+class, "right")
			}
			return
		}
		if strings.HasPrefix(class, "forge-carrie") && !c.Thorough {
			// a passenger blob in a re-signed / in the genuine signature of the UNCHANGED image: under the signer's
			// certificate, a sample (section 6 runs every position on a tampered image, C04 on the blobs themselves)
			nf++
			if nf%4 == 0 {
				c02Pair(c, cs, withTable(signed, winCert(b)), right, "blob-"+class, "right")
			}
			return
		}
		if (strings.HasPrefix(class, "forge-empty-content/") || strings.HasPrefix(class, "forge-resigned-under-hash/")) && !c.Thorough && cs.S("path") == "" {
			// C04 runs every one of these on the blobs themselves under every certificate; here, on generated images, two
			// of the nine per image under the signer's certificate (all of them on the repository binaries)
			ne++
			if ne%9 == int(crc32.ChecksumIEEE(sig))%9 || ne%9 == int(crc32.ChecksumIEEE(sig)>>4+4)%9 {
				c02Pair(c, cs, withTable(signed, winCert(b)), right, "blob-"+class, "right")
			}
			return
		}
		if class == "forge-resigned-by-other" || strings.HasPrefix(class, "forge-carrier/") {
			// the stranger's key really signs here (a genuine signature of the stranger over this image's digest, alone
			// or carrying the original blob as a passenger): asked under the certificates whose keys did not.
			// (The thorough tier used to ask the carrier classes under the stranger's certificate too: a false alarm of
			// the oracle, found by the thorough sweep on the unchanged tree.)
			c02Pair(c, cs, withTable(signed, winCert(b)), right, "blob-"+class, "right")
			c02Pair(c, cs, withTable(signed, winCert(b)), twin, "blob-"+class, "twin")
			return
		}
		all(withTable(signed, winCert(b)), "blob-"+class)
	})
	n := 0
	mutateBlob(c, sig, func(class string, b []byte) {
		n++
		if n%c.P(97, 7) == 0 { // a sample of the generic blob mutations (C04 runs them all on the blob itself)
			c02Pair(c, cs, withTable(signed, winCert(b)), right, "blob-"+class, "right")
		}
	})
	// 6. a covered byte changed, and the changed image signed by a foreign key: one entry has the right key
	// (over the old digest), the other the right digest (under the wrong key) — no single entry has both
	{
		_, be := peOffsets(base)
		if be > 0x100 {
			tb := append([]byte{}, base...)
			pos := be - 1 - c.Rng.Intn(min(be-1, 64))
			tb[pos] ^= 0x04
			if cl := c.Drv.Ask("pe.classify", hx(tb), fmt.Sprint(pos)); cl == "covered" {
				if _, sigF, err := signImage(c, tb, 3); err == nil {
					all(withTable(tb, append(winCert(sig), winCert(sigF)...)), "tampered+foreign-resign")
					all(withTable(tb, append(winCert(sigF), winCert(sig)...)), "tampered+foreign-resign")
					// ... and as ONE table entry: the foreign key's signature over the tampered bytes, with the
					// genuine signature over the original bytes travelling inside it, in every place of a blob
					// that can hold a blob (unsigned attributes, certificates, CRLs, content, further signer
					// entries, trailing fields). A signature of the right key over another image is a transplant
					// wherever it sits.
					p7Carriers(sigF, sig, func(pos string, b []byte) {
						all(withTable(tb, winCert(b)), "tampered+foreign-resign+carrier/"+pos)
					})
					// the reverse: the genuine signature (over the original bytes) carrying the foreign one
					p7Carriers(sig, sigF, func(pos string, b []byte) {
						if c.Thorough || c.Rng.Intn(4) == 0 {
							c02Pair(c, cs, withTable(tb, winCert(b)), right, "tampered+genuine-carrying-foreign/"+pos, "right")
						}
					})
				}
			}
		}
	}
	// 7. the directory entry of the certificate table is not signed: let it claim more than the table.
	// (a) Size inflated so that the "table" swallows the last d bytes in front of it, which are changed, while
	// the zero padding computed from the new file size stands in for them; (b) the same with the address moved
	// down by d and an empty leading entry, so that address + size still ends at the end of the file.
	{
		ov := append(append([]byte{}, base...), []byte("OVERLAY-DATA")...)
		ov = append(ov, make([]byte, 7)...)
		for len(ov)%8 != 0 {
			ov = append(ov, 0)
		}
		if sOv, _, err := signImage(c, ov, 0); err == nil {
			dd, _ := peOffsets(sOv)
			va, sz := int(binary.LittleEndian.Uint32(sOv[dd:])), int(binary.LittleEndian.Uint32(sOv[dd+4:]))
			ds := []int{1 + c.Rng.Intn(7)}
			if c.Thorough || cs.S("path") != "" {
				ds = []int{1, 2, 3, 4, 5, 6, 7}
			}
			if va > 8 && va+sz == len(sOv) {
				all(sOv, "signed-overlay")
				for _, d := range ds {
					ev := append([]byte{}, sOv...)
					for i := 0; i < d; i++ {
						ev[va-1-i] = 0xCC
					}
					ev = append(ev, bytes.Repeat([]byte{0x41}, 8-d)...)
					binary.LittleEndian.PutUint32(ev[dd+4:], uint32(sz+8))
					all(ev, "size-inflate")
					sh := append([]byte{}, sOv[:va-d]...)
					sh = append(sh, 8, 0, 0, 0, 0, 2, 2, 0) // an entry with an empty body in front of the real ones
					sh = append(sh, sOv[va:va+sz]...)
					for i := 0; i < d && i < 4; i++ { // the bytes in front of the old table were zeros: make the change visible
						if sh[va-d+i] == 0 {
							sh[va-d+i] = 8
						}
					}
					binary.LittleEndian.PutUint32(sh[dd:], uint32(va-d))
					binary.LittleEndian.PutUint32(sh[dd+4:], uint32(sz+8))
					all(sh, "table-shift")
				}
			}
		}
	}
	// 8. data behind the certificate table (a multiple of 8 bytes keeps the padding the same): the table is no
	// longer the tail of the file, nothing may verify
	for _, n := range []int{8, 16 + 8*c.Rng.Intn(64)} {
		m := append(append([]byte{}, signed...), bytes.Repeat([]byte{0x5A}, n)...)
		all(m, "data-after-table")
		m2 := append([]byte{}, m...) // ... also when the directory entry is stretched over the appended data
		dd, _ := peOffsets(m2)
		binary.LittleEndian.PutUint32(m2[dd+4:], binary.LittleEndian.Uint32(m2[dd+4:])+uint32(n))
		all(m2, "data-after-table+size")
	}
	// 9. the public reader-based API (Authenticode.Verify / SignAuthenticode) with every reader kind, including
	// seekable readers that do NOT stand at their beginning when they are handed over (an image behind a header
	// inside a larger blob or file, the caller has seeked or read up to the image): the image that is verified /
	// signed is what the reader DELIVERS. Success exactly when that is the specification's hash input of the image.
	if pre := unhx(fieldAfter(c.Drv.Ask("pe.spec", hx(signed)), "pre=")); len(pre) > 1 {
		if a, err := authenticode.ParseAuthenticode(sig); err == nil {
			streams := map[string][]byte{"same": pre}
			t1 := append([]byte{}, pre...)
			t1[len(t1)-1] ^= 0x20
			streams["last-byte"] = t1
			t2 := append([]byte{}, pre...)
			t2[len(t2)/2] ^= 0x01
			streams["middle-byte"] = t2
			streams["prefix"] = pre[:len(pre)-1]
			streams["other-image"] = other
			// only the rest of the hash input, from byte 1 and from a position chosen by the image
			cutAt := 1 + int(crc32.ChecksumIEEE(pre))%(len(pre)-1)
			streams["suffix@1"] = pre[1:]
			streams[fmt.Sprintf("suffix@%d", cutAt)] = pre[cutAt:]
			names := make([]string, 0, len(streams))
			for name := range streams {
				names = append(names, name)
			}
			sort.Strings(names)
			verify := func(name, kind string, rd io.Reader) {
				var ok bool
				var verr error
				if pan, _ := safely(func() { ok, verr = a.Verify(right, rd) }); pan {
					c.Fail(Failure{Kind: "property", Matcher: "c02.verify_panics", What: "Authenticode.Verify panicked (" + kind + ")", Case: cs})
					return
				}
				sc, _, _ := strings.Cut(name, "@")
				kc, _, _ := strings.Cut(kind, "@")
				c.Count(fmt.Sprintf("%s|reader|%s|%s", cs.Key(), name, kind), true, "reader-api/"+sc+"/"+kc)
				if want := name == "same"; (ok && verr == nil) != want {
					c.Fail(Failure{Kind: "property", What: fmt.Sprintf("Authenticode.Verify over a %s reader delivering the %s stream (%d bytes; the hash input of the signed image has %d): success=%v, expected %v", kind, name, len(streams[name]), len(pre), ok && verr == nil, want), Case: cs, Go: fmt.Sprint(ok, verr)})
				}
			}
			for _, name := range names {
				st := streams[name]
				for _, kind := range append([]string{"open-section"}, readerKinds...) {
					var rd io.Reader
					if kind == "open-section" {
						rd = io.NewSectionReader(bytes.NewReader(st), 0, 1<<62)
					} else {
						rd = newSrcReader(kind, st).r
					}
					verify(name, kind, rd)
				}
				// the stream sits behind a header of another length each time; the reader stands on its first byte
				hdr := randBytes(c, 1+c.Rng.Intn(96))
				prs, done := positionedReaders(append(append([]byte{}, hdr...), st...), len(hdr))
				for _, pr := range prs {
					verify(name, pr.kind, pr.r)
				}
				done()
				// the rest of the hash input delivered by a reader over the WHOLE hash input that stands at the cut
				if _, at, isSuffix := strings.Cut(name, "suffix@"); isSuffix {
					k, _ := strconv.Atoi(at)
					prs, done := positionedReaders(pre, k)
					for _, pr := range prs {
						verify(name, pr.kind+"-over-the-whole-hash-input", pr.r)
					}
					done()
				}
			}
			// signing through the same reader kinds commits to the digest of exactly the bytes delivered
			want := sha256.Sum256(pre)
			signOver := func(kind string, rd io.Reader, want []byte) {
				key := poolKey(c, 2048, 0)
				var sg []byte
				var err error
				if pan, _ := safely(func() { sg, err = authenticode.SignAuthenticode(key, right, rd, crypto.SHA256) }); pan {
					c.Fail(Failure{Kind: "property", Matcher: "c02.verify_panics", What: "SignAuthenticode panicked (" + kind + ")", Case: cs})
				} else if err == nil {
					if d := embeddedDigest(sg); !bytes.Equal(d, want) {
						c.Fail(Failure{Kind: "property", What: "SignAuthenticode over a " + kind + " reader embeds a digest that is not the digest of the bytes delivered", Case: cs, Go: hx(d), Spec: hx(want)})
					}
				} else {
					c.Fail(Failure{Kind: "property", What: "SignAuthenticode failed over a " + kind + " reader", Case: cs, Go: err.Error()})
				}
				kc, _, _ := strings.Cut(kind, "@")
				c.Class("reader-api/sign/" + kc)
			}
			for _, kind := range append([]string{"open-section"}, readerKinds...) {
				var rd io.Reader
				if kind == "open-section" {
					rd = io.NewSectionReader(bytes.NewReader(pre), 0, 1<<62)
				} else {
					rd = newSrcReader(kind, pre).r
				}
				signOver(kind, rd, want[:])
			}
			hdr := randBytes(c, 1+c.Rng.Intn(96))
			prs, done := positionedReaders(append(append([]byte{}, hdr...), pre...), len(hdr))
			for i, pr := range prs {
				if c.Thorough || cs.S("path") != "" || i%3 == int(crc32.ChecksumIEEE(pre))%3 { // an RSA signature each
					signOver(pr.kind, pr.r, want[:])
				}
			}
			done()
			wantRest := sha256.Sum256(pre[cutAt:])
			prs, done = positionedReaders(pre, cutAt)
			for i, pr := range prs {
				if c.Thorough || cs.S("path") != "" || i%3 == int(crc32.ChecksumIEEE(pre)>>2)%3 {
					signOver(pr.kind+"-over-the-whole-hash-input", pr.r, wantRest[:])
				}
			}
			done()
		}
	}
	// 10. one parsed object (Authenticode, its PKCS7, PECOFFBinary) asked repeatedly with different certificates and streams
	if pre := unhx(fieldAfter(c.Drv.Ask("pe.spec", hx(signed)), "pre=")); len(pre) > 0 {
		c02OneObject(c, cs, signed, sig, pre, map[string]*x509.Certificate{"right": right, "twin": twin, "stranger": stranger})
	}
	// 11. what the signature VALUE holds, and verifying certificates whose RSA public exponent is 3. An image signed
	// with an exponent-3 key verifies under its certificate like any other (control). Then the genuine signature blob
	// of this image (content = this image's digest, message digest, attributes: all consistent) names another
	// certificate and carries as its signature value octets that are no RSASSA-PKCS1-v1_5 signature by that
	// certificate's key but that a lenient decoder of the RSA block would take for one (rsaBlockForgeries): made from
	// the PUBLIC key alone for the exponent-3 certificate (an integer cube root), and made with the private key over
	// blocks that deviate from 00 01 FF..FF 00 DigestInfo in one respect for the signer's own certificate.
	{
		e3 := lowExponentKey(c, 2048, 3)
		e3cert := makeRSACert(e3, shapes[3])
		if p, err := authenticode.Parse(bytes.NewReader(base)); err == nil {
			if _, err := p.Sign(e3, e3cert); err == nil {
				se3 := p.Bytes()
				c02Pair(c, cs, se3, e3cert, "signed/exponent-3-key", "right")
				if c.Thorough || cs.S("path") != "" || crc32.ChecksumIEEE(sig)%2 == 0 {
					c02Pair(c, cs, se3, right, "signed/exponent-3-key", "stranger")
				} else {
					c02Pair(c, cs, se3, makeRSACert(poolKey(c, 2048, 1), shapes[3]), "signed/exponent-3-key", "twin")
				}
			}
		}
		nb := 0
		rsaBlockForgeries(sig, nil, e3cert, func(string) bool {
			nb++ // quick: the first two classes and one of the other two
			return c.Thorough || cs.S("path") != "" || nb <= 2 || nb%2 == int(crc32.ChecksumIEEE(sig))%2
		}, func(class string, b []byte) {
			c02Pair(c, cs, withTable(signed, winCert(b)), e3cert, "blob-"+class, "named-exponent-3-certificate")
		})
		nb = 0
		rsaBlockForgeries(sig, poolKey(c, 2048, 0), right, func(class string) bool {
			nb++ // quick: a third of the classes per image
			return strings.Contains(class, "made-with-the-private-key") && (c.Thorough || cs.S("path") != "" || nb%3 == int(crc32.ChecksumIEEE(sig))%3)
		}, func(class string, b []byte) {
			c02Pair(c, cs, withTable(signed, winCert(b)), right, "blob-"+class, "right")
		})
	}
	// 12. a signature of the image-signing key over something that is NOT an image, moved onto the image. The key
	// holder signs plain data with the same key and certificate - a variable update (SignEFIVariable: SignPKCS7 with
	// content type data over name, GUID, attributes, time and payload, detached; as a ContentInfo and as the bare
	// SignedData a descriptor carries) or a file with an OpenSSL-shaped CMS tool. Only the UNSIGNED part of that blob
	// is rewritten: the encapsulated content info becomes the SpcIndirectDataContent of THIS image (content type
	// rewritten to SpcIndirectDataContent, or left as data), taken from the image's genuine signature. The signed
	// attributes (contentType data, the message digest of the plain data) and the signature are the key holder's own.
	// The key never committed to this image's digest: nothing may verify.
	{
		upd := append(append([]byte{'d', 0, 'b', 0}, detBytes("variable update "+cs.Key(), 16+4+16)...), detBytes("payload "+cs.Key(), 76)...)
		var donors []struct {
			name string
			blob []byte
		}
		add := func(name string, b []byte) {
			if len(b) > 0 {
				donors = append(donors, struct {
					name string
					blob []byte
				}{name, b})
			}
		}
		if ds, err := pkcs7.SignPKCS7(poolKey(c, 2048, 0), right, pkcs7.OIDData, upd); err == nil {
			add("signed-variable-update", ds)
			if r, ok := parseDER(ds); ok && len(r) == 1 {
				add("signed-variable-update/bare-signed-data", p7SignedDataOf(r[0]).encode())
			}
		}
		add("openssl-shaped-detached-data-signature", buildCMS(poolKey(c, 2048, 0), right, upd, false, crc32.ChecksumIEEE(sig)%2 == 0, true))
		sr, ok := parseDER(sig)
		nx := 0
		for _, d := range donors {
			dr, ok2 := parseDER(d.blob)
			if !ok || !ok2 || len(sr) != 1 || len(dr) != 1 {
				continue
			}
			imgECI := p7SignedDataOf(sr[0]).kids
			if len(imgECI) < 3 || len(imgECI[2].kids) != 2 {
				continue
			}
			for _, keepType := range []bool{false, true} {
				r := dr[0].clone()
				sd := p7SignedDataOf(r)
				if len(sd.kids) < 4 || len(sd.kids[2].kids) != 1 {
					continue
				}
				eci := imgECI[2].clone()
				if keepType {
					eci.kids[0] = sd.kids[2].kids[0]
				}
				sd.kids[2] = eci
				class := "cross-protocol/" + d.name + map[bool]string{false: "/content-type-rewritten", true: "/content-type-left-as-data"}[keepType]
				nx++
				switch {
				case c.Thorough || cs.S("path") != "" || nx == 1:
					all(withTable(signed, winCert(r.encode())), class)
				case nx%5 == int(crc32.ChecksumIEEE(sig))%5: // quick: the first combination under every certificate, one other under the signer's
					c02Pair(c, cs, withTable(signed, winCert(r.encode())), right, class, "right")
				}
			}
		}
	}
	// 5. two entries: a foreign valid signature first, ours second, and the reverse
	if s2signed, sig2, err := signImage(c, base, 3); err == nil {
		_ = s2signed
		all(withTable(signed, append(winCert(sig2), winCert(sig)...)), "two-signatures")
		all(withTable(signed, append(winCert(sig), winCert(sig2)...)), "two-signatures")
	}
}

func c02Gen(c *Ctx) {
	for _, f := range []string{"tests/data/binary/HelloWorld.efi", "authenticode/testdata/test.pecoff"} {
		c02Eval(c, Case{"op": "verify-derivations", "path": f})
	}
	for i := 0; i < c.N(12, 800) && c.NFailures() < 6; i++ {
		s := genPeSpec(c, i%10 == 9)
		cs := specCase(s)
		cs["op"] = "verify-derivations"
		c02Eval(c, cs)
	}
	// images with section headers that declare raw data but have no file pointer (uninitialised data as some
	// linkers emit it), in front of or behind the other headers, with less / exactly as much / more data behind the
	// last section than these headers declare
	for i := 0; i < c.N(8, 300) && c.NFailures() < 6; i++ {
		s := genPeSpec(c, false)
		s.CertBodies = nil
		r := c.Rng
		total := 0
		for k := 0; k < 1+r.Intn(2); k++ {
			z := []int{1, 7, 8, 9, 64, 512, 1 + r.Intn(2000)}[r.Intn(7)]
			s.NoBits = append(s.NoBits, z)
			total += z
		}
		s.NoBitsFront = r.Intn(2) == 0
		s.Trailing = []int{total, total + 1, total + 8 + r.Intn(300), 2*total + r.Intn(64), total - 1}[i%5]
		cs := specCase(s)
		cs["op"] = "verify-derivations"
		c02Eval(c, cs)
	}
}

func init() {
	register("C02", &PropDef{
		Rule:   "images from the C01 generator and two repository binaries, signed by the library; for each, Verify under the signer's certificate, a twin certificate (same issuer and serial, another key) and a stranger, on: the signed image, the unsigned image, ~25 stratified single-byte changes (+8 inside the certificate table), a cross-image transplant of the certificate table, a covered-byte change with the embedded digest overwritten by the new image digest (alone, and combined with each targeted blob edit and OID replacement), targeted edits inside the blob (content, content type, certificates, signer identity, message digest, dropped attributes), a sample of generic blob mutations, two-signature tables in both orders, a tampered image carrying the original signature plus a foreign key's signature over the tampered bytes (both orders), and the same tampered image with ONE table entry: the foreign key's signature with the genuine signature over the original bytes placed inside it, in every place of a blob that can hold another blob (unsigned attributes of a signer entry under the SpcNestedSignature / MS RFC 3161 timestamp / timeStampToken / an unknown attribute type, one and two values; a counter-signature attribute holding the genuine signer entry; an extra certificate; the CRL field; a further content element; the genuine signer entries appended / prepended; trailing fields of SignedData and of the content info; a second SignedData), plus a sample of the reverse nesting. The targeted blob edits include the two-signer-entry combinations of C04 (identity x signature, and identity x attributes re-bound to replaced content) and a blob consistently re-signed by another key. Every pair is compared with the Lean Impl verifier (real SHA-256/RSA) and judged by Spec.authenticodeVerify; in addition, two oracles that do not go through Lean: (a) derivation classes whose construction rules out a success (unsigned, transplant, digest-rewrite*, tampered+*, data-after-table, size-inflate, table-shift) must not verify under any asked certificate; (b) covered-byte changes by an independent header walk: on every signed image that verifies, one bit is changed in the headers (outside checksum and certificate-table entry), in EVERY 8-BYTE WINDOW OF THE OPTIONAL HEADER (one byte per window, chosen by the case, from the certificate-table directory entry back to the start of the optional header and forward to the section table: every other data directory of the image - the generated images carry 5..16 of them, SizeOfOptionalHeader to match - and the fields in front of them), at both ends of the raw data of the sections that have a place in the file, and behind the last such section up to the certificate table (its first four bytes one by one, offsets 2^k and 2^k-1 from its start, its last bytes, three random ones), and the image must no longer verify. Besides the well-formed images, 8 images whose section table also holds one or two headers that declare raw data without a file pointer (SizeOfRawData in {1,7,8,9,64,512,random} > 0, PointerToRawData = 0; in front of or behind the other headers), with fewer / exactly as many / more bytes behind the last section than these headers declare: the Lean Spec is asked (pe.spec) whether an image lies in its well-formed domain; outside it neither the Spec verdict nor the Impl model is applied, the library may refuse to parse or sign, and when it signs and verifies the image, oracle (b), the twin / stranger certificates and the table transplant still bind it. One parsed object asked repeatedly (the way a caller walks a signature database with one parsed signature): for every image, histories of 3-7 calls of Authenticode.Verify (over the hash input of the image or a changed stream), its PKCS7.Verify and PECOFFBinary.Verify on ONE parsed Authenticode / PECOFFBinary with the signer, twin and stranger certificates in both orders (signer first, other key first), mixed entry points and random walks; every call must answer what the same call answers on a freshly parsed object, and only (signer certificate, own hash input) may succeed. The histories also hold calls that are CUT SHORT: Authenticode.Verify over a reader that delivers the first k bytes of the hash input and then fails with a read error (the error in a read of its own, or together with the last bytes), or that delivers only the first k bytes, followed by a call that is handed only the REST of the hash input from k on (on the same object, or on an object parsed for that call, under the same or another certificate) and by a call over the whole image; k in {1, 63, 64, half, length-1, two random positions} (quick: one of the first five and one random), five fixed shapes per k plus the random walks, in which every step draws its stream from {whole, changed, fault@k, head@k, tail@k} and a quarter of the steps run on an object parsed for the step. The steps of a history run back to back; what each call answers alone is asked on freshly parsed objects after the history. A call over a failing reader, over a head or over a tail must never succeed. The reader-based API (Authenticode.Verify under the signer's certificate, SignAuthenticode) is run over every reader kind (bytes.Reader, bytes.Buffer, one byte per Read, data together with io.EOF, half reads, an io.SectionReader declared larger than the data) x the streams {hash input, last byte changed, middle byte changed, last byte missing, another image, the hash input without its first byte, the hash input from a position chosen by the image}, AND over seekable readers that do not stand at offset 0 when handed over: the stream behind a header of 1..96 random bytes with the reader standing on the first byte of the stream (bytes.Reader seeked / read up to there, strings.Reader seeked, io.SectionReader window into a larger buffer seeked / read up to there, *os.File seeked), and, for the two suffix streams, the same six readers over the WHOLE hash input standing at the cut; Verify must succeed exactly when the bytes the reader delivers are the hash input, SignAuthenticode (all reader kinds at offset 0; a third of the positioned ones per generated image, all of them for the repository binaries) must embed the SHA-256 of the bytes delivered. What the signature VALUE holds, and verifying certificates with RSA public exponent 3: every image is also signed with a 2048-bit exponent-3 key and must verify under that certificate (and under no stranger / twin); the image's genuine signature blob is then made to name the exponent-3 certificate with a signature value computed from the PUBLIC key alone - the integer cube root of a number that begins 00 01 FF*8 00 DigestInfo(SHA-256 of the attributes) and continues with whatever the root leaves (DigestInfo in its standard form / without NULL parameters; with eight / one / no padding octets; quick: the first two and one of the others per generated image) -, and to carry under the signer's own certificate values made with the private key over blocks that deviate from 00 01 FF..FF 00 DigestInfo in one respect (octets behind the DigestInfo, NULL parameters absent, four padding octets behind leading zeros, block type 02, a padding octet that is not FF, BER lengths in the DigestInfo, the digest of other attributes; quick: a third of them per generated image): nothing of this is an RSASSA-PKCS1-v1_5 signature by the named key, nothing may verify (judged by the Spec, by the independent stdlib verifier and by construction). Cross-protocol transplants: a signature the image-signing key made over something that is not an image - a variable update as SignEFIVariable signs it (SignPKCS7, content type data, detached; as ContentInfo and as the bare SignedData of a descriptor) and an OpenSSL-shaped detached CMS signature over the same bytes - whose UNSIGNED encapsulated content info is rewritten to the SpcIndirectDataContent of this image (content type rewritten to SpcIndirectDataContent, or left as data) and which is then placed in the image's certificate table: the signed contentType (data) and message digest (of the plain data) are the key holder's own, the key never committed to this image's digest, nothing may verify (quick: the first combination under all certificates and one other under the signer's per generated image; all six for the repository binaries). The targeted blob edits shared with C04 now include the encapsulated content replaced by an element with an EMPTY value (SEQUENCE / OCTET STRING / NULL / SET) and the signer entry re-made by the signer's own key under SHA-1 / SHA-384 / SHA-512 (quick: two of these nine per generated image, all on the repository binaries; C04 runs all of them on the blobs). What the derivations start from is checked by an independent header walk before anything is derived: in the file the library signed, the certificate-table directory entry must name a non-empty table that is the tail of the file (reported with the image as a failing input otherwise). Every case is non-trivial; distinct = distinct (image bytes, certificate) resp. (image, history, step) resp. (image, stream, reader).",
		Assume: []string{"RSA/SHA-256 on the model side are the executable Lean implementations", "x509.ParseCertificates is opaque (its verdicts are handed to the model)"},
		Eval:   c02Eval, Gen: c02Gen,
	})
}
