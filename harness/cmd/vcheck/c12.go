package main

import (
	"bytes"
	"encoding/binary"
	"encoding/json"
	"fmt"
	mrand "math/rand"
	"sort"
	"strings"
	"testing/fstest"
	"time"

	"github.com/foxboron/go-uefi/efi/attributes"
	"github.com/foxboron/go-uefi/efi/signature"
	"github.com/foxboron/go-uefi/efi/util"
	"github.com/foxboron/go-uefi/efivar"
	"github.com/foxboron/go-uefi/efivarfs"
	"github.com/foxboron/go-uefi/efivarfs/testfs"
)

type storeOp struct {
	K     string `json:"k"`   // W plain write, S signed update, G read, P two overlapping plain writes (see Var2)
	Var   string `json:"var"` // PK KEK db dbx OrdA OrdB Ord0, or the name of any other package-level definition of efivar (SetupMode, SecureBoot, PKDefault, BootOrder, LoaderEntries, ...)
	Value string `json:"value,omitempty"`
	Key   int    `json:"key,omitempty"`
	// how the caller describes the variable: "" the package-level efivar definition (or, for the ordinary variables,
	// the harness's own), "own" an Efivar value the caller built itself: equal name, an equal GUID obtained from the
	// canonical text (util.StringToGUID, as when a file name of efivarfs is parsed), equal attributes; "copy" a copy of
	// the definition whose GUID is a fresh copy of the pointed-to value
	Desc string `json:"desc,omitempty"`
	// S only - how the caller makes the signed update: "" Efivarfs.WriteSignedUpdate; "prepared": the caller signs it
	// itself (signature.SignEFIVariable), looks at the returned value Prep times first (Marshal and Bytes, as when it is
	// saved as an .auth file or its size is logged) and then hands it to WriteVar; the value object is kept.
	// "bytes": the caller signs it itself and hands WriteVar the SERIALISED update - the bytes of the returned value (the
	// content of an .auth file written earlier, read back and wrapped in a plain byte-slice Marshallable) - instead of the
	// object SignEFIVariable built; "wrapped": the returned value inside a Marshallable of the caller's own that passes
	// Marshal and Bytes on to it.  For the store these are the same signed update: what a value IS is what it marshals to.
	// K = "A" (again) hands the value object kept by the most recent prepared update of this variable to WriteVar once
	// more (the update is applied again after something else was written); without one it does nothing ("skip").
	How  string `json:"how,omitempty"`
	Prep int    `json:"prep,omitempty"`
	// P only - two plain writes through the ONE store that overlap in time: WriteVar(Var, value object of Value) is
	// called, and while the store is marshalling that value object (the object's Marshal parks: Prep = 0 after it wrote
	// its bytes, 1 before, 2 half way) another goroutine runs a complete WriteVar(Var2, Value2) through the same store;
	// then the first call goes on.  The hand-over is by channels: at any time one of the two goroutines runs.
	Var2   string `json:"var2,omitempty"`
	Value2 string `json:"value2,omitempty"`
}

// wellKnownVars are the package-level variable definitions of efivar beside PK / KEK / db / dbx (Boot#### is a pattern,
// not a variable).  For the store they are variables like any other: registers.
var wellKnownVars = map[string]efivar.Efivar{}

func init() {
	for _, v := range []efivar.Efivar{efivar.SecureBoot, efivar.SetupMode, efivar.PKDefault, efivar.KEKDefault, efivar.DbDefault, efivar.DbxDefault,
		efivar.BootCurrent, efivar.BootNext, efivar.BootOrder, efivar.LoaderTimeInitUSec, efivar.LoaderTimeExecUSec, efivar.LoaderDevicePartUUID,
		efivar.LoaderConfigTimeout, efivar.LoaderConfigTimeoutOneShot, efivar.LoaderEntries, efivar.LoaderEntryDefault, efivar.LoaderEntryOneShot,
		efivar.LoaderEntrySelected, efivar.LoaderFeatures, efivar.LoaderSystemToken} {
		wellKnownVars[v.Name] = v
	}
}

func wellKnownNames() []string {
	var ns []string
	for n := range wellKnownVars {
		ns = append(ns, n)
	}
	sort.Strings(ns)
	return ns
}

// parkValue is a caller's value object whose Marshal hands control to another goroutine at a given point of its work
// (a value that is produced by something that takes time: read from a file, a token, a channel)
type parkValue struct {
	b    []byte
	at   int // 0 park after the bytes were written, 1 before, 2 half way
	park func()
}

func (p *parkValue) Marshal(buf *bytes.Buffer) {
	switch p.at {
	case 1:
		p.park()
		buf.Write(p.b)
	case 2:
		buf.Write(p.b[:len(p.b)/2])
		p.park()
		buf.Write(p.b[len(p.b)/2:])
	default:
		buf.Write(p.b)
		p.park()
	}
}
func (p *parkValue) Bytes() []byte { return p.b }

// the same variable as storeVar(name), described by a value the caller built
func storeVarDesc(name, desc string) efivar.Efivar {
	v := storeVar(name)
	switch desc {
	case "own":
		return efivar.Efivar{Name: string(append([]byte{}, v.Name...)), GUID: util.StringToGUID(canonGUIDText(*v.GUID)), Attributes: v.Attributes}
	case "copy":
		g := *v.GUID
		w := v
		w.GUID = &g
		return w
	}
	return v
}

var ordGUID = util.EFIGUID{Data1: 0x11223344, Data2: 0x5566, Data3: 0x7788, Data4: [8]byte{1, 2, 3, 4, 5, 6, 7, 8}}

// the variables the histories name as they are defined
func isBaseStoreVar(name string) bool {
	_, wk := wellKnownVars[name]
	return wk || isSecureBootVar(name) || name == "OrdA" || name == "OrdB" || name == "Ord0"
}

// caseVariantOf returns the definition of which name is a case variant: a name that differs from the name of one of the
// variables above only in the case of its letters (DB, Db, pk, ORDA, setupMode, ...).  UEFI variable names are case
// sensitive: such a name is ANOTHER variable under the same vendor GUID (with the same attributes), an ordinary one
// as far as the store is concerned.
func caseVariantOf(name string) (efivar.Efivar, bool) {
	for _, b := range append([]string{"PK", "KEK", "db", "dbx", "OrdA", "OrdB", "Ord0"}, wellKnownNames()...) {
		if b != name && strings.EqualFold(b, name) {
			v := storeVar(b)
			g := *v.GUID
			return efivar.Efivar{Name: name, GUID: &g, Attributes: v.Attributes}, true
		}
	}
	return efivar.Efivar{}, false
}

// the case variants of a variable name used by the generator
func caseVariants(name string) []string {
	var out []string
	for _, n := range []string{strings.ToUpper(name), strings.ToLower(name), strings.ToUpper(name[:1]) + name[1:], strings.ToLower(name[:1]) + name[1:], name[:len(name)-1] + strings.ToUpper(name[len(name)-1:]), name[:len(name)-1] + strings.ToLower(name[len(name)-1:])} {
		dup := n == name
		for _, o := range out {
			dup = dup || o == n
		}
		if !dup {
			out = append(out, n)
		}
	}
	return out
}

// passMarsh is a caller's own Marshallable around another one
type passMarsh struct{ inner efivar.Marshallable }

func (p passMarsh) Marshal(b *bytes.Buffer) { p.inner.Marshal(b) }
func (p passMarsh) Bytes() []byte           { return p.inner.Bytes() }

func storeVar(name string) efivar.Efivar {
	if !isBaseStoreVar(name) {
		if v, ok := caseVariantOf(name); ok {
			return v
		}
	}
	switch name {
	case "PK":
		return efivar.PK
	case "KEK":
		return efivar.KEK
	case "db":
		return efivar.Db
	case "dbx":
		return efivar.Dbx
	}
	if v, ok := wellKnownVars[name]; ok {
		return v
	}
	g := ordGUID
	if name == "Ord0" { // an ordinary variable declared without attributes (the zero value of Efivar.Attributes)
		return efivar.Efivar{Name: name, GUID: &g}
	}
	return efivar.Efivar{Name: name, GUID: &g, Attributes: attributes.EFI_VARIABLE_NON_VOLATILE | attributes.EFI_VARIABLE_BOOTSERVICE_ACCESS | attributes.EFI_VARIABLE_RUNTIME_ACCESS}
}

func isSecureBootVar(n string) bool { return n == "PK" || n == "KEK" || n == "db" || n == "dbx" }

func storeRead(fs *efivarfs.Efivarfs, name, desc string) string {
	if isSecureBootVar(name) && desc != "" {
		// read through the caller's own description of the variable, decoded as a signature database
		db := signature.NewSignatureDatabase()
		if err := fs.GetVar(storeVarDesc(name, desc), db); err != nil {
			var pv probeValue
			if rerr := fs.GetVar(storeVarDesc(name, desc), &pv); rerr == nil {
				return "raw " + hx(pv.got)
			}
			return "err"
		}
		return "ok " + hx(db.Bytes())
	}
	if isSecureBootVar(name) {
		var db *signature.SignatureDatabase
		var err error
		switch name {
		case "PK":
			db, err = fs.GetPK()
		case "KEK":
			db, err = fs.GetKEK()
		case "db":
			db, err = fs.Getdb()
		case "dbx":
			db, err = fs.Getdbx()
		}
		if err != nil {
			// the typed getter cannot decode the stored value (a list type the decoder does not handle): the bytes
			// themselves are still the variable's value
			var pv probeValue
			if rerr := fs.GetVar(storeVar(name), &pv); rerr == nil {
				return "raw " + hx(pv.got)
			}
			return "err"
		}
		return "ok " + hx(db.Bytes())
	}
	var pv probeValue
	if err := fs.GetVar(storeVarDesc(name, desc), &pv); err != nil {
		return "err"
	}
	if name == "SetupMode" || name == "SecureBoot" {
		// the typed getter reads the same register: true iff the value's first byte is 1, an error for the empty value
		get := fs.GetSetupMode
		if name == "SecureBoot" {
			get = fs.GetSecureBoot
		}
		b, err := get()
		if (err != nil) != (len(pv.got) == 0) || (err == nil && b != (pv.got[0] == 1)) {
			return fmt.Sprintf("typed-getter-disagrees: Get%s() = %v, %v while the variable holds %s", name, b, err, hx(pv.got))
		}
	}
	return "ok " + hx(pv.got)
}

func init() {
	workerOps["store.history"] = func(a map[string]string) (string, string) {
		var ops []storeOp
		json.Unmarshal([]byte(a["ops"]), &ops)
		var pre map[string]string
		json.Unmarshal([]byte(a["pre"]), &pre)
		t := testfs.NewTestFS()
		files := fstest.MapFS{}
		for name, val := range pre {
			v := storeVar(name)
			files["/sys/firmware/efi/efivars/"+name+"-"+canonGUIDText(*v.GUID)] = &fstest.MapFile{Data: append(v.Attributes.Bytes(), unhx(val)...)}
		}
		fs := t.With(files).Open()
		if a["direct"] == "1" && len(pre) == 0 {
			// the store handed to efivarfs.Open directly (TestFS implements efivarfs.EFIVars), without TestFS.Open()
			fs = efivarfs.Open(testfs.NewTestFS())
		}
		var out []string
		// held results: beside the read that is compared at once, every read operation reads the variable once more
		// through the same store with an Unmarshallable that keeps the bytes it is handed (holdValue, no copy). What it
		// holds is reported as it was when the read returned, and looked at again after every later operation.
		type heldRead struct {
			op   int
			snap []byte
			hv   *holdValue
		}
		var helds []heldRead
		var heldOut []string
		changed := ""
		prepared := map[string]efivar.Marshallable{} // per variable: the signed update the caller made itself and kept
		// every successful WriteVar whose value object the caller holds: the variable's name, what the value object
		// marshals to, and what the store then holds for the variable, read back raw (for the tie with the translated
		// TestFS.WriteVar: gen.testfs.stored)
		var writes []string
		wrote := func(i int, v efivar.Efivar, m efivar.Marshallable, err error) {
			if err != nil {
				return
			}
			var mb bytes.Buffer
			m.Marshal(&mb)
			stored := "unreadable"
			var pv probeValue
			if rerr := fs.GetVar(v, &pv); rerr == nil && pv.called {
				stored = hx(pv.got)
			}
			writes = append(writes, fmt.Sprintf("%d:%s:%s:%s", i, hx([]byte(v.Name)), hx(mb.Bytes()), stored))
		}
		for i, op := range ops {
			v := storeVarDesc(op.Var, op.Desc)
			switch op.K {
			case "W":
				var err error
				if db, derr := signature.ReadSignatureDatabase(bytes.NewReader(unhx(op.Value))); isSecureBootVar(op.Var) && derr == nil {
					err = fs.WriteVar(v, &db)
					wrote(i, v, &db, err)
				} else {
					err = fs.WriteVar(v, rawValue(unhx(op.Value)))
					wrote(i, v, rawValue(unhx(op.Value)), err)
				}
				out = append(out, errCls(err))
			case "S":
				key := poolKeyDir(a["verif"], 2048, op.Key)
				cert := makeRSACert(key, certShapes(nil)[0])
				var m efivar.Marshallable = rawValue(unhx(op.Value))
				if db, derr := signature.ReadSignatureDatabase(bytes.NewReader(unhx(op.Value))); isSecureBootVar(op.Var) && derr == nil {
					m = &db
				}
				if op.How != "" {
					_, sm, err := signature.SignEFIVariable(v, m, key, cert)
					if err != nil {
						out = append(out, "sign-"+errCls(err))
						break
					}
					switch op.How {
					case "bytes": // the serialised update (what an .auth file holds), not the object that was built
						sm = rawValue(append([]byte{}, sm.Bytes()...))
					case "wrapped": // the object inside a Marshallable of the caller's own
						sm = passMarsh{sm}
					}
					for k := 0; k < op.Prep; k++ {
						var b bytes.Buffer
						sm.Marshal(&b)
						_ = sm.Bytes()
					}
					prepared[op.Var] = sm
					werr := fs.WriteVar(v, sm)
					wrote(i, v, sm, werr)
					out = append(out, errCls(werr))
					break
				}
				out = append(out, errCls(fs.WriteSignedUpdate(v, m, key, cert)))
			case "A":
				if sm, ok := prepared[op.Var]; ok {
					werr := fs.WriteVar(v, sm)
					wrote(i, v, sm, werr)
					out = append(out, errCls(werr))
				} else {
					out = append(out, "skip")
				}
			case "P":
				v2 := storeVar(op.Var2)
				mB := rawValue(unhx(op.Value2))
				reached, resume, done := make(chan struct{}), make(chan struct{}, 64), make(chan struct{})
				var errB error
				nB := 0
				go func() {
					defer close(done)
					for range reached {
						// the other caller: one complete write of the other variable through the same store
						if e := fs.WriteVar(v2, mB); e != nil && errB == nil {
							errB = e
						}
						nB++
						resume <- struct{}{}
					}
				}()
				serialised := false
				mA := &parkValue{b: unhx(op.Value), at: op.Prep}
				mA.park = func() {
					if serialised {
						return
					}
					reached <- struct{}{}
					select {
					case <-resume:
					case <-time.After(3 * time.Second):
						// a store that lets one write in at a time has made the other caller wait: the two calls then
						// simply run one after the other
						serialised = true
					}
				}
				errA := fs.WriteVar(v, mA)
				close(reached)
				<-done
				if nB == 0 {
					// the store never asked the value object for its bytes: the other write is still made
					errB = fs.WriteVar(v2, mB)
				}
				wrote(i, v2, mB, errB)
				wrote(i, v, rawValue(unhx(op.Value)), errA)
				if errA == nil && errB == nil {
					out = append(out, "ok")
				} else {
					out = append(out, fmt.Sprintf("overlapped:%s+%s", errCls(errA), errCls(errB)))
				}
			case "G":
				out = append(out, storeRead(fs, op.Var, op.Desc))
				hv := &holdValue{}
				if err := fs.GetVar(v, hv); err == nil && hv.called {
					helds = append(helds, heldRead{i, append([]byte{}, hv.got...), hv})
					heldOut = append(heldOut, fmt.Sprintf("%d:%s", i, hx(hv.got)))
				}
			}
			for _, h := range helds {
				if changed == "" && !bytes.Equal(h.hv.got, h.snap) {
					changed = fmt.Sprintf("%d %d %s %s", h.op, i, hx(h.snap), hx(h.hv.got))
				}
			}
		}
		return "ok", strings.Join(out, "/") + "#held " + strings.Join(heldOut, ",") + "#changed " + changed + "#writes " + strings.Join(writes, ",")
	}
}

var c12Worker *Worker

func c12Eval(c *Ctx, cs Case) {
	if c12Worker == nil {
		c12Worker = c.NewWorker(3 << 20)
	}
	opsJ, _ := json.Marshal(cs["ops"])
	preJ, _ := json.Marshal(cs["pre"])
	var ops []storeOp
	json.Unmarshal(opsJ, &ops)
	var pre map[string]string
	json.Unmarshal(preJ, &pre)
	res := c12Worker.Do("store.history", map[string]string{"ops": string(opsJ), "pre": string(preJ), "verif": c.VerifDir, "direct": fmt.Sprint(cs.I("direct"))}, 30*time.Second)
	c.Count(cs.Key(), len(ops) >= 2, fmt.Sprintf("store/len%d/%s", (len(ops)+3)/4*4, res.Class))
	if len(ops) <= 5 {
		c.Sample(cs)
	}
	fail := func(what, goObs, spec, matcher string) {
		c.Fail(Failure{Kind: "property", Matcher: matcher, What: what, Case: cs, Go: clip(goObs), Spec: clip(spec)})
	}
	if res.Class != "ok" {
		fail("the history ended the worker: "+res.Class, res.Out+res.Panic, "every operation returns", "c12."+res.Class)
		return
	}
	// the worker's answer: the results of the operations, then the held results (op:value as it was when the read
	// returned) and the first held value that changed afterwards
	resOut, heldPart, changedPart, writesPart := res.Out, "", "", ""
	if i := strings.Index(resOut, "#held "); i >= 0 {
		resOut, heldPart = resOut[:i], resOut[i+len("#held "):]
		if j := strings.Index(heldPart, "#changed "); j >= 0 {
			heldPart, changedPart = heldPart[:j], heldPart[j+len("#changed "):]
			if k := strings.Index(changedPart, "#writes "); k >= 0 {
				changedPart, writesPart = changedPart[:k], changedPart[k+len("#writes "):]
			}
		}
	}
	heldAt := map[int]string{}
	for _, h := range strings.Split(heldPart, ",") {
		if f := strings.SplitN(h, ":", 2); len(f) == 2 {
			heldAt[atoi(f[0])] = f[1]
		}
	}
	outs := strings.Split(resOut, "/")
	// register oracle
	last := map[string]string{}
	for k, v := range pre {
		last[k] = v
	}
	var want []string
	preparedVal := map[string]string{} // per variable: the payload of the signed update the caller kept
	// ordinary variables written as signed updates: nothing is removed, the value of the write is the signed update itself
	// (authentication descriptor || payload).  Its bytes differ from call to call (timestamp, signature); a read must
	// return a descriptor by extent (16-byte timestamp, WIN_CERTIFICATE delimited by its dwLength) followed by exactly
	// the payload.  wroteAt[var] is the index of that write, blobOf[index] what the reads after it returned.
	wroteAt := map[string]int{}
	blobOf := map[int]string{}
	// variables whose most recent write was one of two overlapping writes (operation P): which operation, and how it
	// overlapped (for the report)
	overlapAt := map[string]string{}
	for i, op := range ops {
		if i >= len(outs) {
			break
		}
		if op.K == "P" {
			// two writes through one store that overlap in time, to two variables: each variable holds the value of the
			// write that was made to it, as if each call had run alone
			want = append(want, "ok")
			if outs[i] != "ok" {
				fail(fmt.Sprintf("op %d: WriteVar(%s) overlapping with a complete WriteVar(%s) through the same store: a write to the in-memory store failed", i, op.Var, op.Var2), outs[i], "ok", "")
				continue
			}
			how := fmt.Sprintf("op %d, where WriteVar(%s) was parked %s while another goroutine ran a complete WriteVar(%s) through the same store", i, op.Var,
				map[int]string{0: "in its value object's Marshal after the bytes were written", 1: "in its value object's Marshal before the bytes were written", 2: "in its value object's Marshal half way through the bytes"}[op.Prep], op.Var2)
			last[op.Var2], last[op.Var] = op.Value2, op.Value
			delete(wroteAt, op.Var2)
			delete(wroteAt, op.Var)
			overlapAt[op.Var2], overlapAt[op.Var] = how, how
			continue
		}
		if op.K == "A" {
			// the kept signed update written again: a write of that payload
			pv, ok := preparedVal[op.Var]
			if !ok {
				want = append(want, "skip")
				continue
			}
			op.K, op.Value = "S", pv
		} else if op.K == "S" && op.How != "" {
			preparedVal[op.Var] = op.Value
		}
		switch op.K {
		case "W", "S":
			want = append(want, "ok")
			if outs[i] == "ok" {
				last[op.Var] = op.Value
				delete(wroteAt, op.Var)
				delete(overlapAt, op.Var)
				if op.K == "S" && !isSecureBootVar(op.Var) {
					wroteAt[op.Var] = i
				}
			} else if outs[i] != "bad-value" {
				fail(fmt.Sprintf("op %d (%s %s): a write to the in-memory store failed", i, op.K, op.Var), outs[i], "ok", "")
			}
		case "G":
			v, written := last[op.Var]
			if !written {
				want = append(want, "err")
				if outs[i] != "err" {
					// a variable that was never written does not exist
					fail(fmt.Sprintf("op %d: reading a variable that was never written succeeded", i), outs[i], "err", "")
				}
				continue
			}
			if at, signedOrd := wroteAt[op.Var]; signedOrd {
				got := unhx(strings.TrimPrefix(outs[i], "ok "))
				okExtent := strings.HasPrefix(outs[i], "ok ") && len(got) >= 40
				if okExtent {
					dw := int(binary.LittleEndian.Uint32(got[16:]))
					okExtent = dw >= 24 && 16+dw <= len(got) && bytes.Equal(got[16+dw:], unhx(v))
				}
				if prev, seen := blobOf[at]; okExtent && seen && prev != hx(got) {
					okExtent = false // two reads after one write differ
				}
				want = append(want, "ok <descriptor> "+v)
				if !okExtent {
					fail(fmt.Sprintf("op %d: reading the ordinary variable %s after a signed update does not return the signed update (authentication descriptor followed by the payload) written by op %d", i, op.Var, at), outs[i], "ok <descriptor> "+v, "")
					continue
				}
				blobOf[at] = hx(got)
				if h, has := heldAt[i]; !has || hx(unhx(h)) != hx(got) {
					fail(fmt.Sprintf("op %d: reading %s with an Unmarshallable that keeps the bytes it is handed does not return the value of the most recent write", i, op.Var), h, hx(got), "")
				}
				continue
			}
			w := "ok " + v
			if _, derr := signature.ReadSignatureDatabase(bytes.NewReader(unhx(v))); isSecureBootVar(op.Var) && derr != nil {
				w = "raw " + v // a database of list types the decoder does not handle: compared as bytes
			}
			want = append(want, w)
			if h, has := heldAt[i]; !has || hx(unhx(h)) != hx(unhx(v)) {
				fail(fmt.Sprintf("op %d: reading %s with an Unmarshallable that keeps the bytes it is handed does not return the value of the most recent write", i, op.Var), h, v, "")
			}
			if outs[i] != w {
				m := ""
				if isSecureBootVar(op.Var) || true {
					m = "c12.stale_tail"
				}
				what := fmt.Sprintf("op %d: reading %s does not return the value of the most recent write", i, op.Var)
				if how, ov := overlapAt[op.Var]; ov {
					what += " (made by " + how + "; each of two overlapping writes to different variables must store what it stores alone)"
					m = ""
				}
				fail(what, outs[i], w, m)
			}
		}
	}
	if changedPart != "" {
		f := strings.Fields(changedPart)
		if len(f) == 4 {
			fail(fmt.Sprintf("the value returned by the read at op %s changed when op %s ran: a read returns the value of the most recent write before it, whatever is read or written afterwards", f[0], f[1]), "now "+f[3], "still "+f[2], "")
		}
	}
	// the store's writes against the TRANSLATED TestFS.WriteVar (Gen.lean, C12g): for the variable's name and the
	// bytes the value object marshals to, the translated function — with EFIFS.WriteVar replaced by "marshal what you
	// are handed" — says which bytes reach the variable's file; the real store must hold exactly those
	for _, w := range strings.Split(writesPart, ",") {
		if f := strings.Split(w, ":"); len(f) == 4 {
			c.GenTieGo(cs, fmt.Sprintf("op %s: TestFS.WriteVar(%s, value marshalling to %s) — what the store holds afterwards, read back raw", f[0], string(unhx(f[1])), clip(f[2])), "ok "+f[3], "gen.testfs.stored", f[1], f[2])
		}
	}
	// correspondence with the Lean store model
	c.Trace()
	enc := []string{}
	modelPrepared := map[string]string{}
	var tieOuts []string
	for i, op := range ops {
		if op.K == "A" {
			// for the model a kept update written again is a signed write of its payload; one that does not exist is no operation
			pv, ok := modelPrepared[op.Var]
			if !ok {
				continue
			}
			op.K, op.Value = "S", pv
		} else if op.K == "S" && op.How != "" {
			modelPrepared[op.Var] = op.Value
		}
		if i < len(outs) {
			tieOuts = append(tieOuts, outs[i])
		}
		if op.K == "P" {
			// for the model two overlapping writes to two variables are the two writes, in either order
			if i < len(outs) {
				tieOuts = append(tieOuts, outs[i])
			}
			for _, w := range [][2]string{{op.Var2, op.Value2}, {op.Var, op.Value}} {
				if w[1] == "" {
					w[1] = "-"
				}
				enc = append(enc, "W,"+w[0]+","+w[1])
			}
			continue
		}
		if op.K == "S" && !isSecureBootVar(op.Var) {
			// for the model, a signed update of an ordinary variable is a plain write of the signed update's bytes (as
			// the reads after it gave them; the payload when nothing read it)
			op.K = "W"
			if b, seen := blobOf[i]; seen {
				op.Value = b
			}
		}
		v := op.Value
		if v == "" {
			v = "-"
		}
		enc = append(enc, op.K+","+op.Var+","+v)
	}
	resOut = strings.Join(tieOuts, "/")
	pres := []string{}
	for k, v := range pre {
		if v == "" {
			v = "-"
		}
		pres = append(pres, k+","+v)
	}
	ps := "-"
	if len(pres) > 0 {
		ps = strings.Join(pres, ";")
	}
	if len(enc) == 0 {
		return
	}
	m := c.Drv.Ask("store.history", ps, strings.Join(enc, ";"))
	if m != resOut {
		c.Fail(Failure{Kind: "tie", What: "store history: results differ from the Lean store model", Case: cs, Model: clip(m), Go: clip(resOut)})
	}
}

func c12Gen(c *Ctx) {
	defer func() {
		if c12Worker != nil {
			c12Worker.Close()
			c12Worker = nil
		}
	}()
	u := newC09Universe(c)
	dbs := []string{
		"-", // empty database
		hx(encodeList(tSHA256, nil, 48, [][2][]byte{{u.owners[0], u.data[0]}})),
		hx(encodeList(tSHA256, nil, 48, [][2][]byte{{u.owners[0], u.data[0]}, {u.owners[1], u.data[1]}})),
		hx(append(encodeList(tX509, nil, len(u.data[4])+16, [][2][]byte{{u.owners[0], u.data[4]}}), encodeList(tSHA256, nil, 48, [][2][]byte{{u.owners[1], u.data[1]}})...)),
		hx(encodeList(tX509, nil, len(u.data[7])+16, [][2][]byte{{u.owners[0], u.data[7]}})),
		// well-formed databases with list types that SignatureDatabase.Append builds but the decoder does not handle
		// (SHA-1: 20-byte hashes; SHA-384: 48-byte hashes), alone and behind a SHA-256 list
		hx(encodeList(tSHA1, nil, 36, [][2][]byte{{u.owners[0], u.data[0][:20]}})),
		hx(append(encodeList(tSHA256, nil, 48, [][2][]byte{{u.owners[0], u.data[0]}}), encodeList(tSHA384, nil, 64, [][2][]byte{{u.owners[1], append(append([]byte{}, u.data[1]...), u.data[0][:16]...)}})...)),
	}
	raws := []string{"-", "01", hx(randBytes(c, 3)), hx(randBytes(c, 40)), hx(randBytes(c, 300))}
	// values that repeat in LENGTH but not in content: for every non-empty value above a second value of exactly the same
	// length (the same lists with the entries' owners and hashes exchanged; raw bytes complemented)
	sibling := map[string]string{}
	pair := func(a, b string) {
		if a != b && len(a) == len(b) {
			sibling[a], sibling[b] = b, a
		}
	}
	dbSibs := []string{
		"-",
		hx(encodeList(tSHA256, nil, 48, [][2][]byte{{u.owners[1], u.data[1]}})),
		hx(encodeList(tSHA256, nil, 48, [][2][]byte{{u.owners[1], u.data[1]}, {u.owners[0], u.data[0]}})),
		hx(append(encodeList(tX509, nil, len(u.data[4])+16, [][2][]byte{{u.owners[1], u.data[4]}}), encodeList(tSHA256, nil, 48, [][2][]byte{{u.owners[0], u.data[0]}})...)),
		hx(encodeList(tX509, nil, len(u.data[7])+16, [][2][]byte{{u.owners[1], u.data[7]}})),
		hx(encodeList(tSHA1, nil, 36, [][2][]byte{{u.owners[1], u.data[1][:20]}})),
		hx(append(encodeList(tSHA256, nil, 48, [][2][]byte{{u.owners[1], u.data[1]}}), encodeList(tSHA384, nil, 64, [][2][]byte{{u.owners[0], append(append([]byte{}, u.data[0]...), u.data[1][:16]...)}})...)),
	}
	for k := range dbs {
		pair(dbs[k], dbSibs[k])
	}
	for _, r := range raws {
		b := unhx(r)
		for k := range b {
			b[k] = ^b[k]
		}
		pair(r, hx(b))
	}
	c.Note("values_with_a_same_length_sibling", len(sibling)/2)
	vars := []string{"PK", "KEK", "db", "dbx", "OrdA", "OrdB", "Ord0"}
	// the other package-level definitions of efivar (SetupMode, SecureBoot, the *Default databases, BootOrder, Loader*,
	// ...): for the store they are registers like any other variable.  Their values: the raw values, and the one-byte
	// values 0 / 1 the mode variables hold on hardware
	wk := wellKnownNames()
	wkVals := append([]string{"00", "01"}, raws...)
	pair("00", "01")
	nSame, nPrepared, nAgain, nOrdSigned, nWellKnown, nOverlap, nSweep, nTwin, nSerialised := 0, 0, 0, 0, 0, 0, 0, 0, 0
	defer func() {
		c.Note("operations_generated", fmt.Sprintf("read/same-length-write/read triples %d; signed updates made by the caller itself and kept %d; kept updates written again %d; signed updates of ordinary variables %d; operations on the other well-known variables (%d definitions) %d; pairs of overlapping writes through one store %d; histories that end with a read of every variable %d; histories with two variables whose names differ in case only %d; signed updates handed to WriteVar as serialised bytes or inside the caller's own Marshallable %d", nSame, nPrepared, nAgain, nOrdSigned, len(wk), nWellKnown, nOverlap, nSweep, nTwin, nSerialised))
	}()
	for i := 0; i < c.N(150, 10000) && c.NFailures() < 6; i++ {
		n := 2 + c.Rng.Intn(c.P(9, 29))
		var ops []interface{}
		pre := map[string]interface{}{}
		if c.Rng.Intn(3) == 0 {
			pre["db"] = dbs[1+c.Rng.Intn(len(dbs)-1)]
			if c.Rng.Intn(2) == 0 {
				pre["OrdA"] = raws[c.Rng.Intn(len(raws))]
			}
		}
		// the well-known variables this history also uses: SetupMode or SecureBoot and one other definition; in one
		// history out of three a store pre-populated with one of them (as With(efitest.SetUpModeOn()) does)
		histWk := []string{[]string{"SetupMode", "SecureBoot"}[c.Rng.Intn(2)], wk[c.Rng.Intn(len(wk))]}
		if c.Rng.Intn(3) == 0 {
			pre[histWk[c.Rng.Intn(2)]] = wkVals[c.Rng.Intn(len(wkVals))]
		}
		universe := append(append([]string{}, vars...), "SetupMode", "SecureBoot")
		if histWk[1] != "SetupMode" && histWk[1] != "SecureBoot" {
			universe = append(universe, histWk[1])
		}
		valOf := func(v string) string {
			if b, ok := caseVariantOf(v); ok && !isBaseStoreVar(v) {
				// a case variant holds values of the kind its sibling holds
				for _, bn := range append([]string{"PK", "KEK", "db", "dbx", "OrdA", "OrdB", "Ord0"}, wk...) {
					if strings.EqualFold(bn, b.Name) {
						v = bn
					}
				}
			}
			if isSecureBootVar(v) {
				return dbs[c.Rng.Intn(len(dbs))]
			}
			if _, ok := wellKnownVars[v]; ok {
				return wkVals[c.Rng.Intn(len(wkVals))]
			}
			return raws[c.Rng.Intn(len(raws))]
		}
		// variable names are case sensitive: every second history also has a CASE VARIANT of one of its variables (DB / Db
		// beside db, pk beside PK, ORDA beside OrdA, setupMode beside SetupMode, ...) under the same vendor GUID - another
		// variable, a register of its own.  One of the two is there first (in the pre-populated store, or written by the
		// first operation), then the other is written for the first time and both are read; later operations use both.
		twinBase, twin := "", ""
		var ops0 []interface{}
		if i%2 == 0 {
			cands := append(append([]string{}, vars...), histWk...)
			twinBase = cands[c.Rng.Intn(len(cands))]
			cv := caseVariants(twinBase)
			twin = cv[c.Rng.Intn(len(cv))]
			universe = append(universe, twin)
			first, second := twinBase, twin
			if c.Rng.Intn(2) == 0 {
				first, second = twin, twinBase
			}
			switch c.Rng.Intn(3) {
			case 0: // present in the store the history starts from
				pre[first] = valOf(first)
				ops0 = append(ops0, map[string]interface{}{"k": "W", "var": second, "value": valOf(second)}, map[string]interface{}{"k": "G", "var": first}, map[string]interface{}{"k": "G", "var": second})
			case 1: // written by the first operation
				ops0 = append(ops0, map[string]interface{}{"k": "W", "var": first, "value": valOf(first)}, map[string]interface{}{"k": "W", "var": second, "value": valOf(second)}, map[string]interface{}{"k": "G", "var": first}, map[string]interface{}{"k": "G", "var": second})
			}
			nTwin++
		}
		lastVal := map[string]string{} // what the generator last wrote to each variable
		for k, v := range pre {
			lastVal[k] = v.(string)
		}
		for _, o := range ops0 {
			if m := o.(map[string]interface{}); m["k"] == "W" {
				lastVal[m["var"].(string)] = m["value"].(string)
			}
		}
		ops = append(ops, ops0...)
		kept := map[string]bool{} // variables for which the caller keeps a signed update it made itself
		for j := 0; j < n; j++ {
			v := vars[c.Rng.Intn(len(vars))]
			if i%5 == 4 { // every fifth history stays on the ordinary variables
				v = []string{"Ord0", "OrdA", "Ord0", "OrdB"}[c.Rng.Intn(4)]
			} else if c.Rng.Intn(3) != 0 && j > 0 { // stay on few variables so that shrink/grow sequences happen
				v = vars[c.Rng.Intn(2)*2+c.Rng.Intn(2)]
				if c.Rng.Intn(2) == 0 {
					v = "db"
				}
			}
			// one operation in four (of the histories that do not stay on the ordinary variables) is on one of the
			// history's well-known variables: written and read around the writes of PK / KEK / db / dbx
			if i%5 != 4 && c.Rng.Intn(4) == 0 {
				v = histWk[c.Rng.Intn(2)]
				nWellKnown++
			}
			// in a history with a case variant one operation in five is on the variant or on its sibling
			if twin != "" && c.Rng.Intn(5) == 0 {
				v = []string{twin, twinBase}[c.Rng.Intn(2)]
			}
			val := valOf(v)
			// one time in four the new value is a different value of exactly the length of the one the variable holds, and
			// the variable is read before and after the write
			sameLen := false
			if sib, ok := sibling[lastVal[v]]; ok && c.Rng.Intn(4) == 0 {
				val, sameLen = sib, true
			}
			var op map[string]interface{}
			switch k := c.Rng.Intn(10); {
			case k < 4:
				op = map[string]interface{}{"k": "W", "var": v, "value": val}
			case k < 5 && !c.Thorough && i%4 != 0:
				op = map[string]interface{}{"k": "G", "var": v}
			case k < 6 && (isSecureBootVar(v) || c.Rng.Intn(3) == 0): // signed updates: of secure-boot variables (stored without the descriptor) and, less often, of ordinary ones (stored as they are)
				op = map[string]interface{}{"k": "S", "var": v, "value": val, "key": 0}
				// every second one is made by the caller itself (signature.SignEFIVariable), looked at 0..2 times and then
				// handed to WriteVar; the caller keeps it
				// three in five are made by the caller itself (signature.SignEFIVariable) and then handed to WriteVar: as the
				// object that was returned, looked at 0..2 times first; as the serialised bytes of that object in a plain
				// byte-slice Marshallable (the content of an .auth file); inside a Marshallable of the caller's own.  The
				// caller keeps what it handed over
				if h := c.Rng.Intn(5); h >= 2 {
					op["how"], op["prep"] = []string{"prepared", "bytes", "wrapped"}[h-2], c.Rng.Intn(3)
					kept[v] = true
					nPrepared++
					if h > 2 {
						nSerialised++
					}
				}
				if !isSecureBootVar(v) {
					nOrdSigned++
				}
			case k < 7 && kept[v]: // the kept signed update of this variable is written again
				op = map[string]interface{}{"k": "A", "var": v}
				nAgain++
			case k < 8 && i%2 == 1:
				// two callers use the one store at once: this write's value object parks in Marshal (after / before / half
				// way through its bytes) until another goroutine has run a complete write of ANOTHER variable of the
				// history through the same store; both variables are read afterwards
				v2 := universe[c.Rng.Intn(len(universe))]
				for v2 == v {
					v2 = universe[c.Rng.Intn(len(universe))]
				}
				val2 := valOf(v2)
				op = map[string]interface{}{"k": "P", "var": v, "value": val, "var2": v2, "value2": val2}
				if at := c.Rng.Intn(3); at != 0 {
					op["prep"] = at
				}
				lastVal[v], lastVal[v2] = val, val2
				nOverlap++
			default:
				op = map[string]interface{}{"k": "G", "var": v}
			}
			if op["k"] == "W" || op["k"] == "S" {
				lastVal[v] = val
				if sameLen {
					ops = append(ops, map[string]interface{}{"k": "G", "var": v})
					nSame++
				}
			}
			if op["k"] == "A" {
				delete(lastVal, v) // the generator does not track what the kept update holds
			}
			// a variable is its name and vendor GUID: in two histories out of three some operations describe the
			// variable with an Efivar value the caller built (equal name, GUID, attributes) instead of the
			// package-level definition
			if i%3 != 0 {
				if d := []string{"", "", "own", "own", "copy"}[c.Rng.Intn(5)]; d != "" {
					op["desc"] = d
				}
			}
			ops = append(ops, op)
			if sameLen && (op["k"] == "W" || op["k"] == "S") {
				ops = append(ops, map[string]interface{}{"k": "G", "var": v})
			}
			if op["k"] == "P" {
				ops = append(ops, map[string]interface{}{"k": "G", "var": v}, map[string]interface{}{"k": "G", "var": op["var2"]})
			}
			if twin != "" && (v == twin || v == twinBase) && (op["k"] == "W" || op["k"] == "S") {
				// a write to one of two names that differ in case only: both are read
				ops = append(ops, map[string]interface{}{"k": "G", "var": twinBase}, map[string]interface{}{"k": "G", "var": twin})
			}
			if op["how"] != nil && c.Rng.Intn(2) == 0 {
				// ... and applies it again after another value was written in between (or at once): the variable then holds
				// the update's payload again
				if c.Rng.Intn(3) != 0 {
					other := raws[c.Rng.Intn(len(raws))]
					if isSecureBootVar(v) {
						other = dbs[c.Rng.Intn(len(dbs))]
					}
					ops = append(ops, map[string]interface{}{"k": "W", "var": v, "value": other})
				}
				ops = append(ops, map[string]interface{}{"k": "A", "var": v}, map[string]interface{}{"k": "G", "var": v})
				nAgain++
				delete(lastVal, v)
			}
		}
		// a write to one variable changes no other: two histories out of three end with a read of every variable of the
		// history's universe (the seven above, SetupMode, SecureBoot, the history's other well-known variable), written
		// or not - a variable that was never written must still not exist
		if i%3 != 0 {
			for _, v := range universe {
				ops = append(ops, map[string]interface{}{"k": "G", "var": v})
			}
			nSweep++
		}
		cs := Case{"op": "store-history", "pre": pre, "ops": ops}
		if len(pre) == 0 && i%4 == 1 {
			cs["direct"] = int64(1) // efivarfs.Open(testfs.NewTestFS()) instead of NewTestFS().Open()
		}
		c12Eval(c, cs)
	}
	c12LargeValues(c, u)
}

// c12LargeValues: "values of any sizes".  The values of the histories above end at a few hundred bytes; a dbx is ten
// to a hundred times that.  Short histories (3..8 operations and the reads added after every write) over one ordinary
// and one secure-boot variable whose values are LARGE: raw values of 2^k-5 .. 2^k+1 bytes around k = 12, 13 and 16 (value
// and attributes + value on either side of the usual buffer sizes), some sizes in between and 70 000 bytes; databases
// of 84..86, 170..172, 200, 1365 and 1500 SHA-256 entries (4 KiB, 8 KiB, 64 KiB and beyond) - written plainly and as
// signed updates, large after small, small after large, large after a different large one of the same length, every
// write followed by a read.  The register oracle and the Lean store model judge them like every other history.
func c12LargeValues(c *Ctx, u *c09Universe) {
	sub := &Ctx{Rng: mrand.New(mrand.NewSource(c.Seed*67867967 + 31 + int64(c.Shard)*1000003)), Thorough: c.Thorough}
	rng := sub.Rng
	var rawSizes []int
	for _, k := range []uint{12, 13, 16} {
		for d := -5; d <= 1; d++ {
			rawSizes = append(rawSizes, 1<<k+d)
		}
	}
	rawSizes = append(rawSizes, 5000, 20000, 70000)
	dbCounts := []int{84, 85, 86, 170, 171, 172, 200, 1365, 1500}
	bigDb := func(n int) string {
		var sigs [][2][]byte
		for j := 0; j < n; j++ {
			sigs = append(sigs, [2][]byte{u.owners[j%2], randBytes(sub, 32)})
		}
		if n > 100 && rng.Intn(2) == 0 { // two lists
			return hx(append(encodeList(tSHA256, nil, 48, sigs[:n/2]), encodeList(tSHA256, nil, 48, sigs[n/2:])...))
		}
		return hx(encodeList(tSHA256, nil, 48, sigs))
	}
	smallRaw := []string{"-", "01", hx(randBytes(sub, 40))}
	smallDb := []string{"-", hx(encodeList(tSHA256, nil, 48, [][2][]byte{{u.owners[0], u.data[0]}}))}
	for i := 0; i < c.N(20, 600) && c.NFailures() < 6; i++ {
		ord := []string{"OrdA", "Ord0", "OrdB"}[i%3]
		sb := []string{"dbx", "db", "KEK", "PK"}[i%4]
		// sizes rotate so that the quick tier sees every class
		rawN := rawSizes[i%len(rawSizes)]
		dbN := dbCounts[i%len(dbCounts)]
		if c.Quick() && (rawN > 66000 || dbN > 1400) && i%2 == 1 {
			rawN, dbN = rawSizes[(i*7)%len(rawSizes)], dbCounts[(i*5)%len(dbCounts)%7]
		}
		var ops []interface{}
		w := func(v, val string) {
			ops = append(ops, map[string]interface{}{"k": "W", "var": v, "value": val}, map[string]interface{}{"k": "G", "var": v})
		}
		sgn := func(v, val string) {
			op := map[string]interface{}{"k": "S", "var": v, "value": val, "key": 0}
			if rng.Intn(3) == 0 {
				op["how"], op["prep"] = []string{"prepared", "bytes", "wrapped"}[rng.Intn(3)], rng.Intn(3)
			}
			ops = append(ops, op, map[string]interface{}{"k": "G", "var": v})
		}
		pre := map[string]interface{}{}
		bigRaw, bigD := hx(randBytes(sub, rawN)), bigDb(dbN)
		switch i % 5 {
		case 0: // large into an empty store
			w(ord, bigRaw)
			w(sb, bigD)
		case 1: // small, then large, then small again
			w(ord, smallRaw[rng.Intn(len(smallRaw))])
			w(ord, bigRaw)
			w(sb, smallDb[rng.Intn(len(smallDb))])
			w(sb, bigD)
			w(ord, smallRaw[rng.Intn(len(smallRaw))])
		case 2: // large, then another large value of the same length
			w(ord, bigRaw)
			w(ord, hx(randBytes(sub, rawN)))
			w(sb, bigD)
			w(sb, bigDb(dbN))
		case 3: // signed updates with a large payload
			sgn(sb, bigD)
			w(ord, bigRaw)
			sgn(sb, smallDb[rng.Intn(len(smallDb))])
			if rng.Intn(2) == 0 {
				sgn(ord, bigRaw)
			}
		default: // a pre-populated store, growing in steps
			pre[sb] = smallDb[1]
			w(sb, bigDb(dbCounts[rng.Intn(3)]))
			w(sb, bigD)
			w(ord, hx(randBytes(sub, rawSizes[rng.Intn(len(rawSizes)-1)])))
			w(ord, bigRaw)
		}
		ops = append(ops, map[string]interface{}{"k": "G", "var": ord}, map[string]interface{}{"k": "G", "var": sb})
		c12Eval(c, Case{"op": "store-history", "class": "large-values", "pre": pre, "ops": ops})
	}
}

func init() {
	register("C12", &PropDef{
		Rule:   "histories of 2..10 (thorough ..30) generated operations (plus the reads added after them) over {PK, KEK, db, dbx, two ordinary variables, one ordinary variable declared with attribute mask 0, and the other well-known variables of package efivar}: plain writes, signed updates (RSA-2048) and reads, each operation describing its variable either with the package-level efivar definition or (in two histories out of three, mixed within the history) with a caller-built Efivar value of equal name, GUID (util.StringToGUID of the canonical text, or a copy of the GUID value) and attributes, reads then going through GetVar with that description; values that grow, shrink (to the empty database / empty value) and repeat (7 databases from empty to two lists with certificates and list types the decoder does not handle, 5 raw values from 0 to 300 bytes), and values that repeat in LENGTH but not in content (for every non-empty value a second one of exactly the same length; one write in four of a variable that holds such a value writes its same-length sibling and the variable is read immediately before and after: read / write of a different value of the same length / read on one store); signed updates are made either by Efivarfs.WriteSignedUpdate or (three in five) by the caller itself with signature.SignEFIVariable, whose returned value object is marshalled 0..2 times (Marshal and Bytes, as when it is saved or measured) before it is handed to WriteVar - as the object itself, as its SERIALISED BYTES in a plain byte-slice Marshallable (the content of an .auth file), or inside a Marshallable of the caller's own that passes Marshal / Bytes on (one in five each): for PK / KEK / db / dbx the store must hold the payload with the descriptor removed in all three forms - and is KEPT: in half of these histories the kept object is handed to WriteVar again (operation A), at once or after another value was written to the variable, and the variable must then hold the update's payload again; one signed update in about five goes to an ORDINARY variable, for which nothing is removed: a read must return an authentication descriptor (by extent) followed by exactly the payload, the same bytes on every read until the next write; the OTHER package-level variable definitions of efivar (SetupMode, SecureBoot, PKDefault / KEKDefault / dbDefault / dbxDefault, BootOrder / BootNext / BootCurrent, the eleven Loader* variables) are variables of the histories too: every history picks SetupMode or SecureBoot and one other definition, about one operation in four writes (plain or signed), reads or overlaps one of them around the writes of PK / KEK / db / dbx (values: the raw values and the one-byte values 0 / 1), one history in three starts from a store pre-populated with one of them, SetupMode / SecureBoot are also read through GetSetupMode / GetSecureBoot (true iff the first byte of the last value written is 1), and two histories out of three END WITH A READ OF EVERY VARIABLE of the history's universe (the seven above, SetupMode, SecureBoot, the history's other definition), written or not: a write to one variable changes no other variable and creates no other variable; OVERLAPPING WRITES (operation P, every second history): WriteVar of a variable is called with a value object whose Marshal parks - after, before or half way through writing its bytes - until another goroutine has run a complete WriteVar of ANOTHER variable of the history through the SAME store, then goes on (hand-over by channels, one goroutine runs at a time, deterministic); both variables are read afterwards and each must hold the value written to it, as when each call runs alone (for the Lean model the operation is the two writes); CASE-SENSITIVE NAMES: every second history also has a case variant of one of its variables under the same vendor GUID (DB / Db / dB beside db, pk beside PK, ORDA / ordA beside OrdA, SETUPMODE / setupMode beside SetupMode, ...; values of the kind its sibling holds) - another variable, a register of its own, ordinary as far as the store is concerned: in two thirds of these histories one of the two names is present first (in the pre-populated store, or written by the first operation), then the other is written for the first time and both are read; one later operation in five is on one of the two, every write to one of them is followed by a read of both, and the final read of every variable includes both; LARGE VALUES (20 short histories, thorough 600, over one ordinary and one secure-boot variable): raw values of 2^k-5 .. 2^k+1 bytes for k = 12, 13, 16 (the value, and attributes + value, on either side of 4 KiB / 8 KiB / 64 KiB), 5000, 20 000 and 70 000 bytes, and databases of 84..86, 170..172, 200, 1365 and 1500 SHA-256 entries in one or two lists, written plainly and as signed updates (all three hand-over forms) - into an empty store, large after small and small after large, a different value of the same large size, growing in steps from a pre-populated store - every write followed by a read, the history ending with a read of both variables: what is read is, byte for byte, what was written last, whatever its size; empty and pre-populated stores (With(...)); run in a worker process because a write may end the process on an unrepaired tree. Every read is compared with the register oracle and the Lean store model. Held results: every read operation also reads the variable through the same store with a caller-supplied Unmarshallable that keeps the bytes it is handed (no copy); the held value must be the value of the most recent write when the read returns and must still be that value after every later operation of the history (reads and writes of other variables, and of the same variable after a new write). Non-trivial: at least two operations; distinct = distinct histories.",
		Assume: []string{"variables without the APPEND_WRITE attribute (the property's register semantics)", "values of secure-boot variables are well-formed signature databases (any list type of ValidEFISignatureSchemes, including types the decoder does not handle; those are compared as bytes)"},
		Eval:   c12Eval, Gen: c12Gen,
	})
}
