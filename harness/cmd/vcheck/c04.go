package main

import (
	"bytes"
	"crypto"
	"crypto/rand"
	"crypto/rsa"
	_ "crypto/sha1"
	"crypto/sha256"
	_ "crypto/sha512"
	"crypto/x509"
	"crypto/x509/pkix"
	"encoding/binary"
	"encoding/pem"
	"fmt"
	"math/big"
	"os"
	"os/exec"
	"path/filepath"
	"strings"

	"github.com/foxboron/go-uefi/authenticode"
	"github.com/foxboron/go-uefi/efi/signature"
	"github.com/foxboron/go-uefi/pkcs7"
)

type p7Seed struct {
	name      string
	blob      []byte
	right     *x509.Certificate // the signer's certificate
	twin      *x509.Certificate // same issuer and serial, another key
	other     *x509.Certificate // unrelated
	canVerify bool              // carries signed attributes and `right` is really the signer
}

func goP7Class(blob []byte, cert *x509.Certificate) string {
	var p *pkcs7.PKCS7
	var err error
	if pan, _ := safely(func() { p, err = pkcs7.ParsePKCS7(blob) }); pan {
		return "panic"
	}
	if err != nil {
		return "parse-err"
	}
	var ok bool
	if pan, _ := safely(func() { ok, err = p.Verify(cert) }); pan {
		return "panic"
	}
	if err != nil {
		return "err"
	}
	return fmt.Sprintf("ok %v", ok)
}

// goP7ClassSeq parses once, verifies with every certificate of `warm` in turn and reports the answer for `cert`
func goP7ClassSeq(blob []byte, warm []*x509.Certificate, cert *x509.Certificate) string {
	var p *pkcs7.PKCS7
	var err error
	if pan, _ := safely(func() { p, err = pkcs7.ParsePKCS7(blob) }); pan {
		return "panic"
	}
	if err != nil {
		return "parse-err"
	}
	for _, w := range warm {
		safely(func() { p.Verify(w) })
	}
	var ok bool
	if pan, _ := safely(func() { ok, err = p.Verify(cert) }); pan {
		return "panic"
	}
	if err != nil {
		return "err"
	}
	return fmt.Sprintf("ok %v", ok)
}

// p7Eval: one (blob, certificate) pair
func p7Eval(c *Ctx, cs Case, prop string) {
	blob := unhx(cs.S("blob"))
	der := unhx(cs.S("cert"))
	cert, err := x509.ParseCertificate(der)
	if err != nil {
		return
	}
	goObs := goP7Class(blob, cert)
	c.Count(cs.Key(), true, prop+"/"+cs.S("class")+"/"+cs.S("certkind")+"/"+strings.ReplaceAll(goObs, " ", "-"))
	if len(blob) < 1400 {
		c.Sample(Case{"op": "p7", "class": cs.S("class"), "certkind": cs.S("certkind"), "blob_len": len(blob), "go": goObs})
	}
	model, spec := askVerify(c, blob, cert, nil)
	c.Trace()
	if model != goObs {
		c.Fail(Failure{Kind: "tie", What: "ParsePKCS7+Verify: model and implementation disagree", Case: cs, Model: model, Go: goObs})
	}
	if goObs == "panic" {
		c.Fail(Failure{Kind: "property", Matcher: "p7.verify_panics", What: "parsing/verification panicked", Case: cs, Go: goObs})
		return
	}
	// the same question asked of a parsed object that has already answered it for other certificates
	if pd := cs.S("prevcert"); pd != "" {
		if prev, err := x509.ParseCertificate(unhx(pd)); err == nil {
			seq := goP7ClassSeq(blob, []*x509.Certificate{prev, cert, prev}, cert)
			c.Count(cs.Key()+"|seq", true, prop+"/sequence/"+cs.S("certkind")+"/"+strings.ReplaceAll(seq, " ", "-"))
			if seq != goObs {
				c.Fail(Failure{Kind: "property", What: "Verify on one parsed object answers differently after earlier Verify calls with other certificates (the verdict is not bound to this certificate's key)", Case: cs, Go: "fresh object: " + goObs + "; same object after Verify(another certificate), Verify(this one), Verify(the other again): " + seq, Spec: "Spec.cmsVerify=" + spec})
			}
		}
	}
	// the second entry point of the statement: the same blob as the certificate data of an authenticated-variable
	// descriptor, asked through EFIVariableAuthentication2.Verify (judged by the Spec alone, not by the stand-alone answer)
	if cl := cs.S("class"); cl == "seed" || cl == "third-party" || cl == "drop-signed-attrs" || strings.HasPrefix(cl, "forge") || strings.HasPrefix(cl, "two-signers") || len(blob)%8 == 0 {
		dObs := "ok false"
		var ok bool
		var derr error
		if pan, _ := safely(func() {
			d := &signature.EFIVariableAuthentication2{AuthInfo: signature.WinCertificateUEFIGUID{CertType: signature.EFI_CERT_TYPE_PKCS7_GUID, CertData: append([]byte{}, blob...)}}
			ok, derr = d.Verify(cert)
		}); pan {
			dObs = "panic"
		} else if derr != nil {
			dObs = "err"
		} else if ok {
			dObs = "ok true"
		}
		c.Class(prop + "/inside-descriptor/" + strings.ReplaceAll(dObs, " ", "-"))
		if dObs == "panic" {
			c.Fail(Failure{Kind: "property", What: "EFIVariableAuthentication2.Verify panicked on a descriptor carrying this blob", Case: cs, Go: dObs})
		}
		if dObs == "ok true" && spec != "true" {
			c.Fail(Failure{Kind: "property", What: "verification of an authenticated-variable descriptor carrying this blob succeeded although no signer entry of this certificate carries a valid RSA-SHA256 signature over the attributes as transmitted with a message digest matching the encapsulated content", Case: cs,
				Go: "EFIVariableAuthentication2.Verify: " + dObs + "; ParsePKCS7+Verify: " + goObs, Spec: "Spec.cmsVerify=" + spec})
		}
	}
	if goObs == "ok true" && spec != "true" {
		c.Fail(Failure{Kind: "property", Matcher: c04Matcher(blob, cert), What: "verification succeeded although no signer entry of this certificate carries a valid RSA-SHA256 signature over the attributes as transmitted with a message digest matching the encapsulated content", Case: cs,
			Go: goObs, Spec: "Spec.cmsVerify=" + spec})
	}
	// Spec validation: on seeds and targeted forgeries (well-formed DER) the Lean Spec must agree with the
	// independent encoding/asn1 + crypto/rsa verifier; random mutations are judged by the Spec alone
	// (the stdlib decoder is stricter about unsigned structure, which the property does not ask for)
	// (blobs with fields the SignedData syntax does not have are left to the Spec as well: encoding/asn1 skips what
	// follows the last field it knows)
	if cl := cs.S("class"); strings.Contains(cl, "/outside-the-syntax/") {
	} else if cl == "seed" || strings.HasPrefix(cl, "forge-") || strings.HasPrefix(cl, "two-signers/") || cl == "drop-signed-attrs" || cl == "third-party" {
		if std, parsed := stdVerify(blob, cert, nil); parsed && fmt.Sprint(std) != spec {
			c.Fail(Failure{Kind: "tie", What: "Spec validation: Spec.cmsVerify and the stdlib-based verifier disagree", Case: cs, Model: "Spec.cmsVerify=" + spec, Go: fmt.Sprintf("stdlib-verifier=%v", std)})
		}
	}
	if prop == "C16" && cs.S("expect") == "accept" && goObs != "ok true" {
		c.Fail(Failure{Kind: "property", What: "a third-party signature with signed attributes does not verify against the signer's certificate", Case: cs, Go: goObs, Spec: "ok true (Spec.cmsVerify=" + spec + ")"})
	}
	if prop == "C16" && cs.S("expect") == "reject" && goObs == "ok true" {
		c.Fail(Failure{Kind: "property", What: "a third-party signature verifies against a certificate that is not the signer's", Case: cs, Go: goObs})
	}
	if prop == "C16" && cs.S("expect") == "parse" && goObs == "parse-err" {
		c.Fail(Failure{Kind: "property", What: "a third-party signature does not parse", Case: cs, Go: goObs})
	}
}

// derOneElement: the octets are exactly one element by their outermost identifier and (definite) length octets
func derOneElement(b []byte) bool {
	if len(b) < 2 || b[0]&0x1f == 0x1f {
		return false
	}
	l, hl := int(b[1]), 2
	if l&0x80 != 0 {
		n := l & 0x7f
		if n == 0 || n > 4 || len(b) < 2+n {
			return false
		}
		l = 0
		for i := 0; i < n; i++ {
			l = l<<8 | int(b[2+i])
		}
		hl = 2 + n
	}
	return hl+l == len(b)
}

func c04Matcher(blob []byte, cert *x509.Certificate) string { return "" }

func c04Eval(c *Ctx, cs Case) { p7Eval(c, cs, "C04") }

// ---- seeds ----

func opensslPath() string {
	for _, p := range []string{"openssl", "/root/miniconda/bin/openssl", "/usr/bin/openssl", "/usr/local/bin/openssl"} {
		if q, err := exec.LookPath(p); err == nil {
			return q
		}
	}
	return ""
}

func extractCertTable(img []byte) [][]byte {
	// independent walk: e_lfanew, optional header kind, data directory 4, WIN_CERTIFICATE entries
	if len(img) < 0x40 {
		return nil
	}
	pe := int(binary.LittleEndian.Uint32(img[0x3c:]))
	if pe+24+2 > len(img) {
		return nil
	}
	opt := pe + 24
	dd := opt + 128
	if binary.LittleEndian.Uint16(img[opt:]) == 0x20b {
		dd = opt + 144
	}
	if dd+8 > len(img) {
		return nil
	}
	va, sz := int(binary.LittleEndian.Uint32(img[dd:])), int(binary.LittleEndian.Uint32(img[dd+4:]))
	if va == 0 || va+sz > len(img) {
		return nil
	}
	var out [][]byte
	t := img[va : va+sz]
	for len(t) >= 8 {
		l := int(binary.LittleEndian.Uint32(t))
		if l < 8 || l > len(t) {
			break
		}
		out = append(out, t[8:l])
		l = (l + 7) &^ 7
		if l > len(t) {
			break
		}
		t = t[l:]
	}
	return out
}

func p7Seeds(c *Ctx, withOpenssl bool) []p7Seed {
	var seeds []p7Seed
	k0, k1 := poolKey(c, 2048, 0), poolKey(c, 2048, 1)
	shapes := certShapes(c)
	for i, sh := range []certShape{shapes[0], shapes[2], shapes[3], shapes[9], shapes[11], shapes[13]} {
		right, twin, other := makeRSACert(k0, sh), makeRSACert(k1, sh), makeRSACert(k1, shapes[(i+5)%len(shapes)])
		if b, err := pkcs7.SignPKCS7(k0, right, pkcs7.OIDData, []byte("detached content")); err == nil {
			seeds = append(seeds, p7Seed{"lib/data/" + sh.desc, b, right, twin, other, true})
		}
		spc, _ := authenticode.CreateSpcIndirectDataContent(bytes.Repeat([]byte{byte(i + 1)}, 32), 0)
		// SignPKCS7 wraps content in a SEQUENCE: hand it the inside of SpcIndirectDataContent
		if b, err := pkcs7.SignPKCS7(k0, right, authenticode.OIDSpcIndirectDataContent, spc); err == nil {
			seeds = append(seeds, p7Seed{"lib/spc/" + sh.desc, b, right, twin, other, true})
		}
	}
	// repository fixtures
	if kc := loadRepoKeyCert(c, "authenticode/testdata/db.key", "authenticode/testdata/db.pem"); kc != nil {
		twin := twinOf(c, kc.cert, k1)
		for _, f := range []string{"authenticode/testdata/test.pecoff.signed", "tests/data/binary/HelloWorld.efi.signed"} {
			if img, err := os.ReadFile(filepath.Join(c.RepoDir, f)); err == nil {
				for j, b := range extractCertTable(img) {
					seeds = append(seeds, p7Seed{fmt.Sprintf("fixture/%s#%d", filepath.Base(f), j), b, kc.cert, twin, makeRSACert(k1, shapes[1]), false})
				}
			}
		}
		for _, f := range []string{"authenticode/testdata/test.pecoff.pk7", "authenticode/testdata/test.authenticode.signed", "pkcs7/testdata/test.signed"} {
			if b, err := os.ReadFile(filepath.Join(c.RepoDir, f)); err == nil {
				seeds = append(seeds, p7Seed{"fixture/" + filepath.Base(f), b, kc.cert, twin, makeRSACert(k1, shapes[1]), false})
			}
		}
	}
	if withOpenssl {
		seeds = append(seeds, opensslSeeds(c)...)
	}
	seeds = append(seeds, cmsShapedSeeds(c)...)
	return seeds
}

// a certificate with the same issuer and serial as `cert` but another key
func twinOf(c *Ctx, cert *x509.Certificate, key interface{}) *x509.Certificate {
	k1 := poolKey(c, 2048, 1)
	return makeRSACert(k1, certShape{issuer: cert.Issuer, serial: cert.SerialNumber, desc: "twin-of-" + cert.SerialNumber.String()})
}

// ---- mutations ----

func mutateBlob(c *Ctx, blob []byte, emit func(class string, b []byte)) {
	// stratified single-byte changes
	n := c.N(40, 0)
	if c.Thorough && len(blob) <= 2048 {
		for i := range blob { // exhaustive over positions
			m := append([]byte{}, blob...)
			m[i] ^= byte(1 << uint(c.Rng.Intn(8)))
			emit("bitflip", m)
		}
	} else {
		if c.Thorough {
			n = 400
		}
		for i := 0; i < n; i++ {
			m := append([]byte{}, blob...)
			pos := c.Rng.Intn(len(blob))
			if i%2 == 0 {
				m[pos] ^= byte(1 << uint(c.Rng.Intn(8)))
				emit("bitflip", m)
			} else {
				m[pos] = byte(c.Rng.Intn(256))
				emit("byteset", m)
			}
		}
	}
	// truncations
	for _, cut := range []int{1, 2, len(blob) / 2, len(blob) - 1} {
		if cut > 0 && cut < len(blob) {
			emit("truncated", blob[:cut])
		}
	}
	roots, ok := parseDER(blob)
	if !ok || len(roots) == 0 {
		return
	}
	root := roots[0]
	var nodes []*derNode
	parents := map[*derNode]*derNode{}
	root.walk(nil, func(n, p *derNode) { nodes = append(nodes, n); parents[n] = p })
	// every leaf: flip one bit of the signature / digest / integers / OIDs (fields), in a fresh clone each
	idx := 0
	root.walk(nil, func(n, p *derNode) {
		i := idx
		idx++
		if n.compound || len(n.leaf) == 0 {
			return
		}
		cl := root.clone()
		var target *derNode
		j := 0
		cl.walk(nil, func(m, _ *derNode) {
			if j == i {
				target = m
			}
			j++
		})
		target.leaf[c.Rng.Intn(len(target.leaf))] ^= byte(1 << uint(c.Rng.Intn(8)))
		emit("field-bitflip", cl.encode())
	})
	// structural edits: delete / duplicate / swap siblings / retag, on every constructed node (bounded)
	for i, n := range nodes {
		if !n.compound || len(n.kids) == 0 {
			continue
		}
		for k := 0; k < len(n.kids) && k < 8; k++ {
			for _, kind := range []string{"delete", "duplicate", "swap"} {
				if kind == "swap" && k+1 >= len(n.kids) {
					continue
				}
				cl := root.clone()
				var target *derNode
				j := 0
				cl.walk(nil, func(m, _ *derNode) {
					if j == i {
						target = m
					}
					j++
				})
				switch kind {
				case "delete":
					target.kids = append(target.kids[:k:k], target.kids[k+1:]...)
				case "duplicate":
					target.kids = append(target.kids[:k+1:k+1], append([]*derNode{target.kids[k].clone()}, target.kids[k+1:]...)...)
				case "swap":
					target.kids[k], target.kids[k+1] = target.kids[k+1], target.kids[k]
				}
				emit("struct-"+kind, cl.encode())
			}
		}
	}
}

// targeted forgeries named in the quantifier: replace content / content type / certificates / signer identity
func forgeries(c *Ctx, s p7Seed, emit func(class string, b []byte)) {
	roots, ok := parseDER(s.blob)
	if !ok || len(roots) == 0 {
		return
	}
	edit := func(class string, f func(root *derNode) bool) {
		r := roots[0].clone()
		if f(r) {
			emit(class, r.encode())
		}
	}
	// locate SignedData
	sdOf := func(r *derNode) *derNode {
		if len(r.kids) == 2 && r.kids[0].tag == 0x06 && r.kids[1].tag == 0xa0 && len(r.kids[1].kids) == 1 {
			return r.kids[1].kids[0]
		}
		return r
	}
	edit("forge-content", func(r *derNode) bool {
		sd := sdOf(r)
		if len(sd.kids) < 3 || len(sd.kids[2].kids) < 2 {
			return false
		}
		ci := sd.kids[2].kids[1] // [0] content
		changed := false
		ci.walk(nil, func(n, _ *derNode) {
			if !n.compound && len(n.leaf) >= 20 && !changed {
				n.leaf[len(n.leaf)-1] ^= 0x55
				changed = true
			}
		})
		return changed
	})
	edit("forge-content-type", func(r *derNode) bool {
		sd := sdOf(r)
		if len(sd.kids) < 3 || len(sd.kids[2].kids) < 1 {
			return false
		}
		sd.kids[2].kids[0].leaf = []byte{0x2a, 0x86, 0x48, 0x86, 0xf7, 0x0d, 0x01, 0x07, 0x03}
		return true
	})
	edit("forge-certs", func(r *derNode) bool {
		sd := sdOf(r)
		for _, k := range sd.kids {
			if k.tag == 0xa0 {
				k.compound, k.kids, k.leaf = false, nil, s.other.Raw
				return true
			}
		}
		return false
	})
	edit("drop-signed-attrs", func(r *derNode) bool {
		sd := sdOf(r)
		if len(sd.kids) == 0 {
			return false
		}
		set := sd.kids[len(sd.kids)-1]
		if len(set.kids) == 0 {
			return false
		}
		si := set.kids[0]
		for i, k := range si.kids {
			if k.tag == 0xa0 {
				si.kids = append(si.kids[:i:i], si.kids[i+1:]...)
				return true
			}
		}
		return false
	})
	// the octets that were signed, moved to where the content is: the signer entry loses its signed attributes and the
	// encapsulated content becomes an element whose contents octets are exactly the DER SET the signature was made
	// over (an OCTET STRING as CMS producers wrap content, a SEQUENCE as this library wraps it, the SET itself),
	// under the original content type and under data. The signature is a genuine one by the named certificate, but
	// over octets that are no longer signed attributes of the blob and with no message digest binding the content:
	// a verifier that falls back to "signature over the content" (RFC 2315 section 9.3, signer entries without
	// attributes) when the attributes are absent would accept it.
	for _, wrap := range []struct {
		name string
		tag  byte
	}{{"octet-string", 0x04}, {"sequence", 0x30}, {"set-itself", 0x31}} {
		for _, asData := range []bool{false, true} {
			wrap, asData := wrap, asData
			if asData && wrap.tag == 0x31 {
				continue
			}
			edit("forge-signed-octets-as-content/"+wrap.name+map[bool]string{false: "/type-kept", true: "/type-data"}[asData], func(r *derNode) bool {
				sd := sdOf(r)
				if len(sd.kids) < 4 || !sd.kids[2].compound || len(sd.kids[2].kids) < 1 {
					return false
				}
				set := sd.kids[len(sd.kids)-1]
				if set.tag != 0x31 || len(set.kids) != 1 {
					return false
				}
				si := set.kids[0]
				at := p7SignedAttrs(si)
				if at == nil {
					return false
				}
				signed := at.encode()
				signed[0] = 0x31
				for i, k := range si.kids {
					if k == at {
						si.kids = append(si.kids[:i:i], si.kids[i+1:]...)
						break
					}
				}
				el := &derNode{tag: wrap.tag, leaf: signed}
				if wrap.tag == 0x31 {
					inner, ok := parseDER(signed)
					if !ok || len(inner) != 1 {
						return false
					}
					el = inner[0]
				}
				eci := sd.kids[2]
				eci.kids = []*derNode{eci.kids[0], {tag: 0xa0, compound: true, kids: []*derNode{el}}}
				if asData {
					eci.kids[0].leaf = []byte{0x2a, 0x86, 0x48, 0x86, 0xf7, 0x0d, 0x01, 0x07, 0x01}
				}
				return true
			})
		}
	}
	// the encapsulated content replaced by - or, for a detached blob, attached as - an element whose VALUE is empty
	// (an empty SEQUENCE / OCTET STRING / SET, a NULL), attributes and signature kept. The blob then encapsulates
	// content: the signed message digest has to be the SHA-256 of its (zero) contents octets, which the digest of no
	// genuine signature is. Whether content is present is a matter of the element being there, not of its length.
	for _, el := range []struct {
		name string
		tag  byte
	}{{"sequence", 0x30}, {"octet-string", 0x04}, {"null", 0x05}, {"set", 0x31}} {
		el := el
		edit("forge-empty-content/"+el.name, func(r *derNode) bool {
			sd := sdOf(r)
			if len(sd.kids) < 4 || !sd.kids[2].compound || len(sd.kids[2].kids) < 1 || sd.kids[2].kids[0].tag != 0x06 {
				return false
			}
			eci := sd.kids[2]
			eci.kids = []*derNode{eci.kids[0], {tag: 0xa0, compound: true, kids: []*derNode{{tag: el.tag, compound: el.tag&0x20 != 0}}}}
			return true
		})
	}
	// the octets inside the [0] of the encapsulated content are NOT one well-formed element, attributes and signature
	// kept: the blob still "encapsulates its content" (the [0] field is there and not empty), but there are no contents
	// octets whose SHA-256 the signed message digest could equal - so success is excluded; an error or a negative
	// result is what the statement allows. Reached from a valid blob by a change of ONE length octet of the content
	// element (+1; each single bit that makes the declared length larger, so that it reaches past the end of its [0]
	// wrapper; for a short-form octet also bit 7, which turns it into a long-form introducer), by cutting the element's
	// last octet off, and by replacing the content (or, for a detached blob, attaching as content) octets that are no
	// DER at all: text, a lone identifier octet, an identifier and a long-form introducer without its length octets,
	// a declared length of 2^32-1 over a few octets.
	{
		withContent := func(class string, mk func(el []byte) ([]byte, bool)) {
			edit("forge-content-not-an-element/"+class, func(r *derNode) bool {
				sd := sdOf(r)
				if len(sd.kids) < 4 || !sd.kids[2].compound || len(sd.kids[2].kids) < 1 || sd.kids[2].kids[0].tag != 0x06 {
					return false
				}
				eci := sd.kids[2]
				var el []byte
				if len(eci.kids) >= 2 {
					w := eci.kids[1]
					if w.compound {
						for _, k := range w.kids {
							el = append(el, k.encode()...)
						}
					} else {
						el = append(el, w.leaf...)
					}
				}
				raw, ok := mk(el)
				if !ok || len(raw) == 0 || derOneElement(raw) {
					return false
				}
				eci.kids = []*derNode{eci.kids[0], {tag: 0xa0, leaf: raw}}
				return true
			})
		}
		// where the length octets of the content element are
		lenOctets := func(el []byte) []int {
			if len(el) < 2 {
				return nil
			}
			if el[1]&0x80 == 0 {
				return []int{1}
			}
			var out []int
			for i := 0; i < int(el[1]&0x7f) && 2+i < len(el); i++ {
				out = append(out, 2+i)
			}
			return out
		}
		for k := 0; k < 5; k++ {
			k := k
			withContent(fmt.Sprintf("length-octet-%d-plus-1", k), func(el []byte) ([]byte, bool) {
				lo := lenOctets(el)
				if k >= len(lo) || el[lo[k]] == 0xff || (el[1]&0x80 == 0 && el[1] == 0x7f) {
					return nil, false
				}
				m := append([]byte{}, el...)
				m[lo[k]]++
				return m, true
			})
			for bit := 0; bit < 8; bit++ {
				bit := bit
				if !c.Thorough && bit != 0 && bit != 1 && bit != 7 && !(bit == 6 && k == 0) {
					continue // quick tier: the lowest two bits, the highest, and bit 6 of the first length octet
				}
				withContent(fmt.Sprintf("length-octet-%d-bit-%d-set", k, bit), func(el []byte) ([]byte, bool) {
					lo := lenOctets(el)
					if k >= len(lo) || el[lo[k]]&(1<<bit) != 0 {
						return nil, false
					}
					m := append([]byte{}, el...)
					m[lo[k]] |= 1 << bit
					return m, true
				})
			}
		}
		withContent("last-octet-cut-off", func(el []byte) ([]byte, bool) {
			if len(el) < 3 {
				return nil, false
			}
			return append([]byte{}, el[:len(el)-1]...), true
		})
		for _, nd := range []struct {
			name string
			b    []byte
		}{
			{"text", []byte("not DER at all")}, {"text-long", []byte("This is the new content of the variable, in plain text, and it is not an ASN.1 element.\n")},
			{"identifier-only", []byte{0x30}}, {"long-form-without-length-octets", []byte{0x30, 0x82}}, {"long-form-length-cut", []byte{0x04, 0x82, 0x01}},
			{"length-2^32-1", []byte{0x04, 0x84, 0xff, 0xff, 0xff, 0xff, 1, 2, 3, 4}}, {"high-octets", []byte{0xff, 0xff, 0xff, 0xff, 0xff, 0xff}},
			{"indefinite-length", []byte{0x30, 0x80, 0x04, 0x01, 0x41, 0x00, 0x00}},
		} {
			nd := nd
			withContent("replaced-by/"+nd.name, func([]byte) ([]byte, bool) { return nd.b, true })
		}
	}
	// the signer entry re-made by the SIGNER'S OWN key under another digest algorithm: digestAlgorithm names SHA-1 /
	// SHA-384 / SHA-512, the message digest is that hash of the content, the signature an RSA PKCS#1 v1.5 signature
	// with that hash over the attributes (what openssl cms -md sha1|sha384|sha512 or a tool with another default
	// emits). Key, identity, content and attributes are all consistent - but the entry carries no RSA-SHA256 signature
	// and its message digest is not the SHA-256 of the content, which is what the statement ties success to. Also:
	// the label and the hash really used disagree (named SHA-256 / signed with SHA-512 and the reverse).
	if rkey, _ := keyOfCert(c, s.right); rkey != nil {
		for _, v := range []struct {
			name          string
			named, signed crypto.Hash
		}{
			{"sha1", crypto.SHA1, crypto.SHA1}, {"sha384", crypto.SHA384, crypto.SHA384}, {"sha512", crypto.SHA512, crypto.SHA512},
			{"named-sha256-made-with-sha512", crypto.SHA256, crypto.SHA512}, {"named-sha512-made-with-sha256-digest-sha512", crypto.SHA512, crypto.SHA256},
		} {
			v := v
			edit("forge-resigned-under-hash/"+v.name, func(r *derNode) bool {
				return p7ResignUnderHash(sdOf(r), rkey, v.named, v.signed)
			})
		}
	}
	edit("forge-signer-identity", func(r *derNode) bool {
		sd := sdOf(r)
		if len(sd.kids) == 0 {
			return false
		}
		set := sd.kids[len(sd.kids)-1]
		if len(set.kids) == 0 || len(set.kids[0].kids) < 2 {
			return false
		}
		ias := set.kids[0].kids[1]
		if len(ias.kids) != 2 {
			return false
		}
		o, _ := parseDER(s.other.RawIssuer)
		if len(o) != 1 {
			return false
		}
		ias.kids[0] = o[0]
		ias.kids[1].leaf = s.other.SerialNumber.Bytes()
		if len(ias.kids[1].leaf) > 0 && ias.kids[1].leaf[0]&0x80 != 0 {
			ias.kids[1].leaf = append([]byte{0}, ias.kids[1].leaf...)
		}
		return true
	})
	// several signer entries: the verdict must come from an entry that NAMES the certificate
	// and carries a valid signature, never from a mix of two entries
	otherIdentity := func(si *derNode) bool {
		if len(si.kids) < 2 || len(si.kids[1].kids) != 2 {
			return false
		}
		o, _ := parseDER(s.other.RawIssuer)
		if len(o) != 1 {
			return false
		}
		ias := si.kids[1]
		ias.kids[0] = o[0]
		ias.kids[1].leaf = s.other.SerialNumber.Bytes()
		if len(ias.kids[1].leaf) > 0 && ias.kids[1].leaf[0]&0x80 != 0 {
			ias.kids[1].leaf = append([]byte{0}, ias.kids[1].leaf...)
		}
		return true
	}
	damageSig := func(si *derNode) bool {
		for i := len(si.kids) - 1; i >= 0; i-- {
			if si.kids[i].tag == 0x04 && len(si.kids[i].leaf) > 8 {
				si.kids[i].leaf[len(si.kids[i].leaf)/2] ^= 0x10
				return true
			}
		}
		return false
	}
	signerSet := func(r *derNode) *derNode {
		sd := sdOf(r)
		if len(sd.kids) == 0 {
			return nil
		}
		set := sd.kids[len(sd.kids)-1]
		if set.tag != 0x31 || len(set.kids) != 1 {
			return nil
		}
		return set
	}
	for _, v := range []struct {
		class string
		first []func(*derNode) bool // edits of the first entry
		secnd []func(*derNode) bool // edits of the second entry
	}{
		{"two-signers/foreign-valid+named-damaged", []func(*derNode) bool{otherIdentity}, []func(*derNode) bool{damageSig}},
		{"two-signers/named-damaged+foreign-valid", []func(*derNode) bool{damageSig}, []func(*derNode) bool{otherIdentity}},
		{"two-signers/foreign-damaged+named-valid", []func(*derNode) bool{otherIdentity, damageSig}, nil},
		{"two-signers/named-damaged+named-valid", []func(*derNode) bool{damageSig}, nil},
		{"two-signers/named-valid+foreign-damaged", nil, []func(*derNode) bool{otherIdentity, damageSig}},
		{"two-signers/foreign-valid+foreign-damaged", []func(*derNode) bool{otherIdentity}, []func(*derNode) bool{otherIdentity, damageSig}},
	} {
		v := v
		edit(v.class, func(r *derNode) bool {
			set := signerSet(r)
			if set == nil {
				return false
			}
			a, b := set.kids[0], set.kids[0].clone()
			for _, f := range v.first {
				if !f(a) {
					return false
				}
			}
			for _, f := range v.secnd {
				if !f(b) {
					return false
				}
			}
			set.kids = []*derNode{a, b}
			return true
		})
	}
	// several signer entries that differ in their ATTRIBUTES: the content is replaced (where the blob encapsulates
	// it), one entry carries attributes re-bound to the replaced content (messageDigest := its SHA-256) under the
	// original signature, the other entry the original attributes (same length) and the original signature; either
	// entry names the certificate or somebody else. No entry has both a signature over its own attributes and a
	// digest matching the content, whatever the order: nothing may be taken from the neighbouring entry.
	replaceAndRebind := func(r *derNode) ([]byte, bool) {
		sd := sdOf(r)
		if p7TamperContent(sd) {
			return p7ContentDigest(sd)
		}
		h := sha256.Sum256([]byte("some other content"))
		return h[:], true // detached: there is no content inside the blob to replace
	}
	edit("forge-content+rebound-digest", func(r *derNode) bool {
		set := signerSet(r)
		if set == nil {
			return false
		}
		d, ok := replaceAndRebind(r)
		return ok && p7SetMessageDigest(set.kids[0], d)
	})
	type entryKind struct{ named, rebound bool }
	entryName := func(e entryKind) string {
		n := map[bool]string{true: "named", false: "foreign"}[e.named]
		return n + map[bool]string{true: "-rebound", false: "-original"}[e.rebound]
	}
	for _, v := range [][2]entryKind{
		{{true, true}, {false, false}}, {{true, true}, {true, false}},
		{{false, false}, {true, true}}, {{true, false}, {true, true}},
		{{false, true}, {true, false}}, {{true, false}, {false, true}},
	} {
		v := v
		edit("two-signers/attrs/"+entryName(v[0])+"+"+entryName(v[1]), func(r *derNode) bool {
			set := signerSet(r)
			if set == nil {
				return false
			}
			d, ok := replaceAndRebind(r)
			if !ok {
				return false
			}
			entries := []*derNode{set.kids[0], set.kids[0].clone()}
			for i, e := range entries {
				if v[i].rebound && !p7SetMessageDigest(e, d) {
					return false
				}
				if !v[i].named && !otherIdentity(e) {
					return false
				}
			}
			set.kids = entries
			return true
		})
	}
	// the OPTIONAL unauthenticatedAttributes [1] field of the signer entry holding attribute types that mean something
	// only in the SIGNED set (messageDigest, contentType, signingTime), over replaced content: the unsigned set names the
	// digest of the replaced content, the signed attributes and the signature are the original ones. What binds the
	// content is the messageDigest among the attributes the signature was made over; nothing outside them may stand in
	// for it. Kinds: a lone messageDigest; the three well-known attributes built afresh; a copy of the whole signed set
	// re-bound to the replaced content; and, with the content KEPT, a messageDigest of other content in the unsigned set
	// (which has to change nothing: the blob is as valid as before).
	for _, kind := range []string{"message-digest", "well-known-three", "copy-of-signed-set"} {
		kind := kind
		edit("forge-content+unsigned-attrs/"+kind, func(r *derNode) bool {
			set := signerSet(r)
			if set == nil {
				return false
			}
			d, ok := replaceAndRebind(r)
			return ok && p7AddUnsignedWellKnown(set.kids[0], kind, d)
		})
	}
	edit("forge-unsigned-attrs/content-kept/message-digest-of-other-content", func(r *derNode) bool {
		set := signerSet(r)
		if set == nil {
			return false
		}
		h := sha256.Sum256([]byte("some other content"))
		return p7AddUnsignedWellKnown(set.kids[0], "message-digest", h[:])
	})
	// the signer identity with the serial number of the named certificate in every other encoding of "the same octets":
	// see serialEncodings
	serialForgeries(s, emit)
	// a blob inside a blob. The content is replaced and the whole entry consistently re-signed by ANOTHER key
	// (identity, certificate, message digest, signature: a genuine signature of that other signer), and the
	// original, genuine blob travels along in every place of the outer one that can hold a blob: unsigned
	// attributes, certificates, CRLs, content, further signer entries, trailing fields. The verdict for a
	// certificate must come from the outer blob's own signer entries and content, never from a passenger.
	if okey, ocert := keyOfCert(c, s.other); okey != nil {
		r := roots[0].clone()
		p7TamperContent(sdOf(r)) // a detached blob has no content inside to replace
		if p7ResignBy(sdOf(r), okey, ocert) {
			outer := r.encode()
			emit("forge-resigned-by-other", outer)
			p7Carriers(outer, s.blob, func(pos string, b []byte) { emit("forge-carrier/"+pos, b) })
			p7Carriers(s.blob, outer, func(pos string, b []byte) { emit("forge-carried-foreign/"+pos, b) })
		}
	}
	// replace every OID of the blob by a sibling algorithm / type, alone and together with a content change
	// (an algorithm identifier must never switch a check off)
	oidSwaps(s.blob, func(class string, b []byte) {
		emit(class, b)
		if t, ok := tamperContent(b); ok {
			emit(class+"+forge-content", t)
		}
	})
	edit("forge-message-digest", func(r *derNode) bool {
		done := false
		r.walk(nil, func(n, _ *derNode) {
			if n.tag == 0x30 && len(n.kids) == 2 && bytes.Equal(n.kids[0].leaf, []byte{0x2a, 0x86, 0x48, 0x86, 0xf7, 0x0d, 0x01, 0x09, 0x04}) && len(n.kids[1].kids) == 1 {
				h := sha256.Sum256([]byte("other"))
				n.kids[1].kids[0].leaf = h[:]
				done = true
			}
		})
		return done
	})
}

// ---- helpers on the DER tree of a SignedData ----

func p7SignedDataOf(r *derNode) *derNode {
	if len(r.kids) == 2 && r.kids[0].tag == 0x06 && r.kids[1].tag == 0xa0 && len(r.kids[1].kids) == 1 {
		return r.kids[1].kids[0]
	}
	return r
}

// p7TamperContent changes one bit of the encapsulated content (the last octet of its first sizeable leaf)
func p7TamperContent(sd *derNode) bool {
	if len(sd.kids) < 3 || len(sd.kids[2].kids) < 2 {
		return false
	}
	changed := false
	sd.kids[2].kids[1].walk(nil, func(n, _ *derNode) {
		if !n.compound && len(n.leaf) >= 20 && !changed {
			n.leaf[len(n.leaf)-1] ^= 0x55
			changed = true
		}
	})
	return changed
}

// p7ContentDigest: SHA-256 of the value octets of the element inside the [0] of the encapsulated content
// (RFC 2315 section 9.3: the contents octets of the content, without identifier and length)
func p7ContentDigest(sd *derNode) ([]byte, bool) {
	if len(sd.kids) < 3 || len(sd.kids[2].kids) < 2 || len(sd.kids[2].kids[1].kids) < 1 {
		return nil, false
	}
	el := sd.kids[2].kids[1].kids[0]
	var body []byte
	if el.compound {
		for _, k := range el.kids {
			body = append(body, k.encode()...)
		}
	} else {
		body = el.leaf
	}
	h := sha256.Sum256(body)
	return h[:], true
}

func p7SignedAttrs(si *derNode) *derNode {
	for _, k := range si.kids {
		if k.tag == 0xa0 {
			return k
		}
	}
	return nil
}

var oidMessageDigestDER = []byte{0x2a, 0x86, 0x48, 0x86, 0xf7, 0x0d, 0x01, 0x09, 0x04}

// p7SetMessageDigest overwrites the messageDigest attribute of one signer entry
func p7SetMessageDigest(si *derNode, d []byte) bool {
	at := p7SignedAttrs(si)
	if at == nil {
		return false
	}
	for _, a := range at.kids {
		if a.tag == 0x30 && len(a.kids) == 2 && bytes.Equal(a.kids[0].leaf, oidMessageDigestDER) && len(a.kids[1].kids) == 1 && !a.kids[1].kids[0].compound {
			a.kids[1].kids[0].leaf = append([]byte{}, d...)
			return true
		}
	}
	return false
}

func p7SetIdentity(si *derNode, cert *x509.Certificate) bool {
	if len(si.kids) < 2 || len(si.kids[1].kids) != 2 {
		return false
	}
	o, _ := parseDER(cert.RawIssuer)
	if len(o) != 1 {
		return false
	}
	ias := si.kids[1]
	ias.kids[0] = o[0]
	ias.kids[1].leaf = cert.SerialNumber.Bytes()
	if len(ias.kids[1].leaf) == 0 || ias.kids[1].leaf[0]&0x80 != 0 {
		ias.kids[1].leaf = append([]byte{0}, ias.kids[1].leaf...)
	}
	return true
}

var (
	oidContentTypeDER = []byte{0x2a, 0x86, 0x48, 0x86, 0xf7, 0x0d, 0x01, 0x09, 0x03}
	oidSigningTimeDER = []byte{0x2a, 0x86, 0x48, 0x86, 0xf7, 0x0d, 0x01, 0x09, 0x05}
	oidDataDER        = []byte{0x2a, 0x86, 0x48, 0x86, 0xf7, 0x0d, 0x01, 0x07, 0x01}
)

// p7AddUnsigned appends attributes to the unauthenticatedAttributes [1] field of a signer entry (creating the field
// behind the signature value when the entry has none)
func p7AddUnsigned(si *derNode, attrs ...*derNode) bool {
	if !si.compound || len(si.kids) == 0 {
		return false
	}
	if last := si.kids[len(si.kids)-1]; last.tag == 0xa1 && last.compound {
		last.kids = append(last.kids, attrs...)
		return true
	}
	si.kids = append(si.kids, &derNode{tag: 0xa1, compound: true, kids: attrs})
	return true
}

// p7AddUnsignedWellKnown puts attributes of the well-known (signed-attribute) types into the UNSIGNED set of a signer
// entry, with d as the messageDigest value
func p7AddUnsignedWellKnown(si *derNode, kind string, d []byte) bool {
	attr := func(oid []byte, value *derNode) *derNode {
		return &derNode{tag: 0x30, compound: true, kids: []*derNode{{tag: 0x06, leaf: oid}, {tag: 0x31, compound: true, kids: []*derNode{value}}}}
	}
	md := attr(oidMessageDigestDER, &derNode{tag: 0x04, leaf: append([]byte{}, d...)})
	switch kind {
	case "message-digest":
		return p7AddUnsigned(si, md)
	case "well-known-three":
		return p7AddUnsigned(si, attr(oidContentTypeDER, &derNode{tag: 0x06, leaf: oidDataDER}), attr(oidSigningTimeDER, &derNode{tag: 0x17, leaf: []byte("380119031407Z")}), md)
	case "copy-of-signed-set":
		at := p7SignedAttrs(si)
		if at == nil || !at.compound {
			return false
		}
		cp := &derNode{tag: 0x30, compound: true, kids: []*derNode{{tag: 0x02, leaf: []byte{1}}, {tag: 0x30, compound: true}, at.clone()}}
		if !p7SetMessageDigest(cp, d) {
			return false
		}
		return p7AddUnsigned(si, cp.kids[2].kids...)
	}
	return false
}

// serialEncodings: the octets of an INTEGER that a signer entry can carry in place of the DER encoding L of a
// certificate's (positive) serial number, all of them a DIFFERENT number or not DER at all. A certificate serial whose
// leading octet has its top bit set is encoded with a 00 pad octet in front; the same octets without the pad are a
// negative number (N - 2^k), with one pad more they are not minimal, with ff in front they are another negative
// number, and so on. A signer entry names the certificate only if its serial is the certificate's serial NUMBER in
// DER; "the same octets up to padding / sign" names somebody else (or nobody).
func serialEncodings(L []byte) []struct {
	name string
	b    []byte
} {
	type enc = struct {
		name string
		b    []byte
	}
	cat := func(p []byte, q []byte) []byte { return append(append([]byte{}, p...), q...) }
	var out []enc
	if len(L) > 1 && L[0] == 0 {
		out = append(out, enc{"pad-octet-dropped", cat(nil, L[1:])}) // top bit of the leading octet now set: negative
	}
	if len(L) > 0 && L[0]&0x80 == 0 {
		m := cat(nil, L)
		m[0] |= 0x80
		out = append(out, enc{"top-bit-set", m})
	}
	out = append(out, enc{"pad-octet-added", cat([]byte{0}, L)}, enc{"two-pad-octets-added", cat([]byte{0, 0}, L)}, enc{"ff-octet-added", cat([]byte{0xff}, L)})
	// -N in minimal two's complement
	n := new(big.Int).Neg(new(big.Int).SetBytes(L))
	if n.Sign() < 0 {
		k := uint(8 * len(L))
		tc := new(big.Int).Add(new(big.Int).Lsh(big.NewInt(1), k), n).Bytes() // 2^k - N, k bits
		for len(tc) < len(L) {
			tc = cat([]byte{0}, tc)
		}
		for len(tc) > 1 && tc[0] == 0xff && tc[1]&0x80 != 0 {
			tc = tc[1:]
		}
		out = append(out, enc{"negated", tc})
	}
	out = append(out, enc{"empty", nil})
	return out
}

// serialForgeries: the first signer entry with its serial number re-encoded in each way of serialEncodings
func serialForgeries(s p7Seed, emit func(class string, b []byte)) {
	roots, ok := parseDER(s.blob)
	if !ok || len(roots) == 0 {
		return
	}
	serialOf := func(r *derNode) *derNode {
		sd := p7SignedDataOf(r)
		if len(sd.kids) == 0 {
			return nil
		}
		set := sd.kids[len(sd.kids)-1]
		if set.tag != 0x31 || len(set.kids) == 0 || len(set.kids[0].kids) < 2 {
			return nil
		}
		ias := set.kids[0].kids[1]
		if ias.tag != 0x30 || len(ias.kids) != 2 || ias.kids[1].tag != 0x02 || ias.kids[1].compound {
			return nil
		}
		return ias.kids[1]
	}
	n0 := serialOf(roots[0])
	if n0 == nil {
		return
	}
	for _, e := range serialEncodings(n0.leaf) {
		r := roots[0].clone()
		serialOf(r).leaf = e.b
		emit("forge-serial-encoding/"+e.name, r.encode())
	}
}

// serialClassShapes: signer certificates by the shape of their serial number's octets: the top bit of the leading octet
// set (DER needs a 00 pad octet) in 1, 2, 3, 8 and 20 octets, all ones, and for contrast the largest values without
// a pad (7f, 7fff) and a serial with an inner zero octet
func serialClassShapes() []certShape {
	var out []certShape
	for _, o := range [][]byte{{0x80}, {0xff}, {0x80, 0x00}, {0xff, 0xff, 0x00}, {0x80, 0, 0, 0, 0, 0, 0, 1}, bytes.Repeat([]byte{0xff}, 20), append([]byte{0x80}, bytes.Repeat([]byte{0x00}, 19)...), {0x7f}, {0x7f, 0xff}, {0x01, 0x00, 0x80}} {
		out = append(out, certShape{issuer: pkix.Name{CommonName: "serial class"}, serial: new(big.Int).SetBytes(o), desc: fmt.Sprintf("serial-class/%x", o)})
	}
	return out
}

// keyOfCert finds the pool key a certificate of the harness was made with
func keyOfCert(c *Ctx, cert *x509.Certificate) (*rsa.PrivateKey, *x509.Certificate) {
	if cert == nil {
		return nil, nil
	}
	pub, ok := cert.PublicKey.(*rsa.PublicKey)
	if !ok {
		return nil, nil
	}
	for i := 0; i < 4; i++ {
		if k := poolKey(c, 2048, i); k.N.Cmp(pub.N) == 0 {
			return k, cert
		}
	}
	return nil, nil
}

// p7ResignBy turns the first signer entry into a genuine signature of (key, cert) over the blob as it now is:
// message digest of the encapsulated content (if any), identity, embedded certificate, RSA-SHA256 signature
// over the DER SET of the attributes
func p7ResignBy(sd *derNode, key *rsa.PrivateKey, cert *x509.Certificate) bool {
	if len(sd.kids) == 0 {
		return false
	}
	set := sd.kids[len(sd.kids)-1]
	if set.tag != 0x31 || len(set.kids) == 0 {
		return false
	}
	si := set.kids[0]
	at := p7SignedAttrs(si)
	if at == nil || !p7SetIdentity(si, cert) {
		return false
	}
	if d, ok := p7ContentDigest(sd); ok && !p7SetMessageDigest(si, d) {
		return false
	}
	signed := at.encode()
	signed[0] = 0x31
	h := sha256.Sum256(signed)
	sig, err := rsa.SignPKCS1v15(rand.Reader, key, crypto.SHA256, h[:])
	if err != nil {
		return false
	}
	done := false
	for i := len(si.kids) - 1; i >= 0 && !done; i-- {
		if si.kids[i].tag == 0x04 {
			si.kids[i].leaf, done = sig, true
		}
	}
	if !done {
		return false
	}
	for _, k := range sd.kids[:len(sd.kids)-1] {
		if k.tag == 0xa0 {
			cn, _ := parseDER(cert.Raw)
			if len(cn) == 1 {
				k.compound, k.leaf, k.kids = true, nil, cn
			}
		}
	}
	return true
}

// p7ResignUnderHash re-makes the first signer entry with the same key and identity under other digest algorithms:
// digestAlgorithm (of the entry and of the SignedData) := named; messageDigest := the `named` hash of the
// encapsulated content (of placeholder octets when the blob is detached: nothing compares it then); signature :=
// RSA PKCS#1 v1.5 with the hash `signed` over the DER SET of the attributes
func p7ResignUnderHash(sd *derNode, key *rsa.PrivateKey, named, signed crypto.Hash) bool {
	if len(sd.kids) < 4 {
		return false
	}
	set := sd.kids[len(sd.kids)-1]
	if set.tag != 0x31 || len(set.kids) != 1 {
		return false
	}
	si := set.kids[0]
	at := p7SignedAttrs(si)
	if at == nil || len(si.kids) < 5 || si.kids[2].tag != 0x30 || len(si.kids[2].kids) < 1 || si.kids[2].kids[0].tag != 0x06 {
		return false
	}
	oid := mustMarshal(cmsHashOIDs[named], "")[2:]
	si.kids[2].kids[0].leaf = append([]byte{}, oid...)
	if da := sd.kids[1]; da.tag == 0x31 && len(da.kids) == 1 && len(da.kids[0].kids) >= 1 && da.kids[0].kids[0].tag == 0x06 {
		da.kids[0].kids[0].leaf = append([]byte{}, oid...)
	}
	body := []byte("the content of a detached signature is not in the blob")
	if len(sd.kids[2].kids) >= 2 && len(sd.kids[2].kids[1].kids) >= 1 {
		el := sd.kids[2].kids[1].kids[0]
		enc := el.encode()
		body = enc[len(enc)-len(derBody(el)):]
	}
	if !p7SetMessageDigest(si, hashOf(named, body)) {
		return false
	}
	tbs := at.encode()
	tbs[0] = 0x31
	sig, err := rsa.SignPKCS1v15(rand.Reader, key, signed, hashOf(signed, tbs))
	if err != nil {
		return false
	}
	return p7SetSignature(si, sig)
}

// derBody: the contents octets of a node
func derBody(n *derNode) []byte {
	if !n.compound {
		return n.leaf
	}
	var body []byte
	for _, k := range n.kids {
		body = append(body, k.encode()...)
	}
	return body
}

// p7SetSignature overwrites the signature value (the last OCTET STRING child) of a signer entry
func p7SetSignature(si *derNode, sig []byte) bool {
	for i := len(si.kids) - 1; i >= 0; i-- {
		if si.kids[i].tag == 0x04 && !si.kids[i].compound {
			si.kids[i].leaf = append([]byte{}, sig...)
			return true
		}
	}
	return false
}

// ---- signature VALUES: what the RSA block holds ----

// lowExponentKey: an RSA key with a small public exponent (3: still found in firmware and older certificates),
// cached with the other pool keys
func lowExponentKey(c *Ctx, bits, e int) *rsa.PrivateKey {
	keyMu.Lock()
	defer keyMu.Unlock()
	name := fmt.Sprintf("rsa%d-e%d.pem", bits, e)
	if k, ok := keyCache[name]; ok {
		return k
	}
	dir := filepath.Join(c.VerifDir, ".build", "keys")
	os.MkdirAll(dir, 0o755)
	p := filepath.Join(dir, name)
	load := func() *rsa.PrivateKey {
		if b, err := os.ReadFile(p); err == nil {
			if blk, _ := pem.Decode(b); blk != nil {
				if k, err := x509.ParsePKCS1PrivateKey(blk.Bytes); err == nil && k.E == e {
					return k
				}
			}
		}
		return nil
	}
	if k := load(); k != nil {
		keyCache[name] = k
		return k
	}
	one, be := big.NewInt(1), big.NewInt(int64(e))
	var k *rsa.PrivateKey
	for k == nil {
		pp, err1 := rand.Prime(rand.Reader, (bits+1)/2)
		q, err2 := rand.Prime(rand.Reader, bits/2)
		if err1 != nil || err2 != nil {
			panic(fmt.Sprint(err1, err2))
		}
		n := new(big.Int).Mul(pp, q)
		if pp.Cmp(q) == 0 || n.BitLen() != bits {
			continue
		}
		phi := new(big.Int).Mul(new(big.Int).Sub(pp, one), new(big.Int).Sub(q, one))
		d := new(big.Int).ModInverse(be, phi)
		if d == nil {
			continue
		}
		cand := &rsa.PrivateKey{PublicKey: rsa.PublicKey{N: n, E: e}, D: d, Primes: []*big.Int{pp, q}}
		cand.Precompute()
		if cand.Validate() == nil {
			k = cand
		}
	}
	tmp := fmt.Sprintf("%s.%d.tmp", p, os.Getpid())
	os.WriteFile(tmp, pem.EncodeToMemory(&pem.Block{Type: "RSA PRIVATE KEY", Bytes: x509.MarshalPKCS1PrivateKey(k)}), 0o600)
	os.Link(tmp, p)
	os.Remove(tmp)
	if kk := load(); kk != nil {
		k = kk
	}
	keyCache[name] = k
	return k
}

// intRoot: the smallest s with s^e >= t
func intRoot(t *big.Int, e int) *big.Int {
	lo, hi := big.NewInt(0), new(big.Int).Lsh(big.NewInt(1), uint(t.BitLen()/e+1))
	be := big.NewInt(int64(e))
	for lo.Cmp(hi) < 0 {
		mid := new(big.Int).Rsh(new(big.Int).Add(lo, hi), 1)
		if new(big.Int).Exp(mid, be, nil).Cmp(t) >= 0 {
			hi = mid
		} else {
			lo = mid.Add(mid, big.NewInt(1))
		}
	}
	return lo
}

var sha256DigestInfoPrefix = []byte{0x30, 0x31, 0x30, 0x0d, 0x06, 0x09, 0x60, 0x86, 0x48, 0x01, 0x65, 0x03, 0x04, 0x02, 0x01, 0x05, 0x00, 0x04, 0x20}
var sha256DigestInfoPrefixNoNull = []byte{0x30, 0x2f, 0x30, 0x0b, 0x06, 0x09, 0x60, 0x86, 0x48, 0x01, 0x65, 0x03, 0x04, 0x02, 0x01, 0x04, 0x20}

// rsaBlockForgeries: `blob` (a valid signature by anybody) with its first signer entry naming `cert` and the
// signature VALUE replaced by octets that are NOT an RSASSA-PKCS1-v1_5 SHA-256 signature (RFC 8017 section 8.2.2:
// the decrypted block has to EQUAL 00 01 FF..FF 00 DigestInfo, DigestInfo with NULL parameters ending the block) but
// that a verifier decoding the block leniently would take for one:
//   - made from the PUBLIC key alone when its exponent is small (key == nil suffices): the integer e-th root of a
//     number that begins with 00 01 FF*8 00 DigestInfo(SHA-256 of the attributes) and continues with whatever the root
//     leaves there (Bleichenbacher 2006) - with the DigestInfo in its standard form and without the NULL parameters,
//     with eight, one and no padding octets. No private key is involved at all.
//   - made with the private key (key != nil) over a block of the right length that is well-formed except for one
//     thing: octets behind the DigestInfo (padding shortened accordingly); NULL parameters absent; fewer than eight
//     padding octets behind leading zeros; block type 02; a padding octet that is not FF; non-minimal (BER) lengths in
//     the DigestInfo; the digest of OTHER attributes in an otherwise perfect block (control: has to fail everywhere).
//
// Everything else of the blob is consistent (content, message digest, attributes).
func rsaBlockForgeries(blob []byte, key *rsa.PrivateKey, cert *x509.Certificate, want func(class string) bool, emit func(class string, b []byte)) {
	pub, ok := cert.PublicKey.(*rsa.PublicKey)
	roots, okp := parseDER(blob)
	if !ok || !okp || len(roots) != 1 {
		return
	}
	k := pub.Size()
	with := func(class string, sigOf func(h []byte) []byte) {
		if want != nil && !want(class) {
			return
		}
		r := roots[0].clone()
		sd := p7SignedDataOf(r)
		if len(sd.kids) < 4 {
			return
		}
		set := sd.kids[len(sd.kids)-1]
		if set.tag != 0x31 || len(set.kids) != 1 {
			return
		}
		si := set.kids[0]
		at := p7SignedAttrs(si)
		if at == nil || !p7SetIdentity(si, cert) {
			return
		}
		tbs := at.encode()
		tbs[0] = 0x31
		h := sha256.Sum256(tbs)
		sig := sigOf(h[:])
		if sig == nil || !p7SetSignature(si, sig) {
			return
		}
		emit(class, r.encode())
	}
	cat := func(parts ...[]byte) []byte { return bytes.Join(parts, nil) }
	ff := func(n int) []byte { return bytes.Repeat([]byte{0xff}, n) }
	if pub.E <= 17 {
		for _, v := range []struct {
			name   string
			prefix []byte
			pad    int
		}{
			{"octets-behind-digest-info", sha256DigestInfoPrefix, 8},
			{"octets-behind-digest-info/no-null-parameters", sha256DigestInfoPrefixNoNull, 8},
			{"octets-behind-digest-info/one-padding-octet", sha256DigestInfoPrefix, 1},
			{"octets-behind-digest-info/no-padding-octets", sha256DigestInfoPrefix, 0},
		} {
			v := v
			with(fmt.Sprintf("forge-rsa-block/from-the-public-key-alone/e=%d/%s", pub.E, v.name), func(h []byte) []byte {
				head := cat([]byte{0x00, 0x01}, ff(v.pad), []byte{0x00}, v.prefix, h)
				if len(head) >= k {
					return nil
				}
				lo := new(big.Int).SetBytes(cat(head, make([]byte, k-len(head))))
				s := intRoot(lo, pub.E)
				em := make([]byte, k)
				p := new(big.Int).Exp(s, big.NewInt(int64(pub.E)), nil)
				if p.Cmp(pub.N) >= 0 || p.BitLen() > 8*k {
					return nil
				}
				p.FillBytes(em)
				if !bytes.HasPrefix(em, head) {
					return nil // the root does not leave the chosen octets in place for this key size / exponent
				}
				return s.FillBytes(make([]byte, k))
			})
		}
	}
	if key == nil || key.N.Cmp(pub.N) != 0 {
		return
	}
	raw := func(em []byte) []byte { // the private-key operation on a block of the caller's choice
		m := new(big.Int).SetBytes(em)
		if m.Cmp(key.N) >= 0 {
			return nil
		}
		return new(big.Int).Exp(m, key.D, key.N).FillBytes(make([]byte, k))
	}
	std := func(di []byte) []byte { return cat([]byte{0x00, 0x01}, ff(k-3-len(di)), []byte{0x00}, di) }
	for _, v := range []struct {
		name string
		em   func(h []byte) []byte
	}{
		{"octets-behind-digest-info", func(h []byte) []byte {
			di := cat(sha256DigestInfoPrefix, h)
			return cat([]byte{0x00, 0x01}, ff(k-3-len(di)-40), []byte{0x00}, di, bytes.Repeat([]byte{0xa5}, 40))
		}},
		{"no-null-parameters", func(h []byte) []byte { return std(cat(sha256DigestInfoPrefixNoNull, h)) }},
		{"four-padding-octets-behind-leading-zeros", func(h []byte) []byte {
			di := cat(sha256DigestInfoPrefix, h)
			return cat(make([]byte, k-7-len(di)), []byte{0x00, 0x01}, ff(4), []byte{0x00}, di)
		}},
		{"block-type-02", func(h []byte) []byte {
			em := std(cat(sha256DigestInfoPrefix, h))
			em[1] = 0x02
			return em
		}},
		{"padding-octet-not-ff", func(h []byte) []byte {
			em := std(cat(sha256DigestInfoPrefix, h))
			em[2+(k-54)/2] = 0xfe
			return em
		}},
		{"ber-lengths-in-digest-info", func(h []byte) []byte {
			return std(cat([]byte{0x30, 0x81, 0x33, 0x30, 0x81, 0x0d}, sha256DigestInfoPrefix[4:17], []byte{0x04, 0x81, 0x20}, h))
		}},
		{"digest-of-other-attributes", func(h []byte) []byte {
			o := sha256.Sum256(h)
			return std(cat(sha256DigestInfoPrefix, o[:]))
		}},
	} {
		v := v
		with("forge-rsa-block/made-with-the-private-key/"+v.name, func(h []byte) []byte { return raw(v.em(h)) })
	}
}

// attribute types under which tools carry a whole SignedData in the UNSIGNED attributes of a signer entry
var nestingAttrOIDs = []struct {
	name string
	der  []byte
}{
	{"spc-nested-signature", []byte{0x2b, 0x06, 0x01, 0x04, 0x01, 0x82, 0x37, 0x02, 0x04, 0x01}},     // 1.3.6.1.4.1.311.2.4.1
	{"ms-rfc3161-timestamp", []byte{0x2b, 0x06, 0x01, 0x04, 0x01, 0x82, 0x37, 0x03, 0x03, 0x01}},     // 1.3.6.1.4.1.311.3.3.1
	{"aa-timestamp-token", []byte{0x2a, 0x86, 0x48, 0x86, 0xf7, 0x0d, 0x01, 0x09, 0x10, 0x02, 0x0e}}, // 1.2.840.113549.1.9.16.2.14
	{"unknown-attribute", []byte{0x88, 0x37, 0x81, 0xcb, 0xad, 0x07, 0x01}},                          // 2.999.…
}

// p7Carriers emits `outer` with the blob `inner` placed in every position of a SignedData that can hold one
func p7Carriers(outer, inner []byte, emit func(position string, b []byte)) {
	or, ok1 := parseDER(outer)
	ir, ok2 := parseDER(inner)
	if !ok1 || !ok2 || len(or) != 1 || len(ir) != 1 {
		return
	}
	in := ir[0]
	inSD := p7SignedDataOf(in)
	var inSigners []*derNode
	if len(inSD.kids) > 0 && inSD.kids[len(inSD.kids)-1].tag == 0x31 {
		inSigners = inSD.kids[len(inSD.kids)-1].kids
	}
	edit := func(pos string, f func(r, sd, signers *derNode) bool) {
		r := or[0].clone()
		sd := p7SignedDataOf(r)
		if len(sd.kids) < 4 || sd.kids[len(sd.kids)-1].tag != 0x31 || len(sd.kids[len(sd.kids)-1].kids) == 0 {
			return
		}
		if f(r, sd, sd.kids[len(sd.kids)-1]) {
			emit(pos, r.encode())
		}
	}
	node := func(tag byte, kids ...*derNode) *derNode { return &derNode{tag: tag, compound: true, kids: kids} }
	unauth := func(si *derNode, attr *derNode) {
		if last := si.kids[len(si.kids)-1]; last.tag == 0xa1 && last.compound {
			last.kids = append(last.kids, attr)
			return
		}
		si.kids = append(si.kids, node(0xa1, attr))
	}
	// 1. unsigned attributes of the first and of the last signer entry
	for _, o := range nestingAttrOIDs {
		o := o
		edit("unsigned-attribute/"+o.name, func(r, sd, signers *derNode) bool {
			unauth(signers.kids[0], node(0x30, &derNode{tag: 0x06, leaf: o.der}, node(0x31, in.clone())))
			return true
		})
	}
	edit("unsigned-attribute/two-values", func(r, sd, signers *derNode) bool {
		o := nestingAttrOIDs[0]
		unauth(signers.kids[len(signers.kids)-1], node(0x30, &derNode{tag: 0x06, leaf: o.der}, node(0x31, in.clone(), in.clone())))
		return true
	})
	// a counter signature carries a signer entry, not a SignedData
	if len(inSigners) > 0 {
		edit("unsigned-attribute/countersignature", func(r, sd, signers *derNode) bool {
			unauth(signers.kids[0], node(0x30, &derNode{tag: 0x06, leaf: []byte{0x2a, 0x86, 0x48, 0x86, 0xf7, 0x0d, 0x01, 0x09, 0x06}}, node(0x31, inSigners[0].clone())))
			return true
		})
	}
	// 2. certificates, CRLs
	edit("extra-certificate", func(r, sd, signers *derNode) bool {
		for _, k := range sd.kids[3 : len(sd.kids)-1] {
			if k.tag == 0xa0 && k.compound {
				k.kids = append(k.kids, in.clone())
				return true
			}
		}
		return false
	})
	edit("crls", func(r, sd, signers *derNode) bool {
		n := len(sd.kids)
		sd.kids = append(sd.kids[:n-1:n-1], node(0xa1, in.clone()), signers)
		return true
	})
	// 3. content: a further element behind the content, a further field of the content info, the content itself
	edit("extra-content-element", func(r, sd, signers *derNode) bool {
		if len(sd.kids[2].kids) < 2 || !sd.kids[2].kids[1].compound {
			return false
		}
		sd.kids[2].kids[1].kids = append(sd.kids[2].kids[1].kids, in.clone())
		return true
	})
	edit("outside-the-syntax/extra-content-info-field", func(r, sd, signers *derNode) bool {
		if !sd.kids[2].compound {
			return false
		}
		sd.kids[2].kids = append(sd.kids[2].kids, in.clone())
		return true
	})
	edit("as-content", func(r, sd, signers *derNode) bool {
		if !sd.kids[2].compound || len(sd.kids[2].kids) != 1 {
			return false // only where the outer blob has no content of its own
		}
		sd.kids[2].kids = append(sd.kids[2].kids, node(0xa0, in.clone()))
		return true
	})
	// 4. the inner blob's signer entries next to the outer ones
	if len(inSigners) > 0 {
		edit("signer-entries-appended", func(r, sd, signers *derNode) bool {
			for _, e := range inSigners {
				signers.kids = append(signers.kids, e.clone())
			}
			return true
		})
		edit("signer-entries-prepended", func(r, sd, signers *derNode) bool {
			var ks []*derNode
			for _, e := range inSigners {
				ks = append(ks, e.clone())
			}
			signers.kids = append(ks, signers.kids...)
			return true
		})
	}
	// 5. trailing fields
	edit("outside-the-syntax/signed-data-trailing-field", func(r, sd, signers *derNode) bool {
		sd.kids = append(sd.kids, in.clone())
		return true
	})
	edit("outside-the-syntax/second-signed-data", func(r, sd, signers *derNode) bool {
		if sd == r || len(r.kids) != 2 {
			return false
		}
		r.kids[1].kids = append(r.kids[1].kids, inSD.clone())
		return true
	})
}

var altOIDs = []struct {
	name string
	der  []byte
}{
	{"sha384", []byte{0x60, 0x86, 0x48, 0x01, 0x65, 0x03, 0x04, 0x02, 0x02}},
	{"sha512", []byte{0x60, 0x86, 0x48, 0x01, 0x65, 0x03, 0x04, 0x02, 0x03}},
	{"sha1", []byte{0x2b, 0x0e, 0x03, 0x02, 0x1a}},
	{"sha256", []byte{0x60, 0x86, 0x48, 0x01, 0x65, 0x03, 0x04, 0x02, 0x01}},
	{"rsaEncryption", []byte{0x2a, 0x86, 0x48, 0x86, 0xf7, 0x0d, 0x01, 0x01, 0x01}},
	{"sha256WithRSA", []byte{0x2a, 0x86, 0x48, 0x86, 0xf7, 0x0d, 0x01, 0x01, 0x0b}},
	{"data", []byte{0x2a, 0x86, 0x48, 0x86, 0xf7, 0x0d, 0x01, 0x07, 0x01}},
}

// oidSwaps replaces, one at a time, every OBJECT IDENTIFIER outside the certificates by
// each alternative of altOIDs
func oidSwaps(blob []byte, emit func(class string, b []byte)) {
	roots, ok := parseDER(blob)
	if !ok || len(roots) == 0 {
		return
	}
	var idxs []int
	i := 0
	var inCerts func(n *derNode, depth int, under bool)
	inCerts = func(n *derNode, depth int, under bool) {
		me := i
		i++
		if n.tag == 0x06 && !under {
			idxs = append(idxs, me)
		}
		for _, k := range n.kids {
			// the [0] certificates field sits at depth 3 (ContentInfo > [0] > SignedData > [0]) or 1 for bare SignedData
			inCerts(k, depth+1, under || (k.tag == 0xa0 && len(k.kids) > 0 && k.kids[0].tag == 0x30 && len(k.kids[0].kids) == 3 && k.kids[0].kids[2].tag == 0x03))
		}
	}
	inCerts(roots[0], 0, false)
	for _, at := range idxs {
		for _, alt := range altOIDs {
			cl := roots[0].clone()
			j := 0
			var target *derNode
			cl.walk(nil, func(m, _ *derNode) {
				if j == at {
					target = m
				}
				j++
			})
			if target == nil || bytes.Equal(target.leaf, alt.der) {
				continue
			}
			target.leaf = append([]byte{}, alt.der...)
			emit(fmt.Sprintf("oid-swap/%d/%s", at, alt.name), cl.encode())
		}
	}
}

// tamperContent flips bits in the last sizeable leaf of the encapsulated content
func tamperContent(blob []byte) ([]byte, bool) {
	roots, ok := parseDER(blob)
	if !ok || len(roots) == 0 {
		return nil, false
	}
	r := roots[0].clone()
	sd := r
	if len(r.kids) == 2 && r.kids[0].tag == 0x06 && r.kids[1].tag == 0xa0 && len(r.kids[1].kids) == 1 {
		sd = r.kids[1].kids[0]
	}
	if len(sd.kids) < 3 || len(sd.kids[2].kids) < 2 {
		return nil, false
	}
	changed := false
	sd.kids[2].kids[1].walk(nil, func(n, _ *derNode) {
		if !n.compound && len(n.leaf) >= 20 && !changed {
			n.leaf[len(n.leaf)-1] ^= 0x55
			changed = true
		}
	})
	return r.encode(), changed
}

func c04Gen(c *Ctx) {
	seeds := p7Seeds(c, true)
	names := []string{}
	for _, s := range seeds {
		names = append(names, s.name)
	}
	c.Note("seeds", names)
	run := func(s p7Seed, class string, blob []byte, allCerts bool) {
		certs := []struct {
			kind string
			c    *x509.Certificate
		}{{"right", s.right}}
		if allCerts {
			certs = append(certs, struct {
				kind string
				c    *x509.Certificate
			}{"twin", s.twin}, struct {
				kind string
				c    *x509.Certificate
			}{"other", s.other})
			// same issuer and serial, but a key that is not an RSA key at all
			if s.right != nil && (class == "seed" || strings.HasPrefix(class, "forge") || strings.HasPrefix(class, "two-signers")) {
				certs = append(certs, struct {
					kind string
					c    *x509.Certificate
				}{"twin-ed25519", nonRSATwin(s.right, "ed25519")}, struct {
					kind string
					c    *x509.Certificate
				}{"twin-ecdsa", nonRSATwin(s.right, "ecdsa")})
			}
		}
		for _, kc := range certs {
			if kc.c == nil {
				continue
			}
			cs := Case{"op": "p7", "class": class, "certkind": kc.kind, "blob": hx(blob), "cert": hx(kc.c.Raw), "seed": s.name}
			if kc.kind != "right" && s.right != nil && (class == "seed" || strings.HasPrefix(class, "forge") || strings.HasPrefix(class, "two-signers")) {
				cs["prevcert"] = hx(s.right.Raw)
			}
			// the other order: the signer's certificate asked after a twin (same issuer and serial, another key) was
			if kc.kind == "right" && s.twin != nil && (class == "seed" || strings.HasPrefix(class, "forge") || strings.HasPrefix(class, "two-signers")) {
				cs["prevcert"] = hx(s.twin.Raw)
			}
			p7Eval(c, cs, "C04")
		}
	}
	// signer certificates by serial-number class, crossed with every encoding of the serial in the signer entry
	// (library-signed and OpenSSL-shaped blobs; the seed itself and the serial forgeries only, all certificates)
	{
		k0, k1 := poolKey(c, 2048, 0), poolKey(c, 2048, 1)
		for i, sh := range serialClassShapes() {
			if !c.Mine(i) {
				continue
			}
			right, twin, other := makeRSACert(k0, sh), makeRSACert(k1, sh), makeRSACert(k1, certShapes(c)[0])
			var blob []byte
			if i%2 == 0 {
				blob, _ = pkcs7.SignPKCS7(k0, right, pkcs7.OIDData, []byte("content under a serial class"))
			} else {
				blob = buildCMS(k0, right, []byte("content under a serial class"), i%4 == 1, false, true)
			}
			if blob == nil {
				continue
			}
			s := p7Seed{"serial-class/" + sh.desc, blob, right, twin, other, true}
			run(s, "seed", s.blob, true)
			serialForgeries(s, func(class string, b []byte) { run(s, class, b, true) })
		}
	}
	// what the signature VALUE holds (rsaBlockForgeries), for signer certificates with the usual public exponent and
	// with exponent 3: library-signed (detached data, attached SpcIndirectDataContent) and OpenSSL-shaped (attached)
	// blobs; each genuine blob under its signer's certificate and twins first (a key with exponent 3 signs and
	// verifies like any other), then every block class under the certificate it names
	{
		k1 := poolKey(c, 2048, 1)
		shapes := certShapes(c)
		for i, key := range []*rsa.PrivateKey{lowExponentKey(c, 2048, 3), poolKey(c, 2048, 0)} {
			if !c.Mine(i) {
				continue
			}
			for j, sh := range []certShape{shapes[3], shapes[9]} {
				right, twin, other := makeRSACert(key, sh), makeRSACert(k1, sh), makeRSACert(k1, shapes[0])
				var blob []byte
				switch (i + j) % 2 {
				case 0:
					blob, _ = pkcs7.SignPKCS7(key, right, pkcs7.OIDData, []byte("content under an exponent class"))
				default:
					blob = buildCMS(key, right, []byte("content under an exponent class"), true, j == 0, true)
				}
				if j == 1 && i == 0 {
					spc, _ := authenticode.CreateSpcIndirectDataContent(bytes.Repeat([]byte{0x3e}, 32), 0)
					blob, _ = pkcs7.SignPKCS7(key, right, authenticode.OIDSpcIndirectDataContent, spc)
				}
				if blob == nil {
					continue
				}
				s := p7Seed{fmt.Sprintf("exponent-class/e=%d/%s", key.E, sh.desc), blob, right, twin, other, true}
				run(s, "seed", s.blob, true)
				// the blocks made from the public key alone need no key of the signer: start from a blob somebody else signed
				foreign := buildCMS(k1, other, []byte("content under an exponent class"), true, false, true)
				rsaBlockForgeries(foreign, nil, right, nil, func(class string, b []byte) { run(s, class, b, false) })
				rsaBlockForgeries(s.blob, key, right, func(class string) bool { return strings.Contains(class, "made-with-the-private-key") }, func(class string, b []byte) { run(s, class, b, false) })
			}
		}
	}
	// the producer configurations of cmsVariantSeeds (other encapsulated content types, further signed attributes,
	// several signers with a digest algorithm each): the blob itself under every certificate, and the targeted
	// forgeries for every third of them (the generic mutations run on the seeds above)
	for vi, s := range cmsVariantSeeds(c) {
		if !c.Mine(vi) {
			continue
		}
		run(s, "seed", s.blob, true)
		if vi%3 == 0 || c.Thorough {
			forgeries(c, s, func(class string, b []byte) {
				if !strings.HasPrefix(class, "oid-swap") || c.Thorough {
					run(s, class, b, false)
				}
			})
		}
	}
	for si, s := range seeds {
		if !c.Mine(si) { // thorough tier: the seeds are divided among the shard processes
			continue
		}
		run(s, "seed", s.blob, true)
		forgeries(c, s, func(class string, b []byte) { run(s, class, b, !strings.HasPrefix(class, "oid-swap") || c.Thorough) })
		mutateBlob(c, s.blob, func(class string, b []byte) { run(s, class, b, c.Rng.Intn(8) == 0) })
		if c.NFailures() >= 8 {
			return
		}
	}
}

func init() {
	register("C04", &PropDef{
		Rule:   "seeds: library-signed data (detached) and SpcIndirectDataContent blobs under six certificate shapes (one CA-issued with issuer different from subject, one whose own signature is sha384WithRSA, one with a hand-encoded UTF8String/emailAddress name), the sbsign/sbvarsign fixtures of the repository, OpenSSL smime/cms blobs when the CLI is present (including -noattr: signer entries without signed attributes, the signature made directly over the content octets, RFC 2315 section 9.3), OpenSSL-shaped CMS blobs built in the harness (with and without signed attributes, attached and detached); each verified under the signer's certificate, a twin certificate (same issuer and serial, another RSA key), Ed25519 and ECDSA twins (same issuer and serial, no RSA key at all) and an unrelated one. Derived blobs: single-bit/byte changes (quick: 40 stratified positions; thorough: every position of blobs <= 2 KiB), a bit flip inside every DER leaf (signature, digest, integers, OIDs), delete/duplicate/swap of the children of every constructed node, truncations, and targeted forgeries (content, content type, certificates, signer identity, message digest, dropped signed attributes, the signed attributes dropped AND the octets that were signed (their DER SET) moved to where the content is - as the contents octets of an OCTET STRING / of a SEQUENCE / as the SET itself, under the original content type and under data -, so that the genuine signature is one over the content of a blob that has no signed attributes and no message digest at all, every object identifier outside the certificates replaced by each of seven sibling OIDs alone and together with a content change, six two-signer-entry combinations of {names the certificate, names another} x {valid, damaged signature}, six two-signer-entry combinations over replaced content of {names the certificate, names another} x {original attributes, attributes of the same length re-bound to the replaced content (messageDigest := its SHA-256)} under the original signature in both orders - including forged entry first, original attributes second -, the single re-bound entry, the blob consistently re-signed by another key over replaced content,, replaced content with the unauthenticatedAttributes [1] field of the signer entry holding attributes of the types that bind content in the SIGNED set (a lone messageDigest of the replaced content; contentType + signingTime + that messageDigest; a copy of the whole signed set re-bound to the replaced content) under the original signed attributes and signature - and, with the content kept, an unsigned messageDigest of other content, which must change nothing -, the signer entry's serial number re-encoded in every way that keeps 'the same octets' but is another number or no DER (the 00 pad octet of a serial whose leading octet has its top bit set dropped = a negative number, the top bit of the leading octet set, one / two 00 pad octets added, an ff octet added, the number negated, an empty INTEGER) - for every seed and for ten further signer certificates chosen by serial class (top bit of the leading octet set in 1, 2, 3, 8 and 20 octets, all ones, 7f / 7fff without pad, an inner zero octet; library-signed and OpenSSL-shaped blobs alternating) -, and that re-signed blob carrying the genuine one (and the reverse) in every place that can hold a blob: unsigned attributes of a signer entry under the SpcNestedSignature / MS RFC 3161 timestamp / timeStampToken / an unknown attribute type with one and two values, a counter-signature attribute holding the other blob's signer entry, an extra certificate, the CRL field, the content or a further content element, the other blob's signer entries appended / prepended, trailing fields of SignedData and of the content info, a second SignedData). On seeds and targeted forgeries the question is also asked of ONE parsed object that answers for several certificates in turn, in both orders: the twin / unrelated / non-RSA certificate after the signer's certificate (Verify(signer), Verify(this), Verify(signer), Verify(this)) and the signer's certificate after a twin with the same issuer and serial (Verify(twin), Verify(signer), Verify(twin), Verify(signer)); the answer must be the one a fresh object gives. On the same classes (and an eighth of the random mutations) the blob is also verified as the certificate data of an authenticated-variable descriptor (EFIVariableAuthentication2.Verify) and a success there is judged by the Spec as well. Further targeted forgeries on every seed: the encapsulated content replaced by - or, for a detached blob, attached as - an element whose VALUE is empty (30 00, 04 00, 05 00, 31 00) with attributes and signature kept (content is then present and its zero contents octets have to match the signed digest: presence is decided by the element, not by its length); the octets inside the [0] of the encapsulated content made something that is NOT one well-formed element, attributes and signature kept - one length octet of the content element +1, each single bit of each length octet set (quick: bits 0, 1 and 7, and bit 6 of the first; the declared length then reaches past the end of the [0] wrapper; bit 7 of a short-form octet turns it into a long-form introducer), the element's last octet cut off, and the content replaced by (for a detached blob: attached as) octets that are no DER: text, a lone identifier octet, a long-form introducer without / with too few length octets, a declared length of 2^32-1, ff octets, an indefinite-length element - stand-alone and as the certificate data of an authenticated-variable descriptor: there are no contents octets the signed digest could equal, so an error or a negative result, never success; and, where the harness holds the signer's key, the signer entry re-made by that key under another digest algorithm (digestAlgorithm, message digest of the content and RSA PKCS#1 v1.5 signature all under SHA-1 / SHA-384 / SHA-512 - what openssl cms -md ... emits -, and label and hash disagreeing: named SHA-256 / made with SHA-512, named SHA-512 / made with SHA-256): consistent, by the right key, but no RSA-SHA256 signature and no SHA-256 message digest. Signature VALUES and public exponents: library-signed (detached data, attached SpcIndirectDataContent) and OpenSSL-shaped blobs under signer certificates with exponent 65537 and with exponent 3 (self-signed and CA-issued; the genuine blob under signer, twins and a stranger), then a blob naming the exponent-3 certificate whose signature value is the integer cube root of 00 01 FF*n 00 DigestInfo(SHA-256 of the attributes) || free octets (n = 8, 1, 0; DigestInfo with and without NULL parameters), computed from the public key alone, and for both exponents values made with the private key over blocks that deviate from EMSA-PKCS1-v1_5 in one respect (octets behind the DigestInfo, NULL absent, four padding octets behind leading zeros, block type 02, a padding octet not FF, BER lengths in the DigestInfo, digest of other attributes). The producer configurations of C16 (encapsulated content types of 3..38 DER octets, additional signed attributes of every size class, two and three signers with SHA-1 / SHA-256 / SHA-384 / SHA-512 each, attached and detached, the SHA-256 signer first or last) as seeds under every certificate incl. the co-signer's own (whose SHA-1/384/512 entry must not verify), with the targeted forgeries on a third of them. Every case is non-trivial; distinct = distinct (blob, certificate).",
		Assume: []string{"x509.ParseCertificates and Certificate.CheckSignature are opaque Go library code; RSA/SHA-256 on the model side are the executable Lean implementations, compared with Go's verdict on every case"},
		Eval:   c04Eval, Gen: c04Gen,
	})
}
