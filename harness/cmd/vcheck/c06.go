package main

import (
	"bytes"
	"crypto"
	"encoding/binary"
	"fmt"
	"io"
	"strconv"
	"strings"
	"time"
	"unicode/utf8"

	"github.com/foxboron/go-uefi/efi/attributes"
	"github.com/foxboron/go-uefi/efi/signature"
	"github.com/foxboron/go-uefi/efi/util"
	"github.com/foxboron/go-uefi/efivar"
	"github.com/foxboron/go-uefi/pkcs7"
)

type rawValue []byte

func (r rawValue) Marshal(b *bytes.Buffer) { b.Write(r) }
func (r rawValue) Bytes() []byte           { return r }

func init() {
	// worker side: sign a variable update in this process (whose TZ the parent chose)
	workerOps["var.sign"] = func(a map[string]string) (string, string) {
		key := poolKeyDir(a["verif"], 2048, atoi(a["key"]))
		cert := makeRSACert(key, certShapes(nil)[atoi(a["shape"])%len(certShapes(nil))])
		g := guidFromWire(unhx(a["guid"]))
		attrs, _ := strconv.ParseUint(a["attrs"], 10, 32)
		v := efivar.Efivar{Name: string(unhx(a["name"])), GUID: &g, Attributes: attributes.Attributes(attrs)}
		var signer crypto.Signer = key
		if d := atoi(a["slow"]); d > 0 {
			// a signer that takes longer than a second (a token, an HSM): the clock moves during the call
			signer = slowSigner{key, time.Duration(d) * time.Millisecond}
		}
		if n := atoi(a["busy"]); n > 0 {
			// a signer that is busy for its first n calls (a token in use) and works afterwards
			signer = &busySigner{Signer: signer, left: n}
		}
		// the caller's own value object: it changes after the call returned (the next update is prepared)
		mv := &mutValue{b: unhx(a["payload"])}
		t0 := time.Now().UTC()
		_, m, err := signature.SignEFIVariable(v, mv, signer, cert)
		for try := 0; err != nil && try < atoi(a["busy"]); try++ {
			// the caller asks again, as it would with a busy token
			t0 = time.Now().UTC()
			_, m, err = signature.SignEFIVariable(v, mv, signer, cert)
		}
		t1 := time.Now().UTC()
		if err != nil {
			return "err", err.Error()
		}
		// a caller that prepares several updates first and writes them afterwards: every result is held
		// while the later ones are signed (same goroutine, same process) and marshalled only at the end
		type held struct {
			m      efivar.Marshallable
			mv     *mutValue
			t0, t1 time.Time
		}
		all := []held{{m, mv, t0, t1}}
		for k, it := range c06ParseThen(a["then"]) {
			g := guidFromWire(it.guid)
			kv := efivar.Efivar{Name: string(it.name), GUID: &g, Attributes: attributes.Attributes(it.attrs)}
			kkey := poolKeyDir(a["verif"], 2048, it.key)
			kcert := makeRSACert(kkey, certShapes(nil)[it.shape%len(certShapes(nil))])
			kmv := &mutValue{b: it.payload}
			k0 := time.Now().UTC()
			_, km, err := signature.SignEFIVariable(kv, kmv, kkey, kcert)
			k1 := time.Now().UTC()
			if err != nil {
				return "err", fmt.Sprintf("update %d of the sequence: %v", k+1, err)
			}
			all = append(all, held{km, kmv, k0, k1})
		}
		var lines []string
		for _, h := range all {
			if a["mutate"] == "1" {
				if len(h.mv.b) > 0 {
					h.mv.b[0] ^= 0xff
				}
				h.mv.b = append(h.mv.b, []byte("-the-next-update")...)
			}
			var buf bytes.Buffer
			h.m.Marshal(&buf)
			lines = append(lines, fmt.Sprintf("%s %d %d %s", hx(buf.Bytes()), h.t0.Unix(), h.t1.Unix(), hx(h.m.Bytes())))
		}
		return "ok", strings.Join(lines, "\n")
	}
}

// c06Upd is one update of a sequence signed by one caller: what is signed and by whom
type c06Upd struct {
	name, guid, payload []byte
	attrs               uint32
	key, shape          int
}

// the later updates of a sequence travel as "name,guid,attrs,payload,key,shape;..." (hex fields)
func c06FormatThen(us []c06Upd) string {
	var parts []string
	for _, u := range us {
		parts = append(parts, fmt.Sprintf("%s,%s,%d,%s,%d,%d", hx(u.name), hx(u.guid), u.attrs, hx(u.payload), u.key, u.shape))
	}
	return strings.Join(parts, ";")
}

func c06ParseThen(s string) []c06Upd {
	var us []c06Upd
	for _, p := range strings.Split(s, ";") {
		f := strings.Split(p, ",")
		if len(f) != 6 {
			continue
		}
		at, _ := strconv.ParseUint(f[2], 10, 32)
		us = append(us, c06Upd{name: unhx(f[0]), guid: unhx(f[1]), attrs: uint32(at), payload: unhx(f[3]), key: atoi(f[4]), shape: atoi(f[5])})
	}
	return us
}

// mutValue is a Marshallable the caller keeps using after the call
type mutValue struct{ b []byte }

func (r *mutValue) Marshal(b *bytes.Buffer) { b.Write(r.b) }
func (r *mutValue) Bytes() []byte           { return r.b }

type busySigner struct {
	crypto.Signer
	left int
}

func (s *busySigner) Sign(r io.Reader, digest []byte, opts crypto.SignerOpts) ([]byte, error) {
	if s.left > 0 {
		s.left--
		return nil, fmt.Errorf("token busy")
	}
	return s.Signer.Sign(r, digest, opts)
}

type slowSigner struct {
	crypto.Signer
	d time.Duration
}

func (s slowSigner) Sign(r io.Reader, digest []byte, opts crypto.SignerOpts) ([]byte, error) {
	time.Sleep(s.d)
	return s.Signer.Sign(r, digest, opts)
}

func atoi(s string) int { n, _ := strconv.Atoi(s); return n }

var c06Workers = map[string]*Worker{}

func c06Worker(c *Ctx, tz string) *Worker {
	if w, ok := c06Workers[tz]; ok {
		return w
	}
	w := c.NewWorker(4<<20, "TZ="+tz)
	c06Workers[tz] = w
	return w
}

func c06Eval(c *Ctx, cs Case) {
	tz := cs.S("tz")
	first := c06Upd{name: unhx(cs.S("name")), guid: unhx(cs.S("guid")), payload: unhx(cs.S("payload")), attrs: uint32(cs.I("attrs")), key: int(cs.I("key")), shape: int(cs.I("shape"))}
	seq := append([]c06Upd{first}, c06ParseThen(cs.S("then"))...)
	c.Count(cs.Key(), true, fmt.Sprintf("varsign/%s/%s/payload%s", tz, cs.S("class"), sizeClass(len(first.payload))))
	c.Sample(cs)
	res := c06Worker(c, tz).Do("var.sign", map[string]string{"verif": c.VerifDir, "key": fmt.Sprint(first.key), "shape": fmt.Sprint(first.shape), "name": hx(first.name), "guid": hx(first.guid),
		"attrs": fmt.Sprint(first.attrs), "payload": hx(first.payload), "slow": fmt.Sprint(cs.I("slow")), "busy": fmt.Sprint(cs.I("busy")), "mutate": fmt.Sprint(cs.I("mutate")), "then": cs.S("then")}, 20*time.Second)
	if res.Class != "ok" {
		c.Fail(Failure{Kind: "property", What: "SignEFIVariable did not return a signed update", Case: cs, Go: clip(res.Class + " " + res.Out + res.Panic), Spec: "ok"})
		return
	}
	lines := strings.Split(res.Out, "\n")
	if len(lines) != len(seq) {
		c.Fail(Failure{Kind: "property", What: "the worker did not hand back one result per update of the sequence", Case: cs, Go: fmt.Sprint(len(lines)), Spec: fmt.Sprint(len(seq))})
		return
	}
	// every update of the sequence is held to the same statement, whenever its bytes are taken: the
	// earlier ones were marshalled only after the later ones had been signed
	for k, u := range seq {
		where := ""
		if len(seq) > 1 {
			where = fmt.Sprintf("update %d of %d signed by one caller, all marshalled after the last was signed: ", k+1, len(seq))
		}
		c06CheckUpdate(c, cs, tz, where, u, strings.Fields(lines[k]))
	}
}

// c06CheckUpdate holds the bytes of one signed update against the layout and binding of the property
func c06CheckUpdate(c *Ctx, cs Case, tz, where string, u c06Upd, f []string) {
	name, guid, payload, attrs, keyIdx, shape := u.name, u.guid, u.payload, u.attrs, u.key, u.shape
	fail := func(what, goObs, spec, matcher string) {
		c.Fail(Failure{Kind: "property", Matcher: matcher, What: where + what, Case: cs, Go: clip(goObs), Spec: clip(spec)})
	}
	if len(f) != 4 {
		return
	}
	out := unhx(f[0])
	t0, _ := strconv.ParseInt(f[1], 10, 64)
	t1, _ := strconv.ParseInt(f[2], 10, 64)
	if f[3] != f[0] {
		fail("Marshal and Bytes of the returned value differ", f[3][:min(len(f[3]), 40)], "", "")
	}
	key := poolKey(c, 2048, keyIdx)
	cert := makeRSACert(key, certShapes(c)[shape%len(certShapes(c))])
	// ---- independent layout oracle (UEFI 2.8 section 8.2.2) ----
	if len(out) < 40 {
		fail("output shorter than the fixed part of the descriptor", hx(out), "", "")
		return
	}
	tm := out[:16]
	year := int(binary.LittleEndian.Uint16(tm))
	stamp := time.Date(year, time.Month(tm[2]), int(tm[3]), int(tm[4]), int(tm[5]), int(tm[6]), 0, time.UTC).Unix()
	if stamp < t0-1 || stamp > t1+1 {
		fail("the timestamp is not the current time in UTC", fmt.Sprintf("%04d-%02d-%02d %02d:%02d:%02d under TZ=%s", year, tm[2], tm[3], tm[4], tm[5], tm[6], tz),
			time.Unix(t0, 0).UTC().Format("2006-01-02 15:04:05")+" UTC", "c06.local_time")
	}
	if !bytes.Equal(tm[7:], make([]byte, 9)) {
		fail("pad / nanosecond / timezone / daylight fields of the timestamp are not zero", hx(tm), "", "")
	}
	dw := int(binary.LittleEndian.Uint32(out[16:]))
	rev, typ := binary.LittleEndian.Uint16(out[20:]), binary.LittleEndian.Uint16(out[22:])
	pk7 := []byte{0x9d, 0xd2, 0xaf, 0x4a, 0xdf, 0x68, 0xee, 0x49, 0x8a, 0xa9, 0x34, 0x7d, 0x37, 0x56, 0x65, 0xa7}
	if rev != 0x0200 || typ != 0x0EF1 || !bytes.Equal(out[24:40], pk7) {
		fail("WIN_CERTIFICATE_UEFI_GUID header: revision, type or type GUID wrong", hx(out[16:40]), "rev 0x0200 type 0x0EF1 PKCS7 GUID", "")
	}
	if dw < 24 || 16+dw > len(out) || !bytes.Equal(out[16+dw:], payload) {
		fail("dwLength does not delimit the descriptor (24 + signature length), or the payload does not follow unchanged", fmt.Sprintf("dwLength=%d len=%d payload=%d", dw, len(out), len(payload)), "", "")
		return
	}
	sd := out[40 : 16+dw]
	// bare DER SignedData (not wrapped in a ContentInfo)
	if len(sd) < 2 || sd[0] != 0x30 {
		fail("the signature is not a bare SignedData SEQUENCE", hx(sd[:min(len(sd), 16)]), "", "")
		return
	}
	if r, ok := parseDER(sd); !ok || len(r) != 1 || len(r[0].kids) < 4 || r[0].kids[0].tag != 0x02 {
		fail("the signature is not a bare DER SignedData (first field must be the version INTEGER)", hx(sd[:min(len(sd), 24)]), "", "")
		return
	}
	// binding: detached SHA-256 signature over name(UTF-16LE, unterminated) || GUID || attributes || timestamp || payload
	var want bytes.Buffer
	for _, ch := range name {
		want.Write([]byte{ch, 0})
	}
	want.Write(guid)
	binary.Write(&want, binary.LittleEndian, attrs)
	want.Write(tm)
	want.Write(payload)
	if acc, parsed := stdVerify(sd, cert, want.Bytes()); !parsed || !acc {
		fail("an independent PKCS#7 verifier does not accept the signature over name||GUID||attributes||timestamp||payload", fmt.Sprintf("parsed=%v accepted=%v", parsed, acc), "accepted", "")
	}
	wrapped := append(append([]byte{0x30}, derLen(len(sd)+15)...), append([]byte{0x06, 0x09, 0x2a, 0x86, 0x48, 0x86, 0xf7, 0x0d, 0x01, 0x07, 0x02, 0xa0}, append(derLen(len(sd)), sd...)...)...)
	_ = wrapped
	if acc, parsed := mozVerify(rewrapSignedData(sd), cert, want.Bytes()); !parsed || !acc {
		fail("go.mozilla.org/pkcs7 does not accept the signature over the signed buffer", fmt.Sprintf("parsed=%v accepted=%v", parsed, acc), "accepted", "")
	}
	if _, sp := askVerify(c, sd, cert, want.Bytes()); sp != "true" {
		fail("Spec.cmsVerify does not accept the signature over the signed buffer", sp, "true", "")
	}
	// ... and over nothing else: the usual wrong variants
	wrongs := map[string][]byte{}
	{
		var b bytes.Buffer // NUL-terminated name
		for _, ch := range name {
			b.Write([]byte{ch, 0})
		}
		b.Write([]byte{0, 0})
		b.Write(guid)
		binary.Write(&b, binary.LittleEndian, attrs)
		b.Write(tm)
		b.Write(payload)
		wrongs["terminated-name"] = b.Bytes()
		var b2 bytes.Buffer // attributes before GUID
		for _, ch := range name {
			b2.Write([]byte{ch, 0})
		}
		binary.Write(&b2, binary.LittleEndian, attrs)
		b2.Write(guid)
		b2.Write(tm)
		b2.Write(payload)
		wrongs["attrs-before-guid"] = b2.Bytes()
		wrongs["without-timestamp"] = append(append([]byte{}, want.Bytes()[:len(want.Bytes())-len(payload)-16]...), payload...)
		wrongs["payload-plus-byte"] = append(append([]byte{}, want.Bytes()...), 0)
	}
	for k, w := range wrongs {
		if bytes.Equal(w, want.Bytes()) {
			continue
		}
		if acc, _ := stdVerify(sd, cert, w); acc {
			fail("the signature also verifies over a different buffer ("+k+")", "accepted", "rejected", "")
		}
	}
	// the library's own reader and verifier on its output
	var d signature.EFIVariableAuthentication2
	buf := bytes.NewBuffer(append([]byte{}, out...))
	if pan, msg := safely(func() {
		if err := d.Unmarshal(buf); err != nil {
			fail("the library's descriptor reader rejects its own output", err.Error(), "", "")
		} else if ok, err := d.Verify(cert); err != nil || !ok {
			fail("the library's verifier rejects its own signed update", fmt.Sprint(ok, err), "true", "")
		}
	}); pan {
		fail("reading back the signed update panicked", msg, "", "")
	}
	// ---- byte-exact correspondence with the Lean model ----
	p7, err := pkcs7.ParsePKCS7(sd)
	if err != nil || len(p7.SignerInfo) != 1 || p7.SignerInfo[0].AuthenticatedAttributes == nil {
		return
	}
	si := p7.SignerInfo[0]
	c.Trace()
	m := c.Drv.Ask("var.sign", hx(name), hx(guid), fmt.Sprint(attrs), fmt.Sprint(year), fmt.Sprint(tm[2]), fmt.Sprint(tm[3]), fmt.Sprint(tm[4]), fmt.Sprint(tm[5]), fmt.Sprint(tm[6]),
		hx(payload), hx(cert.Raw), hx(cert.RawIssuer), cert.SerialNumber.String(), hx([]byte(si.AuthenticatedAttributes.SigningTime.Format("060102150405Z0700"))), hx(si.EncryptedDigest))
	if !strings.HasPrefix(m, "ok "+hx(out)+" buf="+hx(want.Bytes())) {
		c.Fail(Failure{Kind: "tie", What: "SignEFIVariable: the Lean model does not reproduce the output / signed buffer byte for byte", Case: cs, Model: clip(m), Go: clip(hx(out))})
	}
	// ---- the code TRANSLATED from the Go source (Gen.lean: signature.SignEFIVariable) against the real library ----
	// given the clock value and the bare SignedData observed above, the translated function must return these very
	// bytes, and the buffer it hands to SignPKCS7 must be the buffer that the independent verifiers accepted
	if c.GenDrv != nil && utf8.Valid(name) {
		g := c.GenDrv.Ask("gen.varsign", hx(name), hx(guid), fmt.Sprint(attrs), hx(tm), hx(payload), hx(sd))
		c.genTies++
		c.notes["translated_code_ties"] = c.genTies
		if g != "ok "+hx(out)+" buf="+hx(want.Bytes()) {
			c.Fail(Failure{Kind: "tie", What: where + "SignEFIVariable: the code translated from the Go source (Gen.lean) does not reproduce the library's output / the signed buffer byte for byte", Case: cs, Model: "translated: " + clip(g), Go: clip("ok " + hx(out) + " buf=" + hx(want.Bytes()))})
		}
	}
	_ = util.SizeofEFIGUID
}

// mozilla's parser wants the outer ContentInfo
func rewrapSignedData(sd []byte) []byte {
	inner := append(append([]byte{0xa0}, derLen(len(sd))...), sd...)
	body := append([]byte{0x06, 0x09, 0x2a, 0x86, 0x48, 0x86, 0xf7, 0x0d, 0x01, 0x07, 0x02}, inner...)
	return append(append([]byte{0x30}, derLen(len(body))...), body...)
}

func c06Gen(c *Ctx) {
	defer func() {
		for _, w := range c06Workers {
			w.Close()
		}
	}()
	// one zone without DST, and DST zones of both hemispheres so that one of them is in DST at any date
	tzs := []string{"UTC", "Asia/Tokyo", "America/St_Johns", "Pacific/Auckland"}
	globalG := wireGUID(attributes.EFI_GLOBAL_VARIABLE)
	secdb := wireGUID(attributes.EFI_IMAGE_SECURITY_DATABASE_GUID)
	type nv struct {
		name string
		guid []byte
	}
	names := []nv{{"PK", globalG}, {"KEK", globalG}, {"db", secdb}, {"dbx", secdb}, {"SecureBoot", globalG}, {"BootOrder", globalG}, {"x", randBytes(c, 16)}, {"A-long_variable.Name0123456789", randBytes(c, 16)}, {"", globalG}}
	u := newC09Universe(c)
	payloads := map[string][]byte{"empty-db": nil, "hash-list": encodeList(tSHA256, nil, 48, [][2][]byte{{u.owners[0], u.data[0]}, {u.owners[1], u.data[1]}}),
		"cert-list": encodeList(tX509, nil, len(u.data[4])+16, [][2][]byte{{u.owners[0], u.data[4]}}), "raw1": {0x01}, "raw": randBytes(c, 300)}
	pk := []string{"empty-db", "hash-list", "cert-list", "raw1", "raw"}
	masks := []uint32{0x27, 0x67, 0x07, 0x00, 0xffffffff, 0x40}
	i := 0
	for _, tz := range tzs {
		for n := 0; n < c.N(14, 1500) && c.NFailures() < 6; n++ {
			v := names[(i+n)%len(names)]
			p := pk[c.Rng.Intn(len(pk))]
			cs := Case{"op": "varsign", "tz": tz, "class": p, "name": hx([]byte(v.name)), "guid": hx(v.guid), "attrs": int64(masks[c.Rng.Intn(len(masks))]),
				"payload": hx(payloads[p]), "key": int64(c.Rng.Intn(2)), "shape": int64(c.Rng.Intn(9)), "mutate": int64(n % 2), "busy": int64([]int{0, 0, 0, 1, 2}[n%5])}
			if n%3 == 2 {
				// a caller that signs two or three updates (other variables, other payloads - smaller, equal
				// and larger ones -, possibly another key) and only then writes them out
				var then []c06Upd
				class := p + "/then"
				for k := 0; k < 1+c.Rng.Intn(2); k++ {
					kv, kp := names[c.Rng.Intn(len(names))], pk[c.Rng.Intn(len(pk))]
					then = append(then, c06Upd{name: []byte(kv.name), guid: kv.guid, attrs: masks[c.Rng.Intn(len(masks))], payload: payloads[kp], key: c.Rng.Intn(2), shape: c.Rng.Intn(9)})
					class += "-" + kp
				}
				cs["class"], cs["then"] = class, c06FormatThen(then)
			}
			c06Eval(c, cs)
			i++
		}
	}
	// a signer slower than one second: the timestamp signed and the timestamp emitted must be the same reading
	for n := 0; n < c.N(2, 40) && c.NFailures() < 6; n++ {
		v := names[n%len(names)]
		p := pk[c.Rng.Intn(len(pk))]
		c06Eval(c, Case{"op": "varsign", "tz": tzs[n%len(tzs)], "class": p + "/slow-signer", "name": hx([]byte(v.name)), "guid": hx(v.guid), "attrs": int64(masks[c.Rng.Intn(len(masks))]),
			"payload": hx(payloads[p]), "key": int64(c.Rng.Intn(2)), "shape": int64(c.Rng.Intn(9)), "slow": int64(1100)})
	}
}

func init() {
	register("C06", &PropDef{
		Rule:   "signed updates for the standard secure-boot variables and arbitrary ASCII names (incl. empty and long), the global / image-security / random GUIDs, attribute masks {0x27, 0x67 (APPEND_WRITE), 7, 0, 0x40, all ones}, payloads {empty database, SHA-256 list, certificate list, one byte, 300 raw bytes}, two RSA keys x 9 certificate shapes, each produced in worker processes started with TZ=UTC, Asia/Tokyo, America/St_Johns and Pacific/Auckland (DST zones of both hemispheres), plus updates signed through a crypto.Signer that takes 1.1 s so that the clock moves during the call; in every second case the caller's value object is changed after the call and before the result is marshalled, and in two of five the signer is busy (returns an error) for its first one or two calls and the caller asks again; every third case is a SEQUENCE of two or three updates (other variables, masks, keys, payloads smaller / equal / larger than the earlier ones) signed one after the other by one caller in one process, whose results are all held and marshalled only after the last one was signed - each of them must still be the update that was signed. Layout is checked by an independent parser, the binding by encoding/asn1+crypto/rsa, go.mozilla.org/pkcs7 and the Lean Spec over the rebuilt buffer and over four wrong buffers; the output is reproduced byte for byte by the Lean model. Every case is non-trivial; distinct = distinct (zone, name, GUID, mask, payload, key, shape).",
		Assume: []string{"variable names are ASCII (the property's domain); time is bracketed by the worker around the call (±1 s)"},
		Eval:   c06Eval, Gen: c06Gen,
	})
}
