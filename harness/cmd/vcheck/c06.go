package main

import (
	"bytes"
	"crypto"
	"crypto/x509"
	"encoding/binary"
	"errors"
	"fmt"
	"io"
	"os"
	"sort"
	"strconv"
	"strings"
	"time"
	"unicode/utf8"

	"github.com/foxboron/go-uefi/efi/attributes"
	"github.com/foxboron/go-uefi/efi/signature"
	"github.com/foxboron/go-uefi/efi/util"
	"github.com/foxboron/go-uefi/efivar"
	"github.com/foxboron/go-uefi/efivarfs"
	"github.com/foxboron/go-uefi/efivarfs/fswrapper"
	"github.com/foxboron/go-uefi/pkcs7"
	"github.com/spf13/afero"
)

type rawValue []byte

func (r rawValue) Marshal(b *bytes.Buffer) { b.Write(r) }
func (r rawValue) Bytes() []byte           { return r }

func init() {
	// worker side: sign a variable update in this process (whose TZ the parent chose)
	workerOps["var.sign"] = func(a map[string]string) (string, string) {
		key := poolKeyDir(a["verif"], 2048, atoi(a["key"]))
		cert := makeRSACert(key, certShapes(nil)[atoi(a["shape"])%len(certShapes(nil))])
		g := guidFromWire(unhx(a["guid"]))
		attrs, _ := strconv.ParseUint(a["attrs"], 10, 32)
		v := efivar.Efivar{Name: string(unhx(a["name"])), GUID: &g, Attributes: attributes.Attributes(attrs)}
		var signer crypto.Signer = key
		if d := atoi(a["slow"]); d > 0 {
			// a signer that takes longer than a second (a token, an HSM): the clock moves during the call
			signer = slowSigner{key, time.Duration(d) * time.Millisecond}
		}
		if n := atoi(a["busy"]); n > 0 {
			// a signer that is busy for its first n calls (a token in use) and works afterwards
			signer = &busySigner{Signer: signer, left: n}
		}
		// the caller's own value object: it changes after the call returned (the next update is prepared)
		mv := &mutValue{b: unhx(a["payload"])}
		via := a["via"]
		t0 := time.Now().UTC()
		m, reached, err := c06Produce(via, v, mv, signer, cert)
		for try := 0; err != nil && try < atoi(a["busy"]); try++ {
			// the caller asks again, as it would with a busy token
			t0 = time.Now().UTC()
			m, reached, err = c06Produce(via, v, mv, signer, cert)
		}
		t1 := time.Now().UTC()
		if err != nil {
			return "err", err.Error()
		}
		// a caller that prepares several updates first and writes them afterwards: every result is held
		// while the later ones are signed (same goroutine, same process) and marshalled only at the end
		type held struct {
			m       efivar.Marshallable
			mv      *mutValue
			t0, t1  time.Time
			reached string
		}
		all := []held{{m, mv, t0, t1, reached}}
		for k, it := range c06ParseThen(a["then"]) {
			g := guidFromWire(it.guid)
			kv := efivar.Efivar{Name: string(it.name), GUID: &g, Attributes: attributes.Attributes(it.attrs)}
			kkey := poolKeyDir(a["verif"], 2048, it.key)
			kcert := makeRSACert(kkey, certShapes(nil)[it.shape%len(certShapes(nil))])
			kmv := &mutValue{b: it.payload}
			k0 := time.Now().UTC()
			km, kreached, err := c06Produce(via, kv, kmv, kkey, kcert)
			k1 := time.Now().UTC()
			if err != nil {
				return "err", fmt.Sprintf("update %d of the sequence: %v", k+1, err)
			}
			all = append(all, held{km, kmv, k0, k1, kreached})
		}
		var lines []string
		for _, h := range all {
			if a["mutate"] == "1" {
				if len(h.mv.b) > 0 {
					h.mv.b[0] ^= 0xff
				}
				h.mv.b = append(h.mv.b, []byte("-the-next-update")...)
			}
			var buf bytes.Buffer
			h.m.Marshal(&buf)
			lines = append(lines, fmt.Sprintf("%s %d %d %s %s", hxDash(buf.Bytes()), h.t0.Unix(), h.t1.Unix(), hxDash(h.m.Bytes()), h.reached))
		}
		return "ok", strings.Join(lines, "\n")
	}
	// the zone the process runs in: offset from UTC and whether the local calendar date is the UTC date right now
	workerOps["tz.probe"] = func(a map[string]string) (string, string) {
		now := time.Now()
		_, off := now.Zone()
		ly, lm, ld := now.Date()
		uy, um, ud := now.UTC().Date()
		return "ok", fmt.Sprintf("%d %v", off, ly != uy || lm != um || ld != ud)
	}
}

func hxDash(b []byte) string {
	if len(b) == 0 {
		return "-"
	}
	return hx(b)
}

func unhxDash(s string) []byte {
	if s == "-" {
		return nil
	}
	return unhx(s)
}

// c06Produce produces one signed update the way the caller of the case does (worker side):
//
//	""               signature.SignEFIVariable; the caller takes the bytes of the returned Marshallable
//	"update-backend" Efivarfs.WriteSignedUpdate over a caller-supplied EFIVars backend that records the variable
//	                 definition and the value handed to its WriteVar (the SetVariable arguments)
//	"update-file"    Efivarfs.WriteSignedUpdate over EFIFS on a fresh in-memory filesystem; what reached the store is the
//	                 one file of the efivars directory: its name, its 4-byte mask, and the bytes after the mask
//
// The second result says what reached the store ("-" for the first form).
func c06Produce(via string, v efivar.Efivar, m efivar.Marshallable, key crypto.Signer, cert *x509.Certificate) (efivar.Marshallable, string, error) {
	switch via {
	case "update-backend":
		st := &c06Store{}
		if err := efivarfs.Open(st).WriteSignedUpdate(v, m, key, cert); err != nil {
			return nil, "", err
		}
		return c06Captured{st.marshal, st.bytes}, fmt.Sprintf("backend:%d:%s:%s:%d", uint32(st.attrs), hxDash([]byte(st.name)), hxDash(st.guid), st.n), nil
	case "update-file":
		mem := afero.NewMemMapFs()
		fw := fswrapper.NewMemoryWrapper()
		fw.SetFS(mem)
		if err := efivarfs.Open(&efivarfs.EFIFS{FSWrapper: fw}).WriteSignedUpdate(v, m, key, cert); err != nil {
			return nil, "", err
		}
		var names []string
		afero.Walk(mem, "/", func(p string, info os.FileInfo, err error) error {
			if err == nil && !info.IsDir() {
				names = append(names, p)
			}
			return nil
		})
		sort.Strings(names)
		if len(names) == 0 {
			return nil, "", errors.New("WriteSignedUpdate returned no error and no file was written")
		}
		content, _ := afero.ReadFile(mem, names[0])
		mask := "-"
		if len(content) >= 4 {
			mask = fmt.Sprint(binary.LittleEndian.Uint32(content))
			content = content[4:]
		} else {
			content = nil
		}
		return c06Captured{content, content}, fmt.Sprintf("file:%s:%s:%s:%d", mask, hxDash([]byte(names[0])), hxDash([]byte(attributes.Efivars)), len(names)), nil
	}
	_, out, err := signature.SignEFIVariable(v, m, key, cert)
	return out, "-", err
}

// c06Store is a caller-supplied variable store (efivarfs.EFIVars): it records what WriteVar is handed
type c06Store struct {
	name           string
	guid           []byte
	attrs          attributes.Attributes
	marshal, bytes []byte
	n              int
}

func (s *c06Store) GetVar(efivar.Efivar, efivar.Unmarshallable) error {
	return errors.New("write-only store")
}
func (s *c06Store) GetVarWithAttributes(efivar.Efivar, efivar.Unmarshallable) (attributes.Attributes, error) {
	return 0, errors.New("write-only store")
}
func (s *c06Store) WriteVar(v efivar.Efivar, m efivar.Marshallable) error {
	var b bytes.Buffer
	m.Marshal(&b)
	s.marshal = append([]byte{}, b.Bytes()...)
	s.bytes = append([]byte{}, m.Bytes()...)
	s.name, s.attrs, s.guid = v.Name, v.Attributes, nil
	if v.GUID != nil {
		s.guid = wireGUID(*v.GUID)
	}
	s.n++
	return nil
}

// c06Captured is the value that reached a store, as Marshal and as Bytes gave it
type c06Captured struct{ marshal, bytes []byte }

func (r c06Captured) Marshal(b *bytes.Buffer) { b.Write(r.marshal) }
func (r c06Captured) Bytes() []byte           { return r.bytes }

// c06Upd is one update of a sequence signed by one caller: what is signed and by whom
type c06Upd struct {
	name, guid, payload []byte
	attrs               uint32
	key, shape          int
}

// the later updates of a sequence travel as "name,guid,attrs,payload,key,shape;..." (hex fields)
func c06FormatThen(us []c06Upd) string {
	var parts []string
	for _, u := range us {
		parts = append(parts, fmt.Sprintf("%s,%s,%d,%s,%d,%d", hx(u.name), hx(u.guid), u.attrs, hx(u.payload), u.key, u.shape))
	}
	return strings.Join(parts, ";")
}

func c06ParseThen(s string) []c06Upd {
	var us []c06Upd
	for _, p := range strings.Split(s, ";") {
		f := strings.Split(p, ",")
		if len(f) != 6 {
			continue
		}
		at, _ := strconv.ParseUint(f[2], 10, 32)
		us = append(us, c06Upd{name: unhx(f[0]), guid: unhx(f[1]), attrs: uint32(at), payload: unhx(f[3]), key: atoi(f[4]), shape: atoi(f[5])})
	}
	return us
}

// mutValue is a Marshallable the caller keeps using after the call
type mutValue struct{ b []byte }

func (r *mutValue) Marshal(b *bytes.Buffer) { b.Write(r.b) }
func (r *mutValue) Bytes() []byte           { return r.b }

type busySigner struct {
	crypto.Signer
	left int
}

func (s *busySigner) Sign(r io.Reader, digest []byte, opts crypto.SignerOpts) ([]byte, error) {
	if s.left > 0 {
		s.left--
		return nil, fmt.Errorf("token busy")
	}
	return s.Signer.Sign(r, digest, opts)
}

type slowSigner struct {
	crypto.Signer
	d time.Duration
}

func (s slowSigner) Sign(r io.Reader, digest []byte, opts crypto.SignerOpts) ([]byte, error) {
	time.Sleep(s.d)
	return s.Signer.Sign(r, digest, opts)
}

func atoi(s string) int { n, _ := strconv.Atoi(s); return n }

var c06Workers = map[string]*Worker{}

// c06OtherDate is a zone NAME of the cases, not a zone: "the process runs in a fixed-offset zone whose calendar date is
// not the UTC date at the time of the run".  It is resolved when the case is evaluated (so that a replay at another hour
// still is such a run): UTC+14 from 11:00 UTC on (the local date is tomorrow's from 10:00 UTC), UTC-12 before (the local
// date is yesterday's until 12:00 UTC); either choice leaves an hour of margin for the run itself.
const c06OtherDate = "@date-differs-from-utc"

func c06Zone(tz string) string {
	if tz != c06OtherDate {
		return tz
	}
	if time.Now().UTC().Hour() >= 11 {
		return "Etc/GMT-14" // POSIX sign convention: this is UTC+14
	}
	return "Etc/GMT+12" // UTC-12
}

// zones (resolved names) in which the probe found the local calendar date different from the UTC date
var c06DateDiffers = map[string]bool{}

// c06EnvProfiles are process environments a signing tool finds itself in beside the zone: what package build systems,
// CI runners and service managers export for every process they start.  The statement's "current time in UTC" does not
// depend on any of it.  Values that are dates are resolved when the worker is started (a replay on another day is still
// "a build whose sources are some months old").
var c06EnvProfiles = map[string]func() []string{
	// reproducible-builds conventions (SOURCE_DATE_EPOCH = date of the last source change, here about three months
	// before the run), the C locale, and the usual CI / packaging markers
	"reproducible-build": func() []string {
		past := time.Now().Add(-91 * 24 * time.Hour)
		return []string{"SOURCE_DATE_EPOCH=" + fmt.Sprint(past.Unix()), "FORCE_SOURCE_DATE=1", "ZERO_AR_DATE=1", "BUILD_DATE=" + past.UTC().Format(time.RFC3339),
			"LC_ALL=C", "LANG=C", "CI=true", "DEB_BUILD_OPTIONS=nocheck reproducible=+all", "RPM_BUILD_ROOT=/nonexistent", "FAKETIME=" + past.UTC().Format("2006-01-02 15:04:05"), "NO_COLOR=1"}
	},
	// the same convention with the epoch itself (sources without a date)
	"reproducible-build-epoch": func() []string {
		return []string{"SOURCE_DATE_EPOCH=0", "LC_ALL=C.UTF-8", "CI=1"}
	},
	// a user session: locale and calendar settings, no build variables
	"locale": func() []string {
		return []string{"LANG=tr_TR.UTF-8", "LC_ALL=ja_JP.UTF-8", "LC_TIME=ar_SA.UTF-8", "LANGUAGE=de:fr"}
	},
}

func c06Worker(c *Ctx, tz, env string) *Worker {
	tz = c06Zone(tz)
	wk := tz
	if env != "" {
		wk = tz + "|" + env
	}
	if w, ok := c06Workers[wk]; ok {
		return w
	}
	extra := []string{"TZ=" + tz}
	if mk, ok := c06EnvProfiles[env]; ok {
		extra = append(extra, mk()...)
	}
	w := c.NewWorker(4<<20, extra...)
	c06Workers[wk] = w
	if res := w.Do("tz.probe", map[string]string{}, 10*time.Second); res.Class == "ok" {
		f := strings.Fields(res.Out)
		if len(f) == 2 {
			c06DateDiffers[tz] = f[1] == "true"
			c.Note("zone "+wk, fmt.Sprintf("offset %ss from UTC; local calendar date differs from the UTC date during the run: %s", f[0], f[1]))
		}
	}
	return w
}

func c06Eval(c *Ctx, cs Case) {
	tz := cs.S("tz")
	first := c06Upd{name: unhx(cs.S("name")), guid: unhx(cs.S("guid")), payload: unhx(cs.S("payload")), attrs: uint32(cs.I("attrs")), key: int(cs.I("key")), shape: int(cs.I("shape"))}
	seq := append([]c06Upd{first}, c06ParseThen(cs.S("then"))...)
	via := cs.S("via")
	env := cs.S("env")
	if _, ok := c06EnvProfiles[env]; env != "" && !ok {
		c.Fail(Failure{Kind: "property", What: "unknown process-environment profile in the case", Case: cs, Go: env})
		return
	}
	w := c06Worker(c, tz, env)
	// a case of the date-differs zone is only what it says when the zone database gave the process that zone
	c.Count(cs.Key(), tz != c06OtherDate || c06DateDiffers[c06Zone(tz)], fmt.Sprintf("varsign/%s%s/%s%s/payload%s", tz, map[bool]string{true: "/env:" + env}[env != ""], cs.S("class"), map[bool]string{true: "/" + via}[via != ""], sizeClass(len(first.payload))))
	c.Sample(cs)
	res := w.Do("var.sign", map[string]string{"verif": c.VerifDir, "key": fmt.Sprint(first.key), "shape": fmt.Sprint(first.shape), "name": hx(first.name), "guid": hx(first.guid),
		"attrs": fmt.Sprint(first.attrs), "payload": hx(first.payload), "slow": fmt.Sprint(cs.I("slow")), "busy": fmt.Sprint(cs.I("busy")), "mutate": fmt.Sprint(cs.I("mutate")), "then": cs.S("then"), "via": via}, 20*time.Second)
	if res.Class != "ok" {
		c.Fail(Failure{Kind: "property", What: map[bool]string{false: "SignEFIVariable", true: "WriteSignedUpdate"}[via != ""] + " did not produce a signed update", Case: cs, Go: clip(res.Class + " " + res.Out + res.Panic), Spec: "ok"})
		return
	}
	lines := strings.Split(res.Out, "\n")
	if len(lines) != len(seq) {
		c.Fail(Failure{Kind: "property", What: "the worker did not hand back one result per update of the sequence", Case: cs, Go: fmt.Sprint(len(lines)), Spec: fmt.Sprint(len(seq))})
		return
	}
	// every update of the sequence is held to the same statement, whenever its bytes are taken: the
	// earlier ones were marshalled only after the later ones had been signed
	for k, u := range seq {
		where := ""
		if len(seq) > 1 {
			where = fmt.Sprintf("update %d of %d signed by one caller, all marshalled after the last was signed: ", k+1, len(seq))
		}
		if via != "" {
			where = "Efivarfs.WriteSignedUpdate (" + via + "): "
			if len(seq) > 1 {
				where = fmt.Sprintf("update %d of %d written one after the other by one caller: ", k+1, len(seq)) + where
			}
		}
		c06CheckUpdate(c, cs, c06Zone(tz), env, where, u, strings.Fields(lines[k]))
	}
}

// c06CheckUpdate holds the bytes of one signed update against the layout and binding of the property
func c06CheckUpdate(c *Ctx, cs Case, tz, env, where string, u c06Upd, f []string) {
	name, guid, payload, attrs, keyIdx, shape := u.name, u.guid, u.payload, u.attrs, u.key, u.shape
	fail := func(what, goObs, spec, matcher string) {
		c.Fail(Failure{Kind: "property", Matcher: matcher, What: where + what, Case: cs, Go: clip(goObs), Spec: clip(spec)})
	}
	if len(f) != 5 {
		fail("no signed update came back for this update", strings.Join(f, " "), "bytes, time bracket, what reached the store", "")
		return
	}
	out := unhxDash(f[0])
	t0, _ := strconv.ParseInt(f[1], 10, 64)
	t1, _ := strconv.ParseInt(f[2], 10, 64)
	if f[3] != f[0] {
		fail("Marshal and Bytes of the returned value differ", f[3][:min(len(f[3]), 40)], "", "")
	}
	// ---- the caller-level entry point: what reaches the variable store is the update that was produced for the (name,
	// GUID, attributes, payload) the caller gave - one write of that variable with those attributes (the attributes
	// handed to the store are the ones SetVariable is called with; the signature below is checked over the attributes the
	// caller gave, so both together say: the signature covers the attributes that are written) ----
	if r := strings.Split(f[4], ":"); len(r) == 5 {
		switch r[0] {
		case "backend":
			if r[4] != "1" {
				fail("WriteSignedUpdate did not hand the store exactly one WriteVar", r[4], "1", "")
			}
			if r[1] != fmt.Sprint(attrs) {
				fail("the attributes handed to the variable store are not the attributes the update was produced for (and signed over)", "WriteVar with attributes "+r[1], fmt.Sprint(attrs), "")
			}
			if !bytes.Equal(unhxDash(r[2]), name) || !bytes.Equal(unhxDash(r[3]), guid) {
				fail("the variable handed to the variable store is not the variable the update was produced for", "name "+r[2]+" guid "+r[3], "name "+hx(name)+" guid "+hx(guid), "")
			}
		case "file":
			if r[4] != "1" {
				fail("WriteSignedUpdate did not leave exactly one file in the store", r[4], "1", "")
			}
			if r[1] != fmt.Sprint(attrs) {
				fail("the attribute mask written in front of the update is not the mask the update was produced for (and signed over)", "file starts with mask "+r[1], fmt.Sprint(attrs), "")
			}
			if wantFile := string(unhxDash(r[3])) + "/" + string(name) + "-" + canonGUIDText(guidFromWire(guid)); string(unhxDash(r[2])) != wantFile {
				fail("the file written is not the file of the variable the update was produced for", string(unhxDash(r[2])), wantFile, "")
			}
		}
	} else if f[4] != "-" {
		fail("what reached the store is not reported", f[4], "", "")
	}
	key := poolKey(c, 2048, keyIdx)
	cert := makeRSACert(key, certShapes(c)[shape%len(certShapes(c))])
	// ---- independent layout oracle (UEFI 2.8 section 8.2.2) ----
	if len(out) < 40 {
		fail("output shorter than the fixed part of the descriptor", hx(out), "", "")
		return
	}
	tm := out[:16]
	year := int(binary.LittleEndian.Uint16(tm))
	stamp := time.Date(year, time.Month(tm[2]), int(tm[3]), int(tm[4]), int(tm[5]), int(tm[6]), 0, time.UTC).Unix()
	if stamp < t0-1 || stamp > t1+1 {
		under, matcher := "TZ="+tz, "c06.local_time"
		if env != "" {
			// not the zone alone: the process was started with the environment of the profile
			under, matcher = under+" and the process environment of profile "+env, ""
		}
		fail("the timestamp is not the current time in UTC", fmt.Sprintf("%04d-%02d-%02d %02d:%02d:%02d under %s", year, tm[2], tm[3], tm[4], tm[5], tm[6], under),
			time.Unix(t0, 0).UTC().Format("2006-01-02 15:04:05")+" UTC", matcher)
	}
	if !bytes.Equal(tm[7:], make([]byte, 9)) {
		fail("pad / nanosecond / timezone / daylight fields of the timestamp are not zero", hx(tm), "", "")
	}
	dw := int(binary.LittleEndian.Uint32(out[16:]))
	rev, typ := binary.LittleEndian.Uint16(out[20:]), binary.LittleEndian.Uint16(out[22:])
	pk7 := []byte{0x9d, 0xd2, 0xaf, 0x4a, 0xdf, 0x68, 0xee, 0x49, 0x8a, 0xa9, 0x34, 0x7d, 0x37, 0x56, 0x65, 0xa7}
	if rev != 0x0200 || typ != 0x0EF1 || !bytes.Equal(out[24:40], pk7) {
		fail("WIN_CERTIFICATE_UEFI_GUID header: revision, type or type GUID wrong", hx(out[16:40]), "rev 0x0200 type 0x0EF1 PKCS7 GUID", "")
	}
	if dw < 24 || 16+dw > len(out) || !bytes.Equal(out[16+dw:], payload) {
		fail("dwLength does not delimit the descriptor (24 + signature length), or the payload does not follow unchanged", fmt.Sprintf("dwLength=%d len=%d payload=%d", dw, len(out), len(payload)), "", "")
		return
	}
	sd := out[40 : 16+dw]
	// bare DER SignedData (not wrapped in a ContentInfo)
	if len(sd) < 2 || sd[0] != 0x30 {
		fail("the signature is not a bare SignedData SEQUENCE", hx(sd[:min(len(sd), 16)]), "", "")
		return
	}
	if r, ok := parseDER(sd); !ok || len(r) != 1 || len(r[0].kids) < 4 || r[0].kids[0].tag != 0x02 {
		fail("the signature is not a bare DER SignedData (first field must be the version INTEGER)", hx(sd[:min(len(sd), 24)]), "", "")
		return
	}
	// detached: the encapsulated content info names the content type and carries no content (a verifier given an
	// attached copy of the buffer would check that copy, not name||GUID||attributes||timestamp||payload)
	if r, _ := parseDER(sd); len(r[0].kids[2].kids) != 1 || r[0].kids[2].tag != 0x30 || r[0].kids[2].kids[0].tag != 0x06 {
		fail("the SignedData is not detached: its encapsulated content info is not a lone content type", hx(r[0].kids[2].encode()[:min(len(r[0].kids[2].encode()), 32)]), "SEQUENCE { OID }", "")
	}
	// binding: detached SHA-256 signature over name(UTF-16LE, unterminated) || GUID || attributes || timestamp || payload
	var want bytes.Buffer
	for _, ch := range name {
		want.Write([]byte{ch, 0})
	}
	want.Write(guid)
	binary.Write(&want, binary.LittleEndian, attrs)
	want.Write(tm)
	want.Write(payload)
	if acc, parsed := stdVerify(sd, cert, want.Bytes()); !parsed || !acc {
		fail("an independent PKCS#7 verifier does not accept the signature over name||GUID||attributes||timestamp||payload", fmt.Sprintf("parsed=%v accepted=%v", parsed, acc), "accepted", "")
	}
	wrapped := append(append([]byte{0x30}, derLen(len(sd)+15)...), append([]byte{0x06, 0x09, 0x2a, 0x86, 0x48, 0x86, 0xf7, 0x0d, 0x01, 0x07, 0x02, 0xa0}, append(derLen(len(sd)), sd...)...)...)
	_ = wrapped
	if acc, parsed := mozVerify(rewrapSignedData(sd), cert, want.Bytes()); !parsed || !acc {
		fail("go.mozilla.org/pkcs7 does not accept the signature over the signed buffer", fmt.Sprintf("parsed=%v accepted=%v", parsed, acc), "accepted", "")
	}
	if _, sp := askVerify(c, sd, cert, want.Bytes()); sp != "true" {
		fail("Spec.cmsVerify does not accept the signature over the signed buffer", sp, "true", "")
	}
	// ... and over nothing else: the usual wrong variants
	wrongs := map[string][]byte{}
	{
		var b bytes.Buffer // NUL-terminated name
		for _, ch := range name {
			b.Write([]byte{ch, 0})
		}
		b.Write([]byte{0, 0})
		b.Write(guid)
		binary.Write(&b, binary.LittleEndian, attrs)
		b.Write(tm)
		b.Write(payload)
		wrongs["terminated-name"] = b.Bytes()
		var b2 bytes.Buffer // attributes before GUID
		for _, ch := range name {
			b2.Write([]byte{ch, 0})
		}
		binary.Write(&b2, binary.LittleEndian, attrs)
		b2.Write(guid)
		b2.Write(tm)
		b2.Write(payload)
		wrongs["attrs-before-guid"] = b2.Bytes()
		wrongs["without-timestamp"] = append(append([]byte{}, want.Bytes()[:len(want.Bytes())-len(payload)-16]...), payload...)
		wrongs["payload-plus-byte"] = append(append([]byte{}, want.Bytes()...), 0)
		// the same buffer with one field changed: every single attribute bit of the low byte flipped, a GUID byte, a name
		// byte, a timestamp byte, a payload byte
		build := func(nm, gd []byte, at uint32, t, pl []byte) []byte {
			var b bytes.Buffer
			for _, ch := range nm {
				b.Write([]byte{ch, 0})
			}
			b.Write(gd)
			binary.Write(&b, binary.LittleEndian, at)
			b.Write(t)
			b.Write(pl)
			return b.Bytes()
		}
		flip := func(x []byte, i int) []byte {
			y := append([]byte{}, x...)
			if len(y) > 0 {
				y[i%len(y)] ^= 0x01
			}
			return y
		}
		for bit := uint(0); bit < 8; bit++ {
			wrongs[fmt.Sprintf("attribute-bit-%d-flipped", bit)] = build(name, guid, attrs^(1<<bit), tm, payload)
		}
		wrongs["other-guid"] = build(name, flip(guid, 15), attrs, tm, payload)
		wrongs["other-name"] = build(flip(name, 0), guid, attrs, tm, payload)
		wrongs["other-second"] = build(name, guid, attrs, flip(tm, 6), payload)
		wrongs["other-payload"] = build(name, guid, attrs, tm, flip(payload, len(payload)/2))
	}
	for k, w := range wrongs {
		if bytes.Equal(w, want.Bytes()) {
			continue
		}
		if acc, _ := stdVerify(sd, cert, w); acc {
			fail("the signature also verifies over a different buffer ("+k+")", "accepted", "rejected", "")
		}
	}
	// the library's own reader and verifier on its output
	var d signature.EFIVariableAuthentication2
	buf := bytes.NewBuffer(append([]byte{}, out...))
	if pan, msg := safely(func() {
		if err := d.Unmarshal(buf); err != nil {
			fail("the library's descriptor reader rejects its own output", err.Error(), "", "")
		} else if ok, err := d.Verify(cert); err != nil || !ok {
			fail("the library's verifier rejects its own signed update", fmt.Sprint(ok, err), "true", "")
		}
	}); pan {
		fail("reading back the signed update panicked", msg, "", "")
	}
	// ---- byte-exact correspondence with the Lean model ----
	p7, err := pkcs7.ParsePKCS7(sd)
	if err != nil || len(p7.SignerInfo) != 1 || p7.SignerInfo[0].AuthenticatedAttributes == nil {
		return
	}
	si := p7.SignerInfo[0]
	c.Trace()
	m := c.Drv.Ask("var.sign", hx(name), hx(guid), fmt.Sprint(attrs), fmt.Sprint(year), fmt.Sprint(tm[2]), fmt.Sprint(tm[3]), fmt.Sprint(tm[4]), fmt.Sprint(tm[5]), fmt.Sprint(tm[6]),
		hx(payload), hx(cert.Raw), hx(cert.RawIssuer), cert.SerialNumber.String(), hx([]byte(si.AuthenticatedAttributes.SigningTime.Format("060102150405Z0700"))), hx(si.EncryptedDigest))
	if !strings.HasPrefix(m, "ok "+hx(out)+" buf="+hx(want.Bytes())) {
		c.Fail(Failure{Kind: "tie", What: "SignEFIVariable: the Lean model does not reproduce the output / signed buffer byte for byte", Case: cs, Model: clip(m), Go: clip(hx(out))})
	}
	// ---- the code TRANSLATED from the Go source (Gen.lean: signature.SignEFIVariable) against the real library ----
	// given the clock value and the bare SignedData observed above, the translated function must return these very
	// bytes, and the buffer it hands to SignPKCS7 must be the buffer that the independent verifiers accepted
	if c.GenDrv != nil && utf8.Valid(name) {
		g := c.GenDrv.Ask("gen.varsign", hx(name), hx(guid), fmt.Sprint(attrs), hx(tm), hx(payload), hx(sd))
		c.genTies++
		c.notes["translated_code_ties"] = c.genTies
		if g != "ok "+hx(out)+" buf="+hx(want.Bytes()) {
			c.Fail(Failure{Kind: "tie", What: where + "SignEFIVariable: the code translated from the Go source (Gen.lean) does not reproduce the library's output / the signed buffer byte for byte", Case: cs, Model: "translated: " + clip(g), Go: clip("ok " + hx(out) + " buf=" + hx(want.Bytes()))})
		}
	}
	_ = util.SizeofEFIGUID
}

// mozilla's parser wants the outer ContentInfo
func rewrapSignedData(sd []byte) []byte {
	inner := append(append([]byte{0xa0}, derLen(len(sd))...), sd...)
	body := append([]byte{0x06, 0x09, 0x2a, 0x86, 0x48, 0x86, 0xf7, 0x0d, 0x01, 0x07, 0x02}, inner...)
	return append(append([]byte{0x30}, derLen(len(body))...), body...)
}

func c06Gen(c *Ctx) {
	defer func() {
		for _, w := range c06Workers {
			w.Close()
		}
	}()
	// one zone without DST, and DST zones of both hemispheres so that one of them is in DST at any date
	// and a fixed-offset zone chosen by the hour of the run so that its calendar DATE is not the UTC date right now
	// (a named zone has the UTC date for most of the day: a date taken from local time would pass there)
	tzs := []string{"UTC", "Asia/Tokyo", "America/St_Johns", "Pacific/Auckland", c06OtherDate}
	globalG := wireGUID(attributes.EFI_GLOBAL_VARIABLE)
	secdb := wireGUID(attributes.EFI_IMAGE_SECURITY_DATABASE_GUID)
	type nv struct {
		name string
		guid []byte
	}
	names := []nv{{"PK", globalG}, {"KEK", globalG}, {"db", secdb}, {"dbx", secdb}, {"SecureBoot", globalG}, {"BootOrder", globalG}, {"x", randBytes(c, 16)}, {"A-long_variable.Name0123456789", randBytes(c, 16)}, {"", globalG}}
	u := newC09Universe(c)
	payloads := map[string][]byte{"empty-db": nil, "hash-list": encodeList(tSHA256, nil, 48, [][2][]byte{{u.owners[0], u.data[0]}, {u.owners[1], u.data[1]}}),
		"cert-list": encodeList(tX509, nil, len(u.data[4])+16, [][2][]byte{{u.owners[0], u.data[4]}}), "raw1": {0x01}, "raw": randBytes(c, 300)}
	pk := []string{"empty-db", "hash-list", "cert-list", "raw1", "raw"}
	masks := []uint32{0x27, 0x67, 0x07, 0x00, 0xffffffff, 0x40, 0x03, 0x87}
	// who produces the update: the caller of signature.SignEFIVariable, or the caller of Efivarfs.WriteSignedUpdate over a
	// recording EFIVars backend / over EFIFS on an in-memory filesystem (what reached the store is then the update)
	vias := []string{"", "update-backend", "", "update-file"}
	// whose certificate signs: every shape of the pool in turn - self-signed ones (issuer = subject) and certificates
	// ISSUED BY A CA (issuer and subject are different names, as a KEK / db certificate of a PKI), long and hand-encoded
	// names, serials with the high bit set.  The SignerInfo must name the certificate by ITS ISSUER and serial: that is
	// how the independent verifiers (and firmware) look the signer up.
	nShapes := len(certShapes(c))
	caIssued := 0
	for _, sh := range certShapes(c) {
		if sh.subject != nil {
			caIssued++
		}
	}
	c.Note("certificate_shapes", fmt.Sprintf("%d, of which %d issued by a CA (issuer differs from subject)", nShapes, caIssued))
	// the environment the signing process is started with, beside TZ: inherited (two cases in five), or one of the
	// profiles of c06EnvProfiles
	envs := []string{"", "reproducible-build", "", "locale", "reproducible-build-epoch"}
	i := 0
	for _, tz := range tzs {
		for n := 0; n < c.N(14, 1500) && c.NFailures() < 6; n++ {
			v := names[(i+n)%len(names)]
			p := pk[c.Rng.Intn(len(pk))]
			cs := Case{"op": "varsign", "tz": tz, "class": p, "name": hx([]byte(v.name)), "guid": hx(v.guid), "attrs": int64(masks[c.Rng.Intn(len(masks))]),
				"payload": hx(payloads[p]), "key": int64(c.Rng.Intn(2)), "shape": int64(i % nShapes), "mutate": int64(n % 2), "busy": int64([]int{0, 0, 0, 1, 2}[n%5])}
			if via := vias[c.Rng.Intn(len(vias))]; via != "" {
				cs["via"] = via
			}
			if env := envs[i%len(envs)]; env != "" {
				cs["env"] = env
			}
			if n%3 == 2 {
				// a caller that signs two or three updates (other variables, other payloads - smaller, equal
				// and larger ones -, possibly another key) and only then writes them out
				var then []c06Upd
				class := p + "/then"
				for k := 0; k < 1+c.Rng.Intn(2); k++ {
					kv, kp := names[c.Rng.Intn(len(names))], pk[c.Rng.Intn(len(pk))]
					then = append(then, c06Upd{name: []byte(kv.name), guid: kv.guid, attrs: masks[c.Rng.Intn(len(masks))], payload: payloads[kp], key: c.Rng.Intn(2), shape: c.Rng.Intn(nShapes)})
					class += "-" + kp
				}
				cs["class"], cs["then"] = class, c06FormatThen(then)
			}
			c06Eval(c, cs)
			i++
		}
	}
	// a signer slower than one second: the timestamp signed and the timestamp emitted must be the same reading
	for n := 0; n < c.N(2, 40) && c.NFailures() < 6; n++ {
		v := names[n%len(names)]
		p := pk[c.Rng.Intn(len(pk))]
		c06Eval(c, Case{"op": "varsign", "tz": tzs[n%len(tzs)], "class": p + "/slow-signer", "name": hx([]byte(v.name)), "guid": hx(v.guid), "attrs": int64(masks[c.Rng.Intn(len(masks))]),
			"payload": hx(payloads[p]), "key": int64(c.Rng.Intn(2)), "shape": int64(c.Rng.Intn(nShapes)), "slow": int64(1100)})
	}
}

func init() {
	register("C06", &PropDef{
		Rule:   "signed updates for the standard secure-boot variables and arbitrary ASCII names (incl. empty and long), the global / image-security / random GUIDs, attribute masks {0x27, 0x67 (APPEND_WRITE), 7, 3, 0, 0x40, 0x87, all ones} (with and without the time-based-authentication bit), payloads {empty database, SHA-256 list, certificate list, one byte, 300 raw bytes}, two RSA keys x every certificate shape of the pool in turn (16: self-signed ones and certificates ISSUED BY A CA, whose issuer and subject are different names - the SignerInfo must name the signing certificate by its issuer and serial, which is how the independent verifiers look the signer up -, long, multi-valued and hand-encoded names, serials with the high bit set / leading zero / 20 octets, certificates signed with SHA-384 / SHA-512), each produced in worker processes started with TZ=UTC, Asia/Tokyo, America/St_Johns and Pacific/Auckland (DST zones of both hemispheres) and in a fixed-offset zone chosen by the UTC hour of the run so that its calendar DATE is not the UTC date while the check runs (UTC+14 from 11:00 UTC on, UTC-12 before; the worker reports the zone offset and whether the dates differ, and the full date and time of the timestamp are compared with the UTC clock bracket), the worker process is started either with the inherited environment (two cases in five) or with one of three environment profiles beside TZ - what reproducible-build wrappers, package builds and CI runners export (SOURCE_DATE_EPOCH about three months in the past resp. 0, FORCE_SOURCE_DATE, ZERO_AR_DATE, BUILD_DATE, FAKETIME, LC_ALL=C, CI, DEB_BUILD_OPTIONS, ...) or a user session's locale variables (LANG, LC_ALL, LC_TIME, LANGUAGE): the timestamp must be the current UTC time of the call whatever the process environment says; plus updates signed through a crypto.Signer that takes 1.1 s so that the clock moves during the call; in every second case the caller's value object is changed after the call and before the result is marshalled, and in two of five the signer is busy (returns an error) for its first one or two calls and the caller asks again; every third case is a SEQUENCE of two or three updates (other variables, masks, keys, payloads smaller / equal / larger than the earlier ones) signed one after the other by one caller in one process, whose results are all held and marshalled only after the last one was signed - each of them must still be the update that was signed. Who produces the update: the caller of signature.SignEFIVariable (half of the cases) or the caller of the entry point Efivarfs.WriteSignedUpdate, over a caller-supplied EFIVars backend that records the variable definition and value handed to its WriteVar, or over EFIFS on an in-memory filesystem (the one file written: name, 4-byte mask, rest); then what reached the store is held to the statement, and the store must have received exactly one write of the variable the update was produced for with exactly the attributes it was produced for (the signature is verified over the attributes the caller gave, so the attributes written are the attributes signed). Layout is checked by an independent parser, the binding by encoding/asn1+crypto/rsa, go.mozilla.org/pkcs7 and the Lean Spec over the rebuilt buffer and over wrong buffers (terminated name, attributes before GUID, no timestamp, one more payload byte, each of the eight low attribute bits flipped, one bit of the GUID / name / timestamp seconds / payload flipped), the SignedData must carry no encapsulated content (detached); the output is reproduced byte for byte by the Lean model. Every case is non-trivial; distinct = distinct (zone, environment profile, name, GUID, mask, payload, key, shape).",
		Assume: []string{"variable names are ASCII (the property's domain); time is bracketed by the worker around the call (±1 s)"},
		Eval:   c06Eval, Gen: c06Gen,
	})
}
