package main

import (
	"encoding/binary"
	"fmt"
	"sort"
)

// peSpec describes a generated well-formed PE/COFF image.
type peSpec struct {
	Plus       bool
	Lfanew     int
	NDirs      int
	SecSizes   []int // file order
	HdrOrder   []int // HdrOrder[i] = index (in file order) of the section described by header i
	GapAfterH  int
	Gaps       []int // gap before section i (file order)
	SohSlack   int   // SizeOfHeaders = end of section table + slack
	Trailing   int
	CertBodies []int // body lengths of WIN_CERTIFICATE entries (empty: no table)
	Machine    uint16
	Seed       int64
	VSizes     []int // per section (file order): -1 keep the random VirtualSize, otherwise set it to this value (0: "use SizeOfRawData")
	// An image without a certificate table whose directory entry still carries an address (Size = 0): what a tool
	// leaves behind that removes the signatures by clearing the size, or simply a changed excluded field. The entry
	// is excluded from the digest and names no table, so such an image is as well-formed as one with a zero entry.
	// 0: zero entry; otherwise an address class of staleAddrKinds, CertAddrSalt picking the position inside a range.
	CertAddrKind int
	CertAddrSalt int
	// Section headers that declare raw data but have no file pointer (SizeOfRawData = NoBits[i] > 0,
	// PointerToRawData = 0: uninitialised data as some linkers emit it). No byte of the file belongs to such a
	// section. They are extra entries of the section table, behind the other headers or (NoBitsFront) in front of
	// them. Such an image lies outside the well-formed domain of the specification (raw data in front of the end
	// of the headers); what a consumer does with it is asked of the consumer, never assumed.
	NoBits      []int
	NoBitsFront bool
	// CertPad: the alignment bytes that follow a certificate-table entry whose length is not a multiple of 8 are not
	// zero (they belong to the certificate table, which is excluded from the digest; the format does not say what
	// they hold, signers usually write zeros, other tools leave what was there)
	CertPad bool
}

// classes of a left-over certificate-table address (index = CertAddrKind)
var staleAddrKinds = []string{"zero", "one", "in-headers", "in-sections", "end-of-sections", "in-trailing", "file-end", "padded-file-end", "beyond-file", "max-uint32"}

func (s peSpec) class() string {
	k := "pe32"
	if s.Plus {
		k = "pe32+"
	}
	nz := 0
	for _, z := range s.SecSizes {
		if z == 0 {
			nz++
		}
	}
	ordered := sort.IntsAreSorted(s.HdrOrder)
	gaps := s.GapAfterH > 0
	for _, g := range s.Gaps {
		if g > 0 {
			gaps = true
		}
	}
	cl := fmt.Sprintf("%s/sec%d/zero%d/ordered=%v/gaps=%v/trail%s/certs%d", k, min(len(s.SecSizes), 9), min(nz, 2), ordered, gaps, sizeClass(s.Trailing), len(s.CertBodies))
	if len(s.CertBodies) == 0 && s.CertAddrKind > 0 && s.CertAddrKind < len(staleAddrKinds) {
		cl += "/addr=" + staleAddrKinds[s.CertAddrKind]
	}
	if len(s.NoBits) > 0 {
		cl += fmt.Sprintf("/nobits%d", len(s.NoBits))
	}
	if s.CertPad && len(s.CertBodies) > 0 {
		cl += "/alignment-bytes-not-zero"
	}
	return cl
}

func genPeSpec(c *Ctx, big bool) peSpec {
	r := c.Rng
	s := peSpec{Plus: r.Intn(2) == 0, Seed: r.Int63()}
	s.Lfanew = []int{0x40, 0x80, 0x40 + 8*r.Intn(40), 0x48}[r.Intn(4)]
	s.NDirs = 5 + r.Intn(12)
	if r.Intn(3) == 0 {
		s.NDirs = []int{5, 16}[r.Intn(2)]
	}
	nsec := []int{0, 1, 2, 3, 4, 5, 8}[r.Intn(7)]
	if c.Thorough && r.Intn(20) == 0 {
		nsec = 9 + r.Intn(88)
	}
	for i := 0; i < nsec; i++ {
		z := []int{0, 1, 7, 8, 9, 512, 1 + r.Intn(2000)}[r.Intn(7)]
		if big && i == 0 {
			z = 33000 + r.Intn(40000)
		}
		s.SecSizes = append(s.SecSizes, z)
		g := 0
		if r.Intn(6) == 0 {
			g = 1 + r.Intn(40)
		}
		s.Gaps = append(s.Gaps, g)
		// VirtualSize: random, 0 (loaders then use SizeOfRawData), equal to or larger than the raw size
		s.VSizes = append(s.VSizes, []int{-1, -1, 0, 0, z, z + 4096}[r.Intn(6)])
	}
	s.HdrOrder = r.Perm(nsec)
	if r.Intn(3) == 0 {
		sort.Ints(s.HdrOrder)
	}
	if r.Intn(5) == 0 {
		s.GapAfterH = 1 + r.Intn(64)
	}
	s.SohSlack = []int{0, 0, 8 - 1, 100, r.Intn(512)}[r.Intn(5)]
	s.Trailing = []int{0, 0, 1, 7, 8, 9, r.Intn(300)}[r.Intn(7)]
	switch r.Intn(5) {
	case 0:
		s.CertBodies = []int{1 + r.Intn(1500)}
	case 1:
		s.CertBodies = []int{8 * (1 + r.Intn(100)), 1 + r.Intn(700)}
	}
	s.Machine = []uint16{0x8664, 0x14c, 0xaa64}[r.Intn(3)]
	// every third image: a directory entry (address != 0, size 0); without a table it is only looked at when
	// the image is signed
	if r.Intn(3) == 0 {
		s.CertAddrKind = 1 + r.Intn(len(staleAddrKinds)-1)
		s.CertAddrSalt = r.Intn(1 << 16)
	}
	return s
}

type builtPE struct {
	img      []byte
	ck       int // checksum offset
	dd       int // directory-4 offset
	soh      int
	secOff   []int // file order
	certOff  int
	certSize int
	bodyEnd  int // end of the hashed data (start of the certificate table, or file end)
}

func buildPE(s peSpec) builtPE {
	rng := newSplitMix(uint64(s.Seed))
	fill := func(b []byte) {
		for i := range b {
			b[i] = byte(rng.next())
		}
	}
	optFixed := 96
	if s.Plus {
		optFixed = 112
	}
	optSize := optFixed + 8*s.NDirs
	nsec := len(s.SecSizes)
	nhdr := nsec + len(s.NoBits) // section headers: one per section with file data + the ones without a file pointer
	secTab := s.Lfanew + 24 + optSize
	soh := secTab + 40*nhdr + s.SohSlack
	hdr := make([]byte, soh)
	fill(hdr)
	hdr[0], hdr[1] = 'M', 'Z'
	binary.LittleEndian.PutUint32(hdr[0x3c:], uint32(s.Lfanew))
	copy(hdr[s.Lfanew:], []byte{'P', 'E', 0, 0})
	coff := s.Lfanew + 4
	binary.LittleEndian.PutUint16(hdr[coff:], s.Machine)
	binary.LittleEndian.PutUint16(hdr[coff+2:], uint16(nhdr))
	binary.LittleEndian.PutUint32(hdr[coff+8:], 0)  // PointerToSymbolTable
	binary.LittleEndian.PutUint32(hdr[coff+12:], 0) // NumberOfSymbols
	binary.LittleEndian.PutUint16(hdr[coff+16:], uint16(optSize))
	opt := s.Lfanew + 24
	magic := uint16(0x10b)
	if s.Plus {
		magic = 0x20b
	}
	binary.LittleEndian.PutUint16(hdr[opt:], magic)
	binary.LittleEndian.PutUint32(hdr[opt+60:], uint32(soh))
	binary.LittleEndian.PutUint32(hdr[opt+optFixed-4:], uint32(s.NDirs))
	dd := opt + optFixed + 32
	// file layout of sections
	off := soh + s.GapAfterH
	secOff := make([]int, nsec)
	var body []byte
	body = append(body, make([]byte, s.GapAfterH)...)
	for i, z := range s.SecSizes {
		body = append(body, make([]byte, s.Gaps[i])...)
		off += s.Gaps[i]
		secOff[i] = off
		body = append(body, make([]byte, z)...)
		off += z
	}
	body = append(body, make([]byte, s.Trailing)...)
	fill(body)
	first := 0 // table index of the first header of a section with file data
	if s.NoBitsFront {
		first = len(s.NoBits)
	}
	for i, z := range s.NoBits {
		e := secTab + 40*(nsec+i)
		if s.NoBitsFront {
			e = secTab + 40*i
		}
		for j := 0; j < 8; j++ {
			hdr[e+j] = 'a' + hdr[e+j]%26
		}
		binary.LittleEndian.PutUint32(hdr[e+8:], uint32(z))   // VirtualSize
		binary.LittleEndian.PutUint32(hdr[e+16:], uint32(z))  // SizeOfRawData
		binary.LittleEndian.PutUint32(hdr[e+20:], 0)          // PointerToRawData: none
		binary.LittleEndian.PutUint32(hdr[e+24:], 0)          // PointerToRelocations
		binary.LittleEndian.PutUint16(hdr[e+32:], 0)          // NumberOfRelocations
		binary.LittleEndian.PutUint32(hdr[e+36:], 0xC0000080) // uninitialised data, read, write
	}
	for i := 0; i < nsec; i++ {
		k := s.HdrOrder[i]
		e := secTab + 40*(first+i)
		for j := 0; j < 8; j++ {
			hdr[e+j] = 'a' + hdr[e+j]%26
		}
		binary.LittleEndian.PutUint32(hdr[e+16:], uint32(s.SecSizes[k]))
		binary.LittleEndian.PutUint32(hdr[e+20:], uint32(secOff[k]))
		binary.LittleEndian.PutUint16(hdr[e+32:], 0) // NumberOfRelocations
		if k < len(s.VSizes) && s.VSizes[k] >= 0 {
			binary.LittleEndian.PutUint32(hdr[e+8:], uint32(s.VSizes[k])) // VirtualSize: not a layout field of the file
		}
		if s.SecSizes[k] == 0 && rng.next()%2 == 0 {
			binary.LittleEndian.PutUint32(hdr[e+20:], uint32(rng.next()%4096)) // zero-size sections may point anywhere
		}
	}
	img := append(hdr, body...)
	b := builtPE{ck: opt + 64, dd: dd, soh: soh, secOff: secOff}
	if len(s.CertBodies) > 0 {
		for len(img)%8 != 0 {
			img = append(img, byte(rng.next()))
		}
		var table []byte
		for _, n := range s.CertBodies {
			e := make([]byte, 8+n)
			fill(e)
			binary.LittleEndian.PutUint32(e, uint32(8+n))
			binary.LittleEndian.PutUint16(e[4:], 0x0200)
			binary.LittleEndian.PutUint16(e[6:], 0x0002)
			for len(e)%8 != 0 {
				pad := byte(0)
				if s.CertPad {
					pad = byte(rng.next()) | 1
				}
				e = append(e, pad)
			}
			table = append(table, e...)
		}
		b.certOff, b.certSize = len(img), len(table)
		binary.LittleEndian.PutUint32(img[dd:], uint32(len(img)))
		binary.LittleEndian.PutUint32(img[dd+4:], uint32(len(table)))
		b.bodyEnd = len(img)
		img = append(img, table...)
	} else {
		binary.LittleEndian.PutUint32(img[dd:], staleCertAddr(s, soh, len(img)))
		binary.LittleEndian.PutUint32(img[dd+4:], 0)
		b.bodyEnd = len(img)
	}
	b.img = img
	return b
}

// staleCertAddr is the address field of the certificate-table directory entry of an image without a table
// (n = file length, soh = SizeOfHeaders)
func staleCertAddr(s peSpec, soh, n int) uint32 {
	within := func(lo, hi int) uint32 { // a position in [lo, hi), lo when the range is empty
		if hi <= lo {
			return uint32(lo)
		}
		return uint32(lo + s.CertAddrSalt%(hi-lo))
	}
	hashedEnd := soh // SizeOfHeaders + the raw sizes: where the data "after the last section" starts for the hash
	for _, z := range s.SecSizes {
		hashedEnd += z
	}
	switch s.CertAddrKind {
	case 1:
		return 1
	case 2:
		return within(1, soh)
	case 3:
		return within(soh, hashedEnd)
	case 4:
		return uint32(hashedEnd)
	case 5:
		return within(hashedEnd+1, n)
	case 6:
		return uint32(n)
	case 7:
		return uint32((n + 7) &^ 7)
	case 8:
		return uint32(n + 1 + s.CertAddrSalt)
	case 9:
		return 0xffffffff
	}
	return 0
}

// splitmix64: a tiny deterministic generator so that an image is a function of its spec
type splitMix struct{ s uint64 }

func newSplitMix(seed uint64) *splitMix { return &splitMix{seed} }
func (m *splitMix) next() uint64 {
	m.s += 0x9e3779b97f4a7c15
	z := m.s
	z = (z ^ (z >> 30)) * 0xbf58476d1ce4e5b9
	z = (z ^ (z >> 27)) * 0x94d049bb133111eb
	return z ^ (z >> 31)
}

func specCase(s peSpec) Case {
	cs := Case{"op": "image", "plus": s.Plus, "lfanew": int64(s.Lfanew), "ndirs": int64(s.NDirs), "secsizes": intsI(s.SecSizes), "hdrorder": intsI(s.HdrOrder),
		"gapafterh": int64(s.GapAfterH), "gaps": intsI(s.Gaps), "sohslack": int64(s.SohSlack), "trailing": int64(s.Trailing), "certbodies": intsI(s.CertBodies),
		"machine": int64(s.Machine), "seed": s.Seed, "vsizes": intsI(s.VSizes), "certaddr": int64(s.CertAddrKind), "certaddrsalt": int64(s.CertAddrSalt)}
	if len(s.NoBits) > 0 { // only then: the cases (and replay files) of all other images stay as they were
		cs["nobits"], cs["nobitsfront"] = intsI(s.NoBits), s.NoBitsFront
	}
	if s.CertPad {
		cs["certpad"] = true
	}
	return cs
}

func intsI(xs []int) []interface{} {
	out := make([]interface{}, len(xs))
	for i, x := range xs {
		out[i] = int64(x)
	}
	return out
}

func caseInts(v interface{}) []int {
	var out []int
	if xs, ok := v.([]interface{}); ok {
		for _, x := range xs {
			switch t := x.(type) {
			case float64:
				out = append(out, int(t))
			case int64:
				out = append(out, int(t))
			case int:
				out = append(out, t)
			}
		}
	}
	return out
}

func specOfCase(cs Case) peSpec {
	plus, _ := cs["plus"].(bool)
	front, _ := cs["nobitsfront"].(bool)
	certPad, _ := cs["certpad"].(bool)
	return peSpec{CertPad: certPad, NoBits: caseInts(cs["nobits"]), NoBitsFront: front, Plus: plus, Lfanew: int(cs.I("lfanew")), NDirs: int(cs.I("ndirs")), SecSizes: caseInts(cs["secsizes"]), HdrOrder: caseInts(cs["hdrorder"]),
		GapAfterH: int(cs.I("gapafterh")), Gaps: caseInts(cs["gaps"]), SohSlack: int(cs.I("sohslack")), Trailing: int(cs.I("trailing")), CertBodies: caseInts(cs["certbodies"]),
		Machine: uint16(cs.I("machine")), Seed: cs.I("seed"), VSizes: caseInts(cs["vsizes"]), CertAddrKind: int(cs.I("certaddr")), CertAddrSalt: int(cs.I("certaddrsalt"))}
}
