package main

import (
	"reflect"

	"github.com/foxboron/go-uefi/pkcs7"
)

func pkcs7Parse(b []byte) (*pkcs7.PKCS7, error) { return pkcs7.ParsePKCS7(b) }

// rawAttrs returns the attributes as transmitted if the (repaired) library keeps them, read through
// reflection so that the harness also builds against a tree without that field.
func rawAttrs(a *pkcs7.Attributes) []byte {
	v := reflect.ValueOf(a).Elem()
	for _, name := range []string{"raw", "Raw"} {
		f := v.FieldByName(name)
		if f.IsValid() && f.Kind() == reflect.Slice {
			return f.Bytes()
		}
	}
	return nil
}
