package main

import (
	"context"
	"errors"
	"fmt"
	"io"
	"io/fs"
	"os"
	"path/filepath"
	"sync"
	"syscall"
	"time"

	"github.com/spf13/afero"
)

// recFs records every call the library makes on the filesystem it was given, and can inject a
// fault at the k-th call (C15).
type recFs struct {
	inner  afero.Fs
	mu     sync.Mutex
	log    []string
	name   string
	faultK int    // index of the call to fail (-1: none)
	kind   string // "error" | "short1" | "short0" | one of wrappedFaultKinds (the error of the failing call wraps a sentinel)
	n      int
	// calls on one file (OpenFile of a path and Write / Close / Stat on the file it returned), per path: what one
	// variable write did when several callers use the filesystem at once
	plog map[string][]string
	// gate, when set, is called at the entry of every Write on a file, before the call is recorded and carried out: a
	// caller-supplied filesystem may take its time (C11: it parks the Write until the other writers have reached theirs)
	gate func(path string)
	// chunk > 0: a Read on a file delivers at most that many bytes per call (a filesystem is free to: pipes, FUSE,
	// network filesystems), without an error
	chunk int
	// noParents: the filesystem does not create missing directories on its own, as the machine's own filesystems (and
	// afero's OsFs / BasePathFs over them) do not: an OpenFile with O_CREATE of a path whose directory does not exist
	// fails with a not-exist error (afero's MemMapFs would silently create the directory)
	noParents bool
}

var errInjected = errors.New("injected fault")

// wrappedFaultKinds: the failing call returns an error that WRAPS one of the sentinel errors a dependency's own
// dependencies produce (a layered / remote filesystem, a network-backed reader, a token behind a context): the call
// failed - errors.Is finds the sentinel, == does not.  A wrapped io.EOF is not the end of the data.
var wrappedFaultKinds = []string{"wraps-eof", "wraps-unexpected-eof", "wraps-closed", "wraps-canceled", "wraps-deadline"}

func isWrappedFaultKind(kind string) bool {
	for _, k := range wrappedFaultKinds {
		if k == kind {
			return true
		}
	}
	return false
}

// injectedErr is the error of a failing dependency call for a fault kind
func injectedErr(kind string) error {
	switch kind {
	case "wraps-eof":
		return fmt.Errorf("injected fault: backend connection lost: %w", io.EOF)
	case "wraps-unexpected-eof":
		return fmt.Errorf("injected fault: backend reply truncated: %w", io.ErrUnexpectedEOF)
	case "wraps-closed":
		return &fs.PathError{Op: "injected fault", Path: "backend", Err: fs.ErrClosed}
	case "wraps-canceled":
		return fmt.Errorf("injected fault: backend request: %w", context.Canceled)
	case "wraps-deadline":
		return fmt.Errorf("injected fault: backend request: %w", context.DeadlineExceeded)
	}
	return errInjected
}

func (r *recFs) err() error { return injectedErr(r.kind) }

func newRecFs(inner afero.Fs) *recFs { return &recFs{inner: inner, name: "MemMapFS", faultK: -1} }

// step records a call and reports whether it must fail
func (r *recFs) step(s string) bool { return r.stepF(s, false) }

// stepF is step for a call that fails for a reason of its own (force)
func (r *recFs) stepF(s string, force bool) bool {
	r.mu.Lock()
	defer r.mu.Unlock()
	k := r.n
	r.n++
	fail := k == r.faultK || force
	if fail {
		s += "!"
	}
	r.log = append(r.log, s)
	return fail
}

// stepAt is step for a call that belongs to one file
func (r *recFs) stepAt(path, s string) bool { return r.stepAtF(path, s, false) }

func (r *recFs) stepAtF(path, s string, force bool) bool {
	fail := r.stepF(s, force)
	if fail {
		s += "!"
	}
	r.mu.Lock()
	if r.plog == nil {
		r.plog = map[string][]string{}
	}
	r.plog[path] = append(r.plog[path], s)
	r.mu.Unlock()
	return fail
}

// LogOf returns the calls made on one file
func (r *recFs) LogOf(path string) []string {
	r.mu.Lock()
	defer r.mu.Unlock()
	return append([]string{}, r.plog[path]...)
}

func (r *recFs) Log() []string { r.mu.Lock(); defer r.mu.Unlock(); return append([]string{}, r.log...) }
func (r *recFs) Calls() int    { r.mu.Lock(); defer r.mu.Unlock(); return r.n }

func (r *recFs) Create(name string) (afero.File, error) {
	if r.step("create(" + name + ")") {
		return nil, r.err()
	}
	f, err := r.inner.Create(name)
	return r.wrap(f, name), err
}
func (r *recFs) Mkdir(name string, perm os.FileMode) error {
	r.step("mkdir(" + name + ")")
	return r.inner.Mkdir(name, perm)
}
func (r *recFs) MkdirAll(path string, perm os.FileMode) error {
	r.step("mkdirall(" + path + ")")
	return r.inner.MkdirAll(path, perm)
}
func (r *recFs) Open(name string) (afero.File, error) {
	if r.step("open(" + name + ")") {
		return nil, r.err()
	}
	f, err := r.inner.Open(name)
	if err != nil {
		return nil, err
	}
	return r.wrap(f, name), nil
}
func (r *recFs) OpenFile(name string, flag int, perm os.FileMode) (afero.File, error) {
	missing := false
	if r.noParents && flag&os.O_CREATE != 0 {
		if fi, serr := r.inner.Stat(filepath.Dir(name)); serr != nil || !fi.IsDir() {
			missing = true
		}
	}
	if r.stepAtF(name, fmt.Sprintf("openfile(%s,%d,%d)", name, flag, perm), missing) {
		if missing {
			return nil, &os.PathError{Op: "open", Path: name, Err: syscall.ENOENT}
		}
		return nil, r.err()
	}
	f, err := r.inner.OpenFile(name, flag, perm)
	if err != nil {
		return nil, err
	}
	return r.wrap(f, name), nil
}
func (r *recFs) Remove(name string) error {
	r.step("remove(" + name + ")")
	return r.inner.Remove(name)
}
func (r *recFs) RemoveAll(path string) error {
	r.step("removeall(" + path + ")")
	return r.inner.RemoveAll(path)
}
func (r *recFs) Rename(o, n string) error {
	r.step("rename(" + o + "," + n + ")")
	return r.inner.Rename(o, n)
}
func (r *recFs) Stat(name string) (os.FileInfo, error) {
	if r.step("fsstat(" + name + ")") {
		return nil, r.err()
	}
	return r.inner.Stat(name)
}
func (r *recFs) Name() string { return r.name }
func (r *recFs) Chmod(name string, mode os.FileMode) error {
	r.step("chmod(" + name + ")")
	return r.inner.Chmod(name, mode)
}
func (r *recFs) Chown(name string, uid, gid int) error {
	r.step("chown(" + name + ")")
	return r.inner.Chown(name, uid, gid)
}
func (r *recFs) Chtimes(n string, a, m time.Time) error {
	r.step("chtimes(" + n + ")")
	return r.inner.Chtimes(n, a, m)
}
func (r *recFs) wrap(f afero.File, name string) afero.File {
	if f == nil {
		return nil
	}
	return &recFile{File: f, r: r, path: name}
}

type recFile struct {
	afero.File
	r    *recFs
	path string
}

func (f *recFile) Write(p []byte) (int, error) {
	if f.r.gate != nil {
		f.r.gate(f.path)
	}
	if f.r.stepAt(f.path, "write("+hx(p)+")") {
		switch f.r.kind {
		case "short1":
			if len(p) > 0 {
				n, _ := f.File.Write(p[:len(p)-1])
				return n, nil
			}
			return 0, nil
		case "short0":
			return 0, nil
		}
		return 0, f.r.err()
	}
	return f.File.Write(p)
}
func (f *recFile) Read(p []byte) (int, error) {
	if f.r.stepAt(f.path, fmt.Sprintf("read(%d)", len(p))) {
		switch f.r.kind {
		case "short1":
			if len(p) > 1 {
				return f.File.Read(p[:len(p)-1])
			}
			return 0, nil
		case "short0":
			return 0, nil
		}
		return 0, f.r.err()
	}
	if f.r.chunk > 0 && len(p) > f.r.chunk {
		p = p[:f.r.chunk]
	}
	return f.File.Read(p)
}
func (f *recFile) Close() error {
	if f.r.stepAt(f.path, "close") {
		f.File.Close()
		return f.r.err()
	}
	return f.File.Close()
}
func (f *recFile) Stat() (os.FileInfo, error) {
	if f.r.stepAt(f.path, "stat") {
		return nil, f.r.err()
	}
	return f.File.Stat()
}
func (f *recFile) WriteAt(p []byte, off int64) (int, error) {
	f.r.stepAt(f.path, fmt.Sprintf("writeat(%s,%d)", hx(p), off))
	return f.File.WriteAt(p, off)
}
func (f *recFile) WriteString(s string) (int, error) {
	f.r.stepAt(f.path, "writestring("+hx([]byte(s))+")")
	return f.File.WriteString(s)
}
func (f *recFile) Truncate(n int64) error {
	f.r.stepAt(f.path, fmt.Sprintf("truncate(%d)", n))
	return f.File.Truncate(n)
}
func (f *recFile) Seek(o int64, w int) (int64, error) {
	f.r.stepAt(f.path, fmt.Sprintf("seek(%d,%d)", o, w))
	return f.File.Seek(o, w)
}
func (f *recFile) ReadAt(p []byte, off int64) (int, error) {
	f.r.stepAt(f.path, fmt.Sprintf("readat(%d,%d)", len(p), off))
	return f.File.ReadAt(p, off)
}
func (f *recFile) Sync() error { f.r.stepAt(f.path, "sync"); return f.File.Sync() }
