package main

import (
	"bytes"
	"crypto"
	"crypto/sha256"
	"crypto/x509"
	"crypto/x509/pkix"
	"encoding/binary"
	"fmt"
	"math/big"
	"os"
	"path/filepath"
	"strings"

	"github.com/foxboron/go-uefi/authenticode"
	"github.com/foxboron/go-uefi/efi/signature"
)

// bad certificate fields among the table entries of an image (for the model's opaque certsOk)
func badCertsArg(c *Ctx, img []byte) string {
	var bad []string
	for _, e := range extractCertTable(img) {
		cf := c.Drv.Ask("p7.certs", hx(e))
		if strings.HasPrefix(cf, "some ") {
			if _, err := x509.ParseCertificates(unhx(cf[5:])); err != nil {
				bad = append(bad, cf[5:])
			}
		}
	}
	if len(bad) == 0 {
		return "-"
	}
	return strings.Join(bad, ",")
}

func goVerifyClass(img []byte, cert *x509.Certificate) string {
	var p *authenticode.PECOFFBinary
	var err error
	if pan, _ := safely(func() { p, err = authenticode.Parse(bytes.NewReader(img)) }); pan {
		return "parse-panic"
	}
	if err != nil {
		return "parse-err"
	}
	var ok bool
	if pan, _ := safely(func() { ok, err = p.Verify(cert) }); pan {
		return "panic"
	}
	if err != nil {
		return "err"
	}
	return fmt.Sprintf("ok %v", ok)
}

// (model class, spec verdict)
func askPeVerify(c *Ctx, img []byte, cert *x509.Certificate) (string, string) {
	r := c.Drv.Ask("pe.verify", append([]string{hx(img), badCertsArg(c, img)}, certArgs(cert)...)...)
	mi := strings.Index(r, " spec=")
	if !strings.HasPrefix(r, "model=") || mi < 0 {
		return "driver:" + r, "?"
	}
	sp := r[mi+len(" spec="):]
	if li := strings.Index(sp, " len="); li >= 0 {
		sp = sp[:li]
	}
	return r[len("model="):mi], sp
}

// askPeVerifyLenient: (model, strict Spec verdict, tolerant Spec verdict). The tolerant reading stops at the first
// position of the certificate table that cannot hold an entry instead of rejecting the table; it is what
// "success => the image carries such a signature" is judged by (bytes behind the last entry are unsigned).
func askPeVerifyLenient(c *Ctx, img []byte, cert *x509.Certificate) (string, string, string) {
	r := c.Drv.Ask("pe.verify", append([]string{hx(img), badCertsArg(c, img)}, certArgs(cert)...)...)
	mi := strings.Index(r, " spec=")
	if !strings.HasPrefix(r, "model=") || mi < 0 {
		return "driver:" + r, "?", "?"
	}
	sp := r[mi+len(" spec="):]
	ln := sp
	if li := strings.Index(sp, " len="); li >= 0 {
		ln = sp[li+len(" len="):]
		sp = sp[:li]
	}
	return r[len("model="):mi], sp, ln
}

// the 32-byte digest embedded in an Authenticode signature blob, located independently of the library
func embeddedDigest(blob []byte) []byte {
	roots, ok := parseDER(blob)
	if !ok || len(roots) == 0 {
		return nil
	}
	var out []byte
	sd := roots[0]
	if len(sd.kids) == 2 && sd.kids[0].tag == 0x06 && len(sd.kids[1].kids) == 1 {
		sd = sd.kids[1].kids[0]
	}
	if len(sd.kids) < 3 || len(sd.kids[2].kids) < 2 {
		return nil
	}
	sd.kids[2].kids[1].walk(nil, func(n, _ *derNode) {
		if n.tag == 0x04 && len(n.leaf) == 32 {
			out = n.leaf
		}
	})
	return out
}

type signStep struct {
	key     int // key index in the pool
	reparse bool
}

// independent header walk: offset of the certificate-table directory entry and end of the signed body
func peOffsets(img []byte) (dd, bodyEnd int) {
	pe := int(binary.LittleEndian.Uint32(img[0x3c:]))
	opt := pe + 24
	dd = opt + 128
	if binary.LittleEndian.Uint16(img[opt:]) == 0x20b {
		dd = opt + 144
	}
	bodyEnd = len(img) - int(binary.LittleEndian.Uint32(img[dd+4:]))
	return
}

func c03Eval(c *Ctx, cs Case) {
	var s peSpec
	var b builtPE
	if cs.S("path") != "" {
		img, err := os.ReadFile(filepath.Join(c.RepoDir, cs.S("path")))
		if err != nil || len(img) < 0x100 {
			return
		}
		b.img = img
		b.dd, b.bodyEnd = peOffsets(img)
	} else {
		s = specOfCase(cs)
		s.CertBodies = nil // opaque table entries are C01's business; "already signed" means real signatures here
		b = buildPE(s)
	}
	img := b.img
	var steps []signStep
	for _, st := range caseInts(cs["steps"]) {
		steps = append(steps, signStep{key: st / 2, reparse: st%2 == 1})
	}
	bits := 2048
	if v := cs.I("bits"); v != 0 {
		bits = int(v)
	}
	shapes := certShapes(c)
	certOf := func(k int) (*x509.Certificate, crypto.Signer) {
		key := poolKey(c, bits, k)
		if pad := int(cs.I("cnpad")); pad > 0 {
			// names of every length residue: the signature length, hence the entry padding, takes every value mod 8
			// and, by pad mod 3: all different / one serial under different names / one name under different serials
			name, serial := fmt.Sprintf("signer%d%s", k, strings.Repeat("p", pad-1)), int64(k+1)
			switch pad % 3 {
			case 1:
				serial = 7
			case 2:
				name = "signer" + strings.Repeat("p", pad)
			}
			return makeRSACert(key, certShape{issuer: pkix.Name{CommonName: name}, serial: big.NewInt(serial), desc: fmt.Sprintf("pad%d/%s/%d", pad, name, serial)}), key
		}
		if k == 1 {
			return makeRSACert(key, shapes[9]), key // issued by a CA: issuer and subject differ
		}
		return makeRSACert(key, shapes[k%len(shapes)]), key
	}
	cls := "fixture"
	if cs.S("path") == "" {
		cls = s.class()
	}
	c.Count(cs.Key(), true, fmt.Sprintf("sign/%s/steps%d", cls, len(steps)))
	c.Sample(cs)
	fail := func(what, goObs, spec string) {
		c.Fail(Failure{Kind: "property", What: what, Case: cs, Go: clip(goObs), Spec: clip(spec)})
	}
	if wf := fieldAfter(c.Drv.Ask("pe.spec", hx(img)), "wf="); wf != "true" {
		c.Fail(Failure{Kind: "tie", What: "generator produced an image the Spec does not consider well-formed", Case: cs})
		return
	}
	var p *authenticode.PECOFFBinary
	var err error
	if pan, msg := safely(func() { p, err = authenticode.Parse(bytes.NewReader(img)) }); pan || err != nil {
		fail("Parse failed on a well-formed image", fmt.Sprint(msg, err), "")
		return
	}
	before := p.Hash(crypto.SHA256)
	bodyEnd := b.bodyEnd
	oldEntries := extractCertTable(img)
	var sigs [][]byte
	signedBy := map[int]bool{}
	type heldImage struct {
		step      int
		out, snap []byte
	}
	var held []*heldImage
	stillIntact := func(during string) {
		for _, h := range held {
			if !bytes.Equal(h.out, h.snap) {
				d := 0
				for d < len(h.out) && d < len(h.snap) && h.out[d] == h.snap[d] {
					d++
				}
				fail(fmt.Sprintf("the bytes returned by Bytes() after step %d changed during %s (the result aliases memory that is reused)", h.step, during), fmt.Sprintf("first difference at offset %d of %d: %s", d, len(h.snap), hx(h.out[d:min(len(h.out), d+16)])), hx(h.snap[d:min(len(h.snap), d+16)]))
				h.out = h.snap // reported once
			}
		}
	}
	for i, st := range steps {
		cert, key := certOf(st.key)
		var sig []byte
		if pan, msg := safely(func() { sig, err = p.Sign(key, cert) }); pan || err != nil {
			fail(fmt.Sprintf("step %d: Sign failed", i), fmt.Sprint(msg, err), "")
			return
		}
		sigs = append(sigs, sig)
		signedBy[st.key] = true
		c.Class(fmt.Sprintf("signature-length-mod-8=%d", len(sig)%8))
		out := p.Bytes()
		// every serialised image of the history is still held by the caller (written to disk later, compared,
		// handed to a verifier): it is a value of its own and must not change when the object is signed and
		// serialised again
		stillIntact(fmt.Sprintf("Sign and Bytes() of step %d", i))
		held = append(held, &heldImage{step: i, out: out, snap: append([]byte{}, out...)})
		if st.reparse {
			if pan, msg := safely(func() { p, err = authenticode.Parse(bytes.NewReader(out)) }); pan || err != nil {
				fail(fmt.Sprintf("step %d: re-parsing the signed output failed", i), fmt.Sprint(msg, err), "")
				return
			}
		}
		// ---- layout oracle, independent of the library ----
		if len(out) < bodyEnd || !bytes.Equal(out[:b.dd], img[:b.dd]) || !bytes.Equal(out[b.dd+8:bodyEnd], img[b.dd+8:bodyEnd]) {
			fail(fmt.Sprintf("step %d: an original byte outside the certificate-table directory entry changed", i), "", "")
			return
		}
		va, sz := int(binary.LittleEndian.Uint32(out[b.dd:])), int(binary.LittleEndian.Uint32(out[b.dd+4:]))
		padEnd := (bodyEnd + 7) &^ 7
		if va != padEnd || va+sz != len(out) || va%8 != 0 || sz%8 != 0 {
			fail(fmt.Sprintf("step %d: the directory entry does not span an 8-aligned table exactly to end of file", i), fmt.Sprintf("va=%d sz=%d len=%d", va, sz, len(out)), fmt.Sprintf("va=%d va+sz=%d", padEnd, len(out)))
			return
		}
		if !bytes.Equal(out[bodyEnd:padEnd], make([]byte, padEnd-bodyEnd)) {
			fail(fmt.Sprintf("step %d: the file is not zero-padded to 8 bytes before the table", i), hx(out[bodyEnd:padEnd]), "zeros")
		}
		walk := c.Drv.Ask("pe.walk", hx(out))
		if !strings.HasPrefix(walk, "some ") {
			fail(fmt.Sprintf("step %d: the certificate table of the output is not well-formed (independent walker)", i), walk, "some …")
			return
		}
		wantEntries := []string{}
		for _, e := range oldEntries {
			h := sha256.Sum256(e)
			wantEntries = append(wantEntries, fmt.Sprintf("(%d;512;2;%s)", 8+len(e), hx(h[:])))
		}
		for _, sg := range sigs {
			h := sha256.Sum256(sg)
			wantEntries = append(wantEntries, fmt.Sprintf("(%d;512;2;%s)", 8+len(sg), hx(h[:])))
		}
		if got := fieldAfter(walk, "entries="); got != "["+strings.Join(wantEntries, ",")+"]" {
			fail(fmt.Sprintf("step %d: table entries are not the old entries followed by revision-2.0 PKCS#7 WIN_CERTIFICATEs of the new signatures with correct lengths", i), got, "["+strings.Join(wantEntries, ",")+"]")
		}
		// embedded digest = unpadded specification digest of the output file itself
		spec := c.Drv.Ask("pe.spec", hx(out))
		if fieldAfter(spec, "wf=") != "true" {
			fail(fmt.Sprintf("step %d: the signed output is not a well-formed image", i), "", "")
			return
		}
		want := sha256.Sum256(unhx(fieldAfter(spec, "pre=")))
		if d := embeddedDigest(sig); !bytes.Equal(d, want[:]) {
			fail(fmt.Sprintf("step %d: the digest embedded in the signature is not the specification digest of the output file", i), hx(d), hx(want[:]))
		}
		if !bytes.Equal(before, want[:]) {
			fail(fmt.Sprintf("step %d: the digest changed by signing", i), hx(before), hx(want[:]))
		}
		var p2 *authenticode.PECOFFBinary
		if pan, _ := safely(func() { p2, err = authenticode.Parse(bytes.NewReader(out)) }); pan || err != nil {
			fail(fmt.Sprintf("step %d: re-parsing the output failed", i), fmt.Sprint(err), "")
			return
		} else if d := p2.Hash(crypto.SHA256); !bytes.Equal(d, before) {
			fail(fmt.Sprintf("step %d: re-parsing the output reports a different digest than before signing", i), hx(d), hx(before))
		}
		// verification matrix: every signer so far verifies, a non-signer does not
		for k := 0; k < 4; k++ {
			cert, _ := certOf(k)
			got := goVerifyClass(out, cert)
			if signedBy[k] && got != "ok true" {
				fail(fmt.Sprintf("step %d: the output does not verify against certificate %d, which signed it", i, k), got, "ok true")
			}
			if !signedBy[k] && got == "ok true" {
				fail(fmt.Sprintf("step %d: the output verifies against certificate %d, which did not sign it", i, k), got, "not ok")
			}
			c.Trace()
			if m, sp := askPeVerify(c, out, cert); m != got || (got == "ok true") != (sp == "true") {
				c.Fail(Failure{Kind: "tie", What: fmt.Sprintf("step %d cert %d: Verify model/spec/implementation disagree", i, k), Case: cs, Model: m + " spec=" + sp, Go: got})
			}
		}
		// the same questions asked of the very object that was signed (no re-parse): what Verify / Signatures
		// answered between two signings must not stick
		{
			var sl []*signature.WINCertificate
			var serr error
			if pan, msg := safely(func() { sl, serr = p.Signatures() }); pan || serr != nil {
				fail(fmt.Sprintf("step %d: Signatures() of the signed object failed", i), fmt.Sprint(msg, serr), "")
			} else if len(sl) != len(oldEntries)+len(sigs) {
				fail(fmt.Sprintf("step %d: Signatures() of the signed object lists %d entries", i, len(sl)), fmt.Sprint(len(sl)), fmt.Sprint(len(oldEntries)+len(sigs)))
			}
			for k := 0; k < 4; k++ {
				cert, _ := certOf(k)
				var ok bool
				var verr error
				if pan, _ := safely(func() { ok, verr = p.Verify(cert) }); pan {
					fail(fmt.Sprintf("step %d: Verify on the signed object panicked", i), "panic", "")
					continue
				}
				if signedBy[k] != (ok && verr == nil) {
					fail(fmt.Sprintf("step %d: Verify on the signed object itself (certificate %d, signed by it: %v)", i, k, signedBy[k]), fmt.Sprint(ok, verr), fmt.Sprint(signedBy[k]))
				}
			}
			if d := p.Hash(crypto.SHA256); !bytes.Equal(d, before) {
				fail(fmt.Sprintf("step %d: Hash() of the signed object differs from the digest before signing", i), hx(d), hx(before))
			}
			// serialising again without a change in between yields the same bytes as a second value
			var again []byte
			if pan, _ := safely(func() { again = p.Bytes() }); pan || !bytes.Equal(again, held[len(held)-1].snap) {
				fail(fmt.Sprintf("step %d: a second Bytes() of the signed (or, after a re-parse step, re-parsed) object differs from the first", i), clip(hx(again)), "")
			}
			stillIntact(fmt.Sprintf("Signatures/Verify/Hash/Bytes of the object after step %d", i))
		}
		// ---- byte-exact correspondence with the Lean model (no re-parsing on the model side) ----
		c.Trace()
		args := []string{hx(img)}
		for _, sg := range sigs {
			args = append(args, hx(sg))
		}
		if m := c.Drv.Ask("pe.append", args...); m != "ok "+hx(out) {
			c.Fail(Failure{Kind: "tie", What: fmt.Sprintf("step %d: Bytes() differs from the Lean model of AppendSignature/Bytes", i), Case: cs, Model: clip(m), Go: clip(hx(out))})
			return
		}
	}
}

func c03Gen(c *Ctx) {
	bitsets := []int{2048}
	if c.Thorough {
		bitsets = []int{2048, 2048, 3072, 4096}
	}
	keys := []int{0, 1, 3} // key 2 never signs
	mkSteps := func() []interface{} {
		n := 1 + c.Rng.Intn(4)
		var steps []interface{}
		for j := 0; j < n; j++ {
			steps = append(steps, int64(2*keys[c.Rng.Intn(3)]+c.Rng.Intn(2)))
		}
		return steps
	}
	// third-party signed and unsigned binaries of the repository as starting points
	for _, f := range []string{"tests/data/binary/HelloWorld.efi", "tests/data/binary/HelloWorld.efi.signed", "authenticode/testdata/test.pecoff", "authenticode/testdata/test.pecoff.signed"} {
		c03Eval(c, Case{"op": "sign-history", "path": f, "steps": mkSteps(), "bits": int64(2048), "cnpad": int64(c.Rng.Intn(9))})
	}
	for i := 0; i < c.N(50, 3000) && c.NFailures() < 6; i++ {
		s := genPeSpec(c, i%20 == 0)
		cs := specCase(s)
		steps := mkSteps()
		cs["op"] = "sign-history"
		cs["steps"] = steps
		cs["bits"] = int64(bitsets[c.Rng.Intn(len(bitsets))])
		cs["cnpad"] = int64(i % 9) // 0: the standard shapes; 1..8: common names of 8 consecutive lengths
		c03Eval(c, cs)
	}
}

func init() {
	register("C03", &PropDef{
		Rule:   "well-formed images from the C01 generator (all layout classes; unsigned and with an existing 1- or 2-entry certificate table) x signing histories of 1..3 signatures by two RSA keys (one under a CA-issued certificate; 2048; thorough also 3072/4096) in any order, the same key possibly twice, under certificates whose names run through 8 consecutive lengths so that the signature length takes every residue mod 8, the signers' certificates sharing nothing / the serial number only / the issuer name only, with serialise/re-parse after a random subset of steps; every third image carries a left-over certificate-table address with size 0 in its directory entry (address classes as in C01: 1, inside headers / sections / trailing data, end of sections, file end, padded file end, beyond the file, 2^32-1), i.e. an image whose signatures were removed by clearing the size; every serialised image of a history stays held (with a private copy) while the object is signed, queried and serialised again and is compared with its copy after each step, and each step serialises twice; after every step the output bytes are checked by an independent walker, its digest by the Lean Spec, and the 3-certificate verification matrix by the library, the Lean Impl model and the Lean Spec. Every case is non-trivial; distinct = distinct (image spec, history).",
		Assume: []string{"no two signing certificates share both issuer and serial (two different keys under one issuer+serial make the verification loop stop with an error at the first of them; noted, not claimed)", "RSA PKCS#1 v1.5 signatures are deterministic"},
		Eval:   c03Eval, Gen: c03Gen,
	})
}
