package main

import (
	"bytes"
	"crypto"
	"crypto/sha256"
	"crypto/x509"
	"crypto/x509/pkix"
	"encoding/binary"
	"encoding/hex"
	"errors"
	"fmt"
	"io"
	"math/big"
	"os"
	"path/filepath"
	"strings"

	"github.com/foxboron/go-uefi/authenticode"
	"github.com/foxboron/go-uefi/efi/signature"
)

// bad certificate fields among the table entries of an image (for the model's opaque certsOk)
func badCertsArg(c *Ctx, img []byte) string {
	var bad []string
	for _, e := range extractCertTable(img) {
		cf := c.Drv.Ask("p7.certs", hx(e))
		if strings.HasPrefix(cf, "some ") {
			if _, err := x509.ParseCertificates(unhx(cf[5:])); err != nil {
				bad = append(bad, cf[5:])
			}
		}
	}
	if len(bad) == 0 {
		return "-"
	}
	return strings.Join(bad, ",")
}

func goVerifyClass(img []byte, cert *x509.Certificate) string {
	var p *authenticode.PECOFFBinary
	var err error
	if pan, _ := safely(func() { p, err = authenticode.Parse(bytes.NewReader(img)) }); pan {
		return "parse-panic"
	}
	if err != nil {
		return "parse-err"
	}
	var ok bool
	if pan, _ := safely(func() { ok, err = p.Verify(cert) }); pan {
		return "panic"
	}
	if err != nil {
		return "err"
	}
	return fmt.Sprintf("ok %v", ok)
}

// (model class, spec verdict)
func askPeVerify(c *Ctx, img []byte, cert *x509.Certificate) (string, string) {
	r := c.Drv.Ask("pe.verify", append([]string{hx(img), badCertsArg(c, img)}, certArgs(cert)...)...)
	mi := strings.Index(r, " spec=")
	if !strings.HasPrefix(r, "model=") || mi < 0 {
		return "driver:" + r, "?"
	}
	sp := r[mi+len(" spec="):]
	if li := strings.Index(sp, " len="); li >= 0 {
		sp = sp[:li]
	}
	return r[len("model="):mi], sp
}

// askPeVerifyLenient: (model, strict Spec verdict, tolerant Spec verdict). The tolerant reading stops at the first
// position of the certificate table that cannot hold an entry instead of rejecting the table; it is what
// "success => the image carries such a signature" is judged by (bytes behind the last entry are unsigned).
func askPeVerifyLenient(c *Ctx, img []byte, cert *x509.Certificate) (string, string, string) {
	r := c.Drv.Ask("pe.verify", append([]string{hx(img), badCertsArg(c, img)}, certArgs(cert)...)...)
	mi := strings.Index(r, " spec=")
	if !strings.HasPrefix(r, "model=") || mi < 0 {
		return "driver:" + r, "?", "?"
	}
	sp := r[mi+len(" spec="):]
	ln := sp
	if li := strings.Index(sp, " len="); li >= 0 {
		ln = sp[li+len(" len="):]
		sp = sp[:li]
	}
	return r[len("model="):mi], sp, ln
}

// the 32-byte digest embedded in an Authenticode signature blob, located independently of the library
func embeddedDigest(blob []byte) []byte {
	roots, ok := parseDER(blob)
	if !ok || len(roots) == 0 {
		return nil
	}
	var out []byte
	sd := roots[0]
	if len(sd.kids) == 2 && sd.kids[0].tag == 0x06 && len(sd.kids[1].kids) == 1 {
		sd = sd.kids[1].kids[0]
	}
	if len(sd.kids) < 3 || len(sd.kids[2].kids) < 2 {
		return nil
	}
	sd.kids[2].kids[1].walk(nil, func(n, _ *derNode) {
		if n.tag == 0x04 && len(n.leaf) == 32 {
			out = n.leaf
		}
	})
	return out
}

// the io.ReaderAt kinds of C03 (index = the case's "rd" / "rd2"; 0 is what every older case means)
var c03ReaderKinds = []string{"bytes.Reader", "eof-with-last-read", "section-window", "section-oversized", "section-unbounded", "size-is-capacity", "strings.Reader", "os.File"}

// capReaderAt: a caller's ReaderAt that also has a Size method - the capacity of the storage it reads from, which
// is larger than the file in it
type capReaderAt struct {
	io.ReaderAt
	capacity int64
}

func (r capReaderAt) Size() int64 { return r.capacity }

type signStep struct {
	key     int // key index in the pool
	reparse bool
}

// independent header walk: offset of the certificate-table directory entry and end of the signed body
func peOffsets(img []byte) (dd, bodyEnd int) {
	pe := int(binary.LittleEndian.Uint32(img[0x3c:]))
	opt := pe + 24
	dd = opt + 128
	if binary.LittleEndian.Uint16(img[opt:]) == 0x20b {
		dd = opt + 144
	}
	bodyEnd = len(img) - int(binary.LittleEndian.Uint32(img[dd+4:]))
	return
}

func c03Eval(c *Ctx, cs Case) {
	var s peSpec
	var b builtPE
	if cs.S("path") != "" {
		img, err := os.ReadFile(filepath.Join(c.RepoDir, cs.S("path")))
		if err != nil || len(img) < 0x100 {
			return
		}
		b.img = img
		b.dd, b.bodyEnd = peOffsets(img)
	} else {
		s = specOfCase(cs)
		s.CertBodies = nil // opaque table entries are C01's business; "already signed" means real signatures here
		b = buildPE(s)
	}
	img := b.img
	var steps []signStep
	for _, st := range caseInts(cs["steps"]) {
		steps = append(steps, signStep{key: st / 2, reparse: st%2 == 1})
	}
	bits := 2048
	if v := cs.I("bits"); v != 0 {
		bits = int(v)
	}
	shapes := certShapes(c)
	// the certificate a key signs under: its name and serial number (a function of the case and of the key index)
	shapeOf := func(k int) certShape {
		if dn := int(cs.I("dn")); dn > 0 {
			// names as commercial and corporate CAs issue them: C, ST, L, O, OU and CN, 100..300 bytes of DER in all
			// (the lengths run with dn and the key), under serial numbers of 16..20 octets (high bit clear / set)
			w := func(base string, n int) string { return (base + strings.Repeat(" "+base, n/(len(base)+1)+1))[:n] }
			n := 8 + 9*((dn+3*k)%5)
			name := pkix.Name{Country: []string{"NO"}, Province: []string{w("Vestland fylke", n)}, Locality: []string{w("Bergen", 6+n/2)},
				Organization: []string{w("Verification Authority Holding AS", 20+n)}, OrganizationalUnit: []string{w("Secure Boot Signing Services", 12+n)},
				CommonName: w(fmt.Sprintf("Code Signing CA %d G%d", k, dn), 24+n/2)}
			sb := sha256.Sum256([]byte(fmt.Sprintf("serial %d %d", dn, k)))
			ser := sb[:16+(dn+k)%5]
			ser[0] = ser[0]&0x7f | 0x01 | byte(dn%2)<<7
			return certShape{issuer: name, serial: new(big.Int).SetBytes(ser), desc: fmt.Sprintf("dn%d/key%d/%d", dn, k, len(ser))}
		}
		if pad := int(cs.I("cnpad")); pad > 0 {
			// names of every length residue: the signature length, hence the entry padding, takes every value mod 8
			// and, by pad mod 3: all different / one serial under different names / one name under different serials
			name, serial := fmt.Sprintf("signer%d%s", k, strings.Repeat("p", pad-1)), int64(k+1)
			switch pad % 3 {
			case 1:
				serial = 7
			case 2:
				name = "signer" + strings.Repeat("p", pad)
			}
			return certShape{issuer: pkix.Name{CommonName: name}, serial: big.NewInt(serial), desc: fmt.Sprintf("pad%d/%s/%d", pad, name, serial)}
		}
		if k == 1 {
			return shapes[9] // issued by a CA: issuer and subject differ
		}
		return shapes[k%len(shapes)]
	}
	certOf := func(k int) (*x509.Certificate, crypto.Signer) {
		key := poolKey(c, bits, k)
		return makeRSACert(key, shapeOf(k)), key
	}
	// twinOf: a certificate with the issuer name and serial number of key k's certificate (what a signature names its
	// signer by) that holds ANOTHER public key - a re-keyed certificate, or one made to look like the signer's. It
	// signed nothing.
	twinOf := func(k int) *x509.Certificate {
		return makeRSACert(poolKey(c, 2048, 4+k%2), shapeOf(k))
	}
	cls := "fixture"
	if cs.S("path") == "" {
		cls = s.class()
	}
	c.Count(cs.Key(), true, fmt.Sprintf("sign/%s/steps%d", cls, len(steps)))
	c.Sample(cs)
	fail := func(what, goObs, spec string) {
		if k := int(cs.I("rd")); k%len(c03ReaderKinds) != 0 {
			what += " [the object that is signed was parsed through: " + c03ReaderKinds[k%len(c03ReaderKinds)] + "]"
		}
		c.Fail(Failure{Kind: "property", What: what, Case: cs, Go: clip(goObs), Spec: clip(spec)})
	}
	spec0 := c.Drv.Ask("pe.spec", hx(img))
	if wf := fieldAfter(spec0, "wf="); wf != "true" {
		c.Fail(Failure{Kind: "tie", What: "generator produced an image the Spec does not consider well-formed", Case: cs})
		return
	}
	pre0 := unhx(fieldAfter(spec0, "pre="))
	// pair mode: the history is signed while a second image (the partner) is signed by another goroutine through its
	// own object; the two take turns at read granularity under the case's schedule (sched.go)
	pair := cs.I("pair") != 0
	sch := newTurnSched()
	quanta := caseInts(cs["sched"])
	// the io.ReaderAt kinds the image and the signed files are handed over with: rd for the object that is signed
	// (first Parse and the re-parse steps of the history), rd2 for the re-parse of every output. An image is the
	// bytes a reader delivers; what else the reader's type can do (Size, Stat, Len, Seek) is the caller's business.
	var open []*os.File
	defer func() {
		for _, f := range open {
			f.Close()
			os.Remove(f.Name())
		}
	}()
	rdSalt := int(cs.I("rdsalt"))
	readerOf := func(kind int, turns bool, b []byte) io.ReaderAt {
		var inner io.ReaderAt = bytes.NewReader(b)
		if turns {
			inner = turnReader{inner, sch}
		}
		n := int64(len(b))
		extra := []int64{1, 7, 8, 9, 4096, 1 << 20, 1 << 40}[rdSalt%7]
		c.Class("reader/" + c03ReaderKinds[kind%len(c03ReaderKinds)])
		switch c03ReaderKinds[kind%len(c03ReaderKinds)] {
		case "eof-with-last-read":
			if !turns {
				return eofAtEnd{b}
			}
		case "section-window":
			if !turns {
				big := append(append(bytes.Repeat([]byte{0xEE}, 8+rdSalt%64), b...), bytes.Repeat([]byte{0xDD}, 1+rdSalt%97)...)
				return io.NewSectionReader(bytes.NewReader(big), int64(8+rdSalt%64), n)
			}
		case "section-oversized": // declared larger than the data: a generous upper bound
			return io.NewSectionReader(inner, 0, n+extra)
		case "section-unbounded": // the io.NewSectionReader(r, 0, 1<<63-1) idiom
			return io.NewSectionReader(inner, 0, 1<<63-1)
		case "size-is-capacity": // a caller's type whose Size() is the capacity of its storage, not the length of the file
			return capReaderAt{inner, n + extra}
		case "strings.Reader":
			if !turns {
				return strings.NewReader(string(b))
			}
		case "os.File":
			if f, err := os.CreateTemp("", "vcheck-c03-*"); err == nil && !turns {
				open = append(open, f)
				if _, err := f.Write(b); err == nil {
					return f
				}
			}
		}
		return inner
	}
	rdKind, rd2Kind := int(cs.I("rd")), int(cs.I("rd2"))
	parseVia := func(b []byte) (q *authenticode.PECOFFBinary, err error) {
		return authenticode.Parse(readerOf(rdKind, pair, b))
	}
	// digest queries under other algorithms that the caller puts between the steps (hq != 0)
	hq := uint32(cs.I("hq"))
	digestQuery := func(q *authenticode.PECOFFBinary, slot, step int, where string) {
		if hq == 0 {
			return
		}
		h := c01Algs(hq + uint32(step))[slot]
		var d []byte
		pan, _ := safely(func() { d = q.Hash(h) })
		hh := h.New()
		hh.Write(pre0)
		if want := hh.Sum(nil); pan || !bytes.Equal(d, want) {
			fail(fmt.Sprintf("step %d: the %v digest asked of %s is not that of the specification's hash input of the image before signing", step, h, where), hx(d), hx(want))
		}
		c.Class(fmt.Sprintf("digest-query/%v", h))
	}
	var p *authenticode.PECOFFBinary
	var err error
	if pan, msg := safely(func() { p, err = parseVia(img) }); pan || err != nil {
		fail("Parse failed on a well-formed image", fmt.Sprint(msg, err), "")
		return
	}
	before := p.Hash(crypto.SHA256)
	var pB *authenticode.PECOFFBinary
	var sigsB [][]byte
	if pair {
		var imgB []byte
		if cs.S("partner") != "" {
			imgB, _ = os.ReadFile(filepath.Join(c.RepoDir, cs.S("partner")))
		} else {
			sB := s
			sB.Seed = s.Seed + 1 // the same layout, other contents: every byte that is not a layout field differs
			imgB = buildPE(sB).img
		}
		if fieldAfter(c.Drv.Ask("pe.spec", hx(imgB)), "wf=") != "true" {
			c.Fail(Failure{Kind: "tie", What: "the partner image is not well-formed for the Spec", Case: cs})
			return
		}
		if pan, msg := safely(func() { pB, err = parseVia(imgB) }); pan || err != nil {
			fail("Parse failed on a well-formed image (the partner)", fmt.Sprint(msg, err), "")
			return
		}
	}
	bodyEnd := b.bodyEnd
	oldEntries := extractCertTable(img)
	// what the object holds before the next step, as far as the caller can see it: the bytes of Bytes() (cur) and the
	// length of the file the object was parsed from, rounded up to 8 (objLen = the private field `length`)
	var cur []byte
	if c.GenDrv != nil {
		cur = p.Bytes()
	}
	objLen := len(cur)
	var sigs [][]byte
	signedBy := map[int]bool{}
	type heldImage struct {
		step      int
		out, snap []byte
	}
	var held []*heldImage
	stillIntact := func(during string) {
		for _, h := range held {
			if !bytes.Equal(h.out, h.snap) {
				d := 0
				for d < len(h.out) && d < len(h.snap) && h.out[d] == h.snap[d] {
					d++
				}
				fail(fmt.Sprintf("the bytes returned by Bytes() after step %d changed during %s (the result aliases memory that is reused)", h.step, during), fmt.Sprintf("first difference at offset %d of %d: %s", d, len(h.snap), hx(h.out[d:min(len(h.out), d+16)])), hx(h.snap[d:min(len(h.snap), d+16)]))
				h.out = h.snap // reported once
			}
		}
	}
	for i, st := range steps {
		cert, key := certOf(st.key)
		var sig []byte
		digestQuery(p, 0, i, "the object about to be signed")
		if pair {
			// both signers run at once, each on its own object; what each of them returns must be what the statement
			// says of a signature of ITS image
			var sigB []byte
			var errB error
			var panA, panB bool
			var msg string
			parks, free := sch.run(quanta,
				func() { panA, msg = safely(func() { sig, err = p.Sign(key, cert) }) },
				func() { panB, _ = safely(func() { sigB, errB = pB.Sign(key, cert) }) })
			c.Class(fmt.Sprintf("concurrent-sign/overlapped=%v/abandoned=%v", parks > 0, free))
			if panA || err != nil {
				fail(fmt.Sprintf("step %d: Sign failed while another image is being signed", i), fmt.Sprint(msg, err), "")
				return
			}
			if panB || errB != nil {
				fail(fmt.Sprintf("step %d: Sign of the partner image failed while this image is being signed", i), fmt.Sprint(panB, errB), "")
				return
			}
			sigsB = append(sigsB, sigB)
			outB := pB.Bytes()
			specB := c.Drv.Ask("pe.spec", hx(outB))
			wantB := sha256.Sum256(unhx(fieldAfter(specB, "pre=")))
			if fieldAfter(specB, "wf=") != "true" {
				fail(fmt.Sprintf("step %d: the partner image, signed at the same time, is not a well-formed image", i), "", "")
			} else if d := embeddedDigest(sigB); !bytes.Equal(d, wantB[:]) {
				fail(fmt.Sprintf("step %d: two images signed at the same time through two objects (turns of %v reads): the digest embedded in the partner's signature is not the specification digest of the partner's output file", i, quanta), hx(d), hx(wantB[:]))
			} else if got := goVerifyClass(outB, cert); got != "ok true" {
				fail(fmt.Sprintf("step %d: the partner image, signed at the same time, does not verify against the certificate that signed it", i), got, "ok true")
			}
		} else if pan, msg := safely(func() { sig, err = p.Sign(key, cert) }); pan || err != nil {
			fail(fmt.Sprintf("step %d: Sign failed", i), fmt.Sprint(msg, err), "")
			return
		}
		sigs = append(sigs, sig)
		signedBy[st.key] = true
		c.Class(fmt.Sprintf("signature-length-mod-8=%d", len(sig)%8))
		ddBefore := ddOfHeld(cur, b.dd)
		out := p.Bytes()
		// ---- the TRANSLATED Sign / AppendSignature / Bytes (Gen.lean, C03g) on what the object held before the step and
		// the signature the real Sign returned, against the real object afterwards: Datadir, the 8 bytes of the directory
		// entry, the certificate table (the tail of Bytes() from Datadir.VirtualAddress) and Bytes() itself
		if c.GenDrv != nil && len(cur) >= bodyEnd && int(ddBefore.size) <= len(cur) && len(out) >= b.dd+8 {
			padEnd := (bodyEnd + 7) &^ 7
			ddA := p.Datadir
			tableA := []byte{}
			if int(ddA.VirtualAddress) <= len(out) {
				tableA = out[ddA.VirtualAddress:]
			}
			goObs := fmt.Sprintf("ok va=%d size=%d dd=%s table=%s bytes=%s", ddA.VirtualAddress, ddA.Size, hex.EncodeToString(out[b.dd:b.dd+8]), hex.EncodeToString(tableA), hex.EncodeToString(out))
			c.GenTieGo(cs, fmt.Sprintf("step %d: Sign/AppendSignature/Bytes", i), goObs, "gen.pe.append",
				hx(cur[len(cur)-int(ddBefore.size):]), fmt.Sprint(ddBefore.va), fmt.Sprint(ddBefore.size), fmt.Sprint(objLen), hx(sig),
				hx(cur[:b.dd]), hx(cur[b.dd+8:bodyEnd]), fmt.Sprint(padEnd-bodyEnd))
			// Signatures() of the signed object against the translated walk of that table
			var sl []*signature.WINCertificate
			var serr error
			if pan, _ := safely(func() { sl, serr = p.Signatures() }); !pan {
				c.GenTieGo(cs, fmt.Sprintf("step %d: Signatures() of the signed object", i), winCertsObs(sl, serr), "gen.pe.signatures", hx(tableA))
			}
			cur = out
			if st.reparse {
				objLen = len(out)
			}
		}
		// every serialised image of the history is still held by the caller (written to disk later, compared,
		// handed to a verifier): it is a value of its own and must not change when the object is signed and
		// serialised again
		stillIntact(fmt.Sprintf("Sign and Bytes() of step %d", i))
		held = append(held, &heldImage{step: i, out: out, snap: append([]byte{}, out...)})
		if st.reparse {
			if pan, msg := safely(func() { p, err = parseVia(out) }); pan || err != nil {
				fail(fmt.Sprintf("step %d: re-parsing the signed output failed", i), fmt.Sprint(msg, err), "")
				return
			}
		}
		// ---- layout oracle, independent of the library ----
		if len(out) < bodyEnd || !bytes.Equal(out[:b.dd], img[:b.dd]) || !bytes.Equal(out[b.dd+8:bodyEnd], img[b.dd+8:bodyEnd]) {
			fail(fmt.Sprintf("step %d: an original byte outside the certificate-table directory entry changed", i), "", "")
			return
		}
		va, sz := int(binary.LittleEndian.Uint32(out[b.dd:])), int(binary.LittleEndian.Uint32(out[b.dd+4:]))
		padEnd := (bodyEnd + 7) &^ 7
		if va != padEnd || va+sz != len(out) || va%8 != 0 || sz%8 != 0 {
			fail(fmt.Sprintf("step %d: the directory entry does not span an 8-aligned table exactly to end of file", i), fmt.Sprintf("va=%d sz=%d len=%d", va, sz, len(out)), fmt.Sprintf("va=%d va+sz=%d", padEnd, len(out)))
			return
		}
		if !bytes.Equal(out[bodyEnd:padEnd], make([]byte, padEnd-bodyEnd)) {
			fail(fmt.Sprintf("step %d: the file is not zero-padded to 8 bytes before the table", i), hx(out[bodyEnd:padEnd]), "zeros")
		}
		walk := c.Drv.Ask("pe.walk", hx(out))
		if !strings.HasPrefix(walk, "some ") {
			fail(fmt.Sprintf("step %d: the certificate table of the output is not well-formed (independent walker)", i), walk, "some …")
			return
		}
		wantEntries := []string{}
		for _, e := range oldEntries {
			h := sha256.Sum256(e)
			wantEntries = append(wantEntries, fmt.Sprintf("(%d;512;2;%s)", 8+len(e), hx(h[:])))
		}
		for _, sg := range sigs {
			h := sha256.Sum256(sg)
			wantEntries = append(wantEntries, fmt.Sprintf("(%d;512;2;%s)", 8+len(sg), hx(h[:])))
		}
		if got := fieldAfter(walk, "entries="); got != "["+strings.Join(wantEntries, ",")+"]" {
			fail(fmt.Sprintf("step %d: table entries are not the old entries followed by revision-2.0 PKCS#7 WIN_CERTIFICATEs of the new signatures with correct lengths", i), got, "["+strings.Join(wantEntries, ",")+"]")
		}
		// embedded digest = unpadded specification digest of the output file itself
		spec := c.Drv.Ask("pe.spec", hx(out))
		if fieldAfter(spec, "wf=") != "true" {
			fail(fmt.Sprintf("step %d: the signed output is not a well-formed image", i), "", "")
			return
		}
		want := sha256.Sum256(unhx(fieldAfter(spec, "pre=")))
		if d := embeddedDigest(sig); !bytes.Equal(d, want[:]) {
			fail(fmt.Sprintf("step %d: the digest embedded in the signature is not the specification digest of the output file", i), hx(d), hx(want[:]))
		}
		if !bytes.Equal(before, want[:]) {
			fail(fmt.Sprintf("step %d: the digest changed by signing", i), hx(before), hx(want[:]))
		}
		var p2 *authenticode.PECOFFBinary
		rd2Name := c03ReaderKinds[rd2Kind%len(c03ReaderKinds)]
		if pan, _ := safely(func() { p2, err = authenticode.Parse(readerOf(rd2Kind, false, out)) }); pan || err != nil {
			fail(fmt.Sprintf("step %d: re-parsing the output (handed over through: %s) failed", i, rd2Name), fmt.Sprint(err), "")
			return
		} else if d := p2.Hash(crypto.SHA256); !bytes.Equal(d, before) {
			fail(fmt.Sprintf("step %d: re-parsing the output (handed over through: %s) reports a different digest than before signing", i, rd2Name), hx(d), hx(before))
		}
		if rd2Name != c03ReaderKinds[0] {
			// ... and it verifies there against the certificate that has just signed it
			var ok bool
			var verr error
			if pan, _ := safely(func() { ok, verr = p2.Verify(cert) }); pan || !ok || verr != nil {
				fail(fmt.Sprintf("step %d: the re-parsed output (handed over through: %s) does not verify against the certificate that signed it", i, rd2Name), fmt.Sprint(pan, ok, verr), "true <nil>")
			}
		}
		if hq != 0 {
			// the re-parsed copy is asked for another digest first and then verified on that same object
			digestQuery(p2, 2, i, "the re-parsed output")
			for k := 0; k < 4; k++ {
				cert, _ := certOf(k)
				var ok bool
				var verr error
				if pan, _ := safely(func() { ok, verr = p2.Verify(cert) }); pan || signedBy[k] != (ok && verr == nil) {
					fail(fmt.Sprintf("step %d: Verify on the re-parsed output after a digest query on that object (certificate %d, signed by it: %v)", i, k, signedBy[k]), fmt.Sprint(pan, ok, verr), fmt.Sprint(signedBy[k]))
				}
			}
		}
		// what Signatures() lists for the re-parsed output: the old entries and the new signatures, in order, as
		// revision-2.0 PKCS#7 entries with the length of header + body; and Open() delivers the bytes of Bytes()
		if p2 != nil {
			var sl []*signature.WINCertificate
			var serr error
			wantBodies := append(append([][]byte{}, oldEntries...), sigs...)
			if pan, msg := safely(func() { sl, serr = p2.Signatures() }); pan || serr != nil || len(sl) != len(wantBodies) {
				fail(fmt.Sprintf("step %d: Signatures() of the re-parsed output does not list the %d entries of the table", i, len(wantBodies)), fmt.Sprint(msg, serr, len(sl)), "")
			} else {
				for j, w := range sl {
					if !bytes.Equal(w.Certificate, wantBodies[j]) || int(w.Length) != 8+len(wantBodies[j]) || w.Revision != 0x0200 || w.CertType != 0x0002 {
						fail(fmt.Sprintf("step %d: entry %d listed by Signatures() of the re-parsed output is not the revision-2.0 PKCS#7 entry holding signature %d of the history", i, j, j), fmt.Sprintf("len=%d rev=%#x type=%#x body=%s", w.Length, w.Revision, w.CertType, clip(hx(w.Certificate))), fmt.Sprintf("len=%d rev=0x200 type=0x2 body=%s", 8+len(wantBodies[j]), clip(hx(wantBodies[j]))))
						break
					}
				}
			}
			var streamed []byte
			if pan, _ := safely(func() { streamed, _ = io.ReadAll(p2.Open()) }); pan || !bytes.Equal(streamed, out) {
				fail(fmt.Sprintf("step %d: Open() of the re-parsed output does not deliver the bytes it was parsed from", i), clip(hx(streamed)), clip(hx(out)))
			}
		}
		// verification matrix: every signer so far verifies, a non-signer does not
		for k := 0; k < 4; k++ {
			cert, _ := certOf(k)
			got := goVerifyClass(out, cert)
			if signedBy[k] && got != "ok true" {
				fail(fmt.Sprintf("step %d: the output does not verify against certificate %d, which signed it", i, k), got, "ok true")
			}
			if !signedBy[k] && got == "ok true" {
				fail(fmt.Sprintf("step %d: the output verifies against certificate %d, which did not sign it", i, k), got, "not ok")
			}
			// ... and a certificate that did not sign, with another key under the NAME AND SERIAL NUMBER of one that did
			// (or did not): "against no certificate that did not"
			if tw := goVerifyClass(out, twinOf(k)); tw == "ok true" || strings.Contains(tw, "panic") {
				fail(fmt.Sprintf("step %d: the output verifies against a certificate that did not sign it: another key under the issuer name and serial number of certificate %d (which signed: %v)", i, k, signedBy[k]), tw, "not ok")
			} else {
				c.Class(fmt.Sprintf("twin-certificate/signed-by-the-named-one=%v/%s", signedBy[k], strings.ReplaceAll(tw, " ", "-")))
			}
			c.Trace()
			if m, sp := askPeVerify(c, out, cert); m != got || (got == "ok true") != (sp == "true") {
				c.Fail(Failure{Kind: "tie", What: fmt.Sprintf("step %d cert %d: Verify model/spec/implementation disagree", i, k), Case: cs, Model: m + " spec=" + sp, Go: got})
			}
		}
		// the same questions asked of the very object that was signed (no re-parse): what Verify / Signatures
		// answered between two signings must not stick
		{
			var sl []*signature.WINCertificate
			var serr error
			if pan, msg := safely(func() { sl, serr = p.Signatures() }); pan || serr != nil {
				fail(fmt.Sprintf("step %d: Signatures() of the signed object failed", i), fmt.Sprint(msg, serr), "")
			} else if len(sl) != len(oldEntries)+len(sigs) {
				fail(fmt.Sprintf("step %d: Signatures() of the signed object lists %d entries", i, len(sl)), fmt.Sprint(len(sl)), fmt.Sprint(len(oldEntries)+len(sigs)))
			}
			digestQuery(p, 1, i, "the signed object")
			if pair {
				// both images are verified at the same time against the certificate that has just signed them
				var okA, okB bool
				var eA, eB error
				q2 := append(append([]int{}, quanta[len(quanta)/2:]...), quanta[:len(quanta)/2]...)
				sch.run(q2, func() { safely(func() { okA, eA = p.Verify(cert) }) }, func() { safely(func() { okB, eB = pB.Verify(cert) }) })
				if !okA || eA != nil || !okB || eB != nil {
					fail(fmt.Sprintf("step %d: the image and the partner image are verified at the same time (turns of %v reads) against the certificate that signed both", i, q2), fmt.Sprint(okA, eA, " / ", okB, eB), "true <nil> / true <nil>")
				}
			}
			for k := 0; k < 4; k++ {
				cert, _ := certOf(k)
				var ok bool
				var verr error
				if pan, _ := safely(func() { ok, verr = p.Verify(cert) }); pan {
					fail(fmt.Sprintf("step %d: Verify on the signed object panicked", i), "panic", "")
					continue
				}
				if signedBy[k] != (ok && verr == nil) {
					fail(fmt.Sprintf("step %d: Verify on the signed object itself (certificate %d, signed by it: %v)", i, k, signedBy[k]), fmt.Sprint(ok, verr), fmt.Sprint(signedBy[k]))
				}
				{
					var tok bool
					var terr error
					if pan, _ := safely(func() { tok, terr = p.Verify(twinOf(k)) }); pan || (tok && terr == nil) {
						fail(fmt.Sprintf("step %d: Verify on the signed object itself succeeds for a certificate that did not sign: another key under the issuer name and serial number of certificate %d", i, k), fmt.Sprint(pan, tok, terr), "not ok")
					}
				}
				// the TRANSLATED Verify loop on the object's table, with the translated memoising closure and the TRANSLATED
				// (*Authenticode).verifyDigest (algorithm, digest length, closure call, digest comparison, Pkcs.Verify); the
				// externals answer for every listed entry what the real library says: whether it parses, its digest
				// algorithm and embedded digest, what its PKCS#7 answers for the certificate; the digest external answers
				// the real SHA-256 of the hash input
				if c.GenDrv != nil && serr == nil && len(cur) > 0 {
					var obs []string
					for _, w := range sl {
						obs = append(obs, entryObs(w.Certificate, cert))
					}
					verdicts := strings.Join(obs, ",")
					if verdicts == "" {
						verdicts = "-"
					}
					dd := ddOfHeld(cur, b.dd)
					if int(dd.size) <= len(cur) {
						imgSum := sha256.Sum256(pre0)
						c.GenTieGo(cs, fmt.Sprintf("step %d: Verify on the signed object (certificate %d, entries %s)", i, k, verdicts), verifyObs(ok, verr), "gen.pe.verify", hx(cur[len(cur)-int(dd.size):]), verdicts, hx(imgSum[:]))
					}
				}
			}
			if d := p.Hash(crypto.SHA256); !bytes.Equal(d, before) {
				fail(fmt.Sprintf("step %d: Hash() of the signed object differs from the digest before signing", i), hx(d), hx(before))
			}
			// serialising again without a change in between yields the same bytes as a second value
			var again []byte
			if pan, _ := safely(func() { again = p.Bytes() }); pan || !bytes.Equal(again, held[len(held)-1].snap) {
				fail(fmt.Sprintf("step %d: a second Bytes() of the signed (or, after a re-parse step, re-parsed) object differs from the first", i), clip(hx(again)), "")
			}
			stillIntact(fmt.Sprintf("Signatures/Verify/Hash/Bytes of the object after step %d", i))
		}
		// ---- byte-exact correspondence with the Lean model (no re-parsing on the model side) ----
		c.Trace()
		args := []string{hx(img)}
		for _, sg := range sigs {
			args = append(args, hx(sg))
		}
		if m := c.Drv.Ask("pe.append", args...); m != "ok "+hx(out) {
			c.Fail(Failure{Kind: "tie", What: fmt.Sprintf("step %d: Bytes() differs from the Lean model of AppendSignature/Bytes", i), Case: cs, Model: clip(m), Go: clip(hx(out))})
			return
		}
	}
}

type heldDD struct{ va, size uint32 }

// ddOfHeld: the certificate-table directory entry in the bytes a caller holds
func ddOfHeld(img []byte, dd int) heldDD {
	if len(img) < dd+8 {
		return heldDD{}
	}
	return heldDD{binary.LittleEndian.Uint32(img[dd:]), binary.LittleEndian.Uint32(img[dd+4:])}
}

// winCertsObs: what Signatures() returned, in the format of the driver's gen.pe.signatures
func winCertsObs(sl []*signature.WINCertificate, err error) string {
	if err != nil {
		return "err"
	}
	var parts []string
	for _, w := range sl {
		parts = append(parts, fmt.Sprintf("(%d;%d;%d;%s)", w.Length, w.Revision, w.CertType, hex.EncodeToString(w.Certificate)))
	}
	return "ok [" + strings.Join(parts, ",") + "]"
}

// entryObs: what the real library says of one table entry body for a certificate, for the driver's gen.pe.verify: `P` it
// does not parse; otherwise `<digest algorithm OID, dotted>;<embedded digest, hex>;<V>` where V is what the entry's
// PKCS#7 answers for the certificate (`a.Pkcs.Verify(cert)`): T / F verified true / false, E an error. The checks of
// (*Authenticode).verifyDigest in between — algorithm, digest length, digest comparison — are the TRANSLATED ones.
func entryObs(body []byte, cert *x509.Certificate) string {
	var a *authenticode.Authenticode
	var err error
	if pan, _ := safely(func() { a, err = authenticode.ParseAuthenticode(body) }); pan || err != nil || a == nil || a.Algid == nil || a.Pkcs == nil {
		return "P"
	}
	v := "F"
	var ok bool
	if pan, _ := safely(func() { ok, err = a.Pkcs.Verify(cert) }); pan || err != nil {
		v = "E"
	} else if ok {
		v = "T"
	}
	oid := a.Algid.Algorithm.String()
	if oid == "" {
		oid = "-"
	}
	return oid + ";" + hx(a.Digest) + ";" + v
}

// verifyObs: what Verify returned, in the format of the driver's gen.pe.verify
func verifyObs(ok bool, err error) string {
	switch {
	case err == nil:
		return fmt.Sprintf("ok %v", ok)
	case errors.Is(err, authenticode.ErrNoSignatures):
		return "err ErrNoSignatures"
	case errors.Is(err, authenticode.ErrNoValidSignatures):
		return "err ErrNoValidSignatures"
	}
	return "err other"
}

func c03Gen(c *Ctx) {
	bitsets := []int{2048}
	if c.Thorough {
		bitsets = []int{2048, 2048, 3072, 4096}
	}
	keys := []int{0, 1, 3} // key 2 never signs
	mkSteps := func() []interface{} {
		n := 1 + c.Rng.Intn(4)
		var steps []interface{}
		for j := 0; j < n; j++ {
			steps = append(steps, int64(2*keys[c.Rng.Intn(3)]+c.Rng.Intn(2)))
		}
		return steps
	}
	// a schedule for two goroutines: the first is parked inside its first or second read, later turns last 0..3 reads
	mkSched := func() []interface{} {
		q := []interface{}{int64(c.Rng.Intn(2))}
		for len(q) < 6 {
			q = append(q, int64(c.Rng.Intn(4)))
		}
		return q
	}
	// third-party signed and unsigned binaries of the repository as starting points
	fixtures := []string{"tests/data/binary/HelloWorld.efi", "tests/data/binary/HelloWorld.efi.signed", "authenticode/testdata/test.pecoff", "authenticode/testdata/test.pecoff.signed"}
	for i, f := range fixtures {
		c03Eval(c, Case{"op": "sign-history", "path": f, "steps": mkSteps(), "bits": int64(2048), "cnpad": int64(c.Rng.Intn(9)), "hq": int64(i % 2 * (1 + c.Rng.Intn(1<<20))),
			"rd": int64(2*i + 1), "rd2": int64(2*i + 2), "rdsalt": int64(c.Rng.Intn(1 << 16))})
		c03Eval(c, Case{"op": "sign-history", "path": f, "steps": mkSteps(), "bits": int64(2048), "cnpad": int64(c.Rng.Intn(9)), "hq": int64((i + 1) % 2 * (1 + c.Rng.Intn(1<<20))),
			"pair": int64(1), "sched": mkSched(), "partner": fixtures[(i+2)%len(fixtures)], "rd": int64(3 + i%3), "rd2": int64(7 - 2*i), "rdsalt": int64(c.Rng.Intn(1 << 16))})
	}
	for i := 0; i < c.N(50, 3000) && c.NFailures() < 6; i++ {
		s := genPeSpec(c, i%20 == 0)
		cs := specCase(s)
		steps := mkSteps()
		cs["op"] = "sign-history"
		cs["steps"] = steps
		cs["bits"] = int64(bitsets[c.Rng.Intn(len(bitsets))])
		cs["cnpad"] = int64(i % 9) // 0: the standard shapes; 1..8: common names of 8 consecutive lengths
		if i%5 == 4 {              // every fifth history: long six-part issuer names under 16..20-octet serial numbers
			cs["dn"] = int64(1 + i/5%10)
		}
		if i%3 != 0 { // two histories of three: digest queries under other algorithms between the steps
			cs["hq"] = int64(1 + c.Rng.Intn(1<<20))
		}
		// the reader kinds: two histories of three hand the image (and every file that is re-parsed) over through
		// something else than a bytes.Reader, the kinds whose Size() exceeds the data twice as often as the others
		if i%3 != 1 {
			cs["rd"] = int64([]int{1, 2, 3, 3, 4, 4, 5, 5, 6, 7}[c.Rng.Intn(10)])
		}
		if i%3 != 2 {
			cs["rd2"] = int64([]int{1, 2, 3, 3, 4, 4, 5, 5, 6, 7}[c.Rng.Intn(10)])
		}
		cs["rdsalt"] = int64(c.Rng.Intn(1 << 16))
		if i%2 == 1 { // every second history is signed while a partner image is signed by another goroutine
			cs["pair"] = int64(1)
			cs["sched"] = mkSched()
		}
		c03Eval(c, cs)
	}
}

func init() {
	register("C03", &PropDef{
		Rule:   "well-formed images from the C01 generator (all layout classes; unsigned and with an existing 1- or 2-entry certificate table) x signing histories of 1..3 signatures by two RSA keys (one under a CA-issued certificate; 2048; thorough also 3072/4096) in any order, the same key possibly twice, under certificates whose names run through 8 consecutive lengths so that the signature length takes every residue mod 8, the signers' certificates sharing nothing / the serial number only / the issuer name only, with serialise/re-parse after a random subset of steps; every third image carries a left-over certificate-table address with size 0 in its directory entry (address classes as in C01: 1, inside headers / sections / trailing data, end of sections, file end, padded file end, beyond the file, 2^32-1), i.e. an image whose signatures were removed by clearing the size; every serialised image of a history stays held (with a private copy) while the object is signed, queried and serialised again and is compared with its copy after each step, and each step serialises twice; in two histories of three the caller asks the objects for digests under other algorithms between the steps (one of SHA-1/256/384/512, chosen by the history, of the object about to be signed, of the signed object before it is verified, and of the re-parsed output, which is then verified on that same object): each must be that algorithm over the specification's hash input and must leave signing and verification as they are; every second history (and each repository binary once) is signed WHILE A SECOND IMAGE IS SIGNED by another goroutine through an object of its own (the same layout with other contents; for a repository binary another repository binary) - both objects read through caller-supplied io.ReaderAts that make the two goroutines take turns at read granularity under the history's schedule (first turn 0..1 reads, later turns 0..3; sched.go), so each Sign is parked in the middle of hashing while the other proceeds, deterministically - and after each such step both images are verified at the same time: the image's output is judged as always, the partner's signature must embed the specification digest of the partner's output, which must verify; Signatures() of the re-parsed output must list exactly the old entries and the new signatures (body bytes, dwLength = 8 + body, revision 0x0200, type 2) and Open() must deliver the bytes of Bytes(); after every step the output bytes are checked by an independent walker, its digest by the Lean Spec, and the 3-certificate verification matrix by the library, the Lean Impl model and the Lean Spec. CERTIFICATES THAT DID NOT SIGN under a signer's name: for each of the four certificates of the matrix a twin - the same issuer name and serial number (what a signature names its signer by), another RSA key, which signed nothing - is asked after every step, on the re-parsed output and on the signed object itself: Verify must not succeed for it, whether the certificate it imitates has signed or not. SIGNERS' NAMES: every fifth history signs under certificates as commercial and corporate CAs issue them - issuer names of six parts (C, ST, L, O, OU, CN) of roughly 150..320 bytes of DER, the part lengths running with the history and the key, under serial numbers of 16..20 octets with the high bit clear or set: signing must succeed and every oracle of the history applies unchanged. READER KINDS: an image is the bytes an io.ReaderAt delivers, whatever else the reader's type offers. In two histories of three (and for every repository binary) the image - and every signed file that a re-parse step of the history hands back to Parse - is handed over through one of: a reader that returns io.EOF together with the last read, an io.SectionReader window into a larger buffer, an io.SectionReader DECLARED LARGER than the data (by 1, 7, 8, 9, 4096, 2^20 or 2^40 bytes: Size() is not the file length), the io.NewSectionReader(r, 0, 1<<63-1) idiom, a caller's type whose Size() method is the capacity of its storage, a strings.Reader, a regular *os.File (the two section kinds and the capacity kind twice as often; in the two-goroutine histories they wrap the turn-taking reader); independently, in two histories of three the output of every step is re-parsed through one of these kinds, must report the digest from before signing there and must verify there against the certificate that has just signed it. The layout oracle (original bytes kept, zero padding to 8, directory entry = aligned table to end of file), the digest, the table walk and the verification matrix are the same for every reader kind. Every case is non-trivial; distinct = distinct (image spec, history, reader kinds).",
		Assume: []string{"no two signing certificates share both issuer and serial (two different keys under one issuer+serial make the verification loop stop with an error at the first of them; noted, not claimed)", "RSA PKCS#1 v1.5 signatures are deterministic"},
		Eval:   c03Eval, Gen: c03Gen,
	})
}
