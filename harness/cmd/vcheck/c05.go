package main

import (
	"bytes"
	"crypto"
	"crypto/ecdsa"
	"crypto/ed25519"
	"crypto/elliptic"
	"crypto/rand"
	"crypto/rsa"
	"crypto/sha256"
	"crypto/x509"
	"crypto/x509/pkix"
	"encoding/asn1"
	"encoding/binary"
	"fmt"
	"io"
	"math/big"
	"os"
	"os/exec"
	"path/filepath"
	"strconv"
	"strings"
	"sync"
	"testing/iotest"
	"time"

	"github.com/foxboron/go-uefi/authenticode"
	"github.com/foxboron/go-uefi/pkcs7"
)

func parseOID(s string) asn1.ObjectIdentifier {
	var o asn1.ObjectIdentifier
	for _, p := range strings.Split(s, ".") {
		n, _ := strconv.Atoi(p)
		o = append(o, n)
	}
	return o
}

// driver p7.verify: returns (model class, spec verdict)
func askVerify(c *Ctx, blob []byte, cert *x509.Certificate, detached []byte) (string, string) {
	certsOk := "1"
	cf := c.Drv.Ask("p7.certs", hx(blob))
	if strings.HasPrefix(cf, "some ") {
		if raw := unhx(cf[5:]); len(raw) > 0 || true {
			if _, err := x509.ParseCertificates(raw); err != nil {
				certsOk = "0"
			}
		}
	}
	det := "none"
	if detached != nil {
		det = hx(detached)
	}
	r := c.Drv.Ask("p7.verify", append([]string{hx(blob), certsOk, det}, certArgs(cert)...)...)
	mi := strings.Index(r, " spec=")
	if !strings.HasPrefix(r, "model=") || mi < 0 {
		return "driver:" + r, "?"
	}
	return r[len("model="):mi], r[mi+len(" spec="):]
}

// ---- caller-supplied signer kinds ----
// SignPKCS7 takes a crypto.Signer: the property quantifies over whatever object holds the RSA key, not only
// over *rsa.PrivateKey. Each kind below signs with the same key and honours the crypto.Signer contract
// (Sign receives the digest named by opts), so the output must verify whichever kind is handed in.

// signOnly: an opaque key holder (token, agent, KMS client) that offers Sign and Public and nothing else
type signOnly struct{ k *rsa.PrivateKey }

func (s signOnly) Public() crypto.PublicKey { return &s.k.PublicKey }
func (s signOnly) Sign(r io.Reader, digest []byte, opts crypto.SignerOpts) ([]byte, error) {
	return s.k.Sign(r, digest, opts)
}

// messageSignerKind: additionally offers SignMessage with MESSAGE semantics (the shape of crypto.MessageSigner):
// msg is the data to be signed, the signer hashes it itself with opts.HashFunc() before signing
type messageSignerKind struct{ signOnly }

func (s messageSignerKind) SignMessage(r io.Reader, msg []byte, opts crypto.SignerOpts) ([]byte, error) {
	h := opts.HashFunc().New()
	h.Write(msg)
	return s.k.Sign(r, h.Sum(nil), opts)
}

// publicByValue: Public() hands out the key by value (rsa.PublicKey) instead of by pointer
type publicByValue struct{ signOnly }

func (s publicByValue) Public() crypto.PublicKey { return s.k.PublicKey }

// pssCapable: a key holder whose Sign looks at the options it is given: PSS options produce a PSS signature,
// everything else PKCS#1 v1.5 (what *rsa.PrivateKey does; here behind an interface value, with a pointer receiver)
type pssCapable struct{ k *rsa.PrivateKey }

func (s *pssCapable) Public() crypto.PublicKey { return &s.k.PublicKey }
func (s *pssCapable) Sign(r io.Reader, digest []byte, opts crypto.SignerOpts) ([]byte, error) {
	if o, ok := opts.(*rsa.PSSOptions); ok {
		return rsa.SignPSS(r, s.k, o.Hash, digest, o)
	}
	return rsa.SignPKCS1v15(r, s.k, opts.HashFunc(), digest)
}

var signerKinds = []string{"rsa-private-key", "sign-only", "message-signer", "public-by-value", "options-aware"}

func signerOfKind(kind string, k *rsa.PrivateKey) crypto.Signer {
	switch kind {
	case "sign-only":
		return signOnly{k}
	case "message-signer":
		return messageSignerKind{signOnly{k}}
	case "public-by-value":
		return publicByValue{signOnly{k}}
	case "options-aware":
		return &pssCapable{k}
	}
	return k
}

// ---- signing certificates by WHO issued them ----
// The property quantifies over any certificate. Besides the shapes of certShapes (self-signed, or issued by an RSA
// CA with PKCS#1 v1.5), an RSA signing certificate can be issued by a CA whose key is of another kind, or signed
// with another scheme: the certificate's own signatureAlgorithm (how the ISSUER signed the certificate) then says
// nothing about the subject's key, which is what the SignerInfo's digestEncryptionAlgorithm has to describe.
var c05IssuerKinds = []struct {
	name string
	alg  x509.SignatureAlgorithm
}{
	{"issued-by-ecdsa-p256-ca", x509.ECDSAWithSHA256},
	{"issued-by-ecdsa-p384-ca/sha384", x509.ECDSAWithSHA384},
	{"issued-by-ed25519-ca", x509.PureEd25519},
	{"issued-by-rsa-ca/rsassa-pss", x509.SHA256WithRSAPSS},
	{"self-signed/rsassa-pss", x509.SHA256WithRSAPSS},
}

// shape numbers from c05ValidityBase on: signing certificates by how their validity period relates to the time of
// signing (validityShapes: covering it, expired, not yet valid, ending / starting at it, no period at all)
const c05ValidityBase = 1000

func c05NShapes(c *Ctx) int { return len(certShapes(c)) + len(c05IssuerKinds) }

var c05CAKeys = map[string]crypto.Signer{}

// c05Cert: the certificate of shape idx for an RSA key: idx < len(certShapes) as everywhere in the harness, beyond
// that an RSA leaf certificate under one of c05IssuerKinds
func c05Cert(c *Ctx, key *rsa.PrivateKey, idx int) (*x509.Certificate, string) {
	shapes := certShapes(c)
	if idx >= c05ValidityBase {
		// a certificate whose validity period stands in relation (idx-base)/2 to the moment of signing (= now),
		// self-signed (even) or issued by a CA (odd); made for the call, so that "now" is the time of the call
		vs := validityShapes(time.Now(), idx%2 == 0)
		sh := vs[((idx-c05ValidityBase)/2)%len(vs)]
		f := strings.Split(sh.desc, "/")
		return makeRSACert(key, sh), f[0] + "/" + f[1] + "/" + f[len(f)-1]
	}
	idx %= c05NShapes(c)
	if idx < len(shapes) {
		return makeRSACert(key, shapes[idx]), shapes[idx].desc
	}
	k := c05IssuerKinds[idx-len(shapes)]
	certMu.Lock()
	defer certMu.Unlock()
	ck := fmt.Sprintf("%x/c05-issuer-kind/%s", key.N.Bytes()[:8], k.name)
	if crt, ok := certCache[ck]; ok {
		return crt, k.name
	}
	leaf := &x509.Certificate{SerialNumber: big.NewInt(int64(9100 + idx)), Subject: pkix.Name{CommonName: "RSA leaf " + k.name}, NotBefore: time.Unix(1700000000, 0), NotAfter: time.Unix(2000000000, 0),
		KeyUsage: x509.KeyUsageDigitalSignature, BasicConstraintsValid: true, SignatureAlgorithm: k.alg}
	parent := &x509.Certificate{SerialNumber: big.NewInt(1), Subject: pkix.Name{CommonName: "CA " + k.name, Organization: []string{"Verification"}}, NotBefore: time.Unix(1700000000, 0), NotAfter: time.Unix(2000000000, 0),
		KeyUsage: x509.KeyUsageCertSign, BasicConstraintsValid: true, IsCA: true}
	signer, have := c05CAKeys[k.name]
	if !have {
		switch {
		case strings.HasPrefix(k.name, "self-signed"):
			signer = key
		case k.alg == x509.ECDSAWithSHA256:
			ek, err := ecdsa.GenerateKey(elliptic.P256(), rand.Reader)
			if err != nil {
				panic(err)
			}
			signer = ek
		case k.alg == x509.ECDSAWithSHA384:
			ek, err := ecdsa.GenerateKey(elliptic.P384(), rand.Reader)
			if err != nil {
				panic(err)
			}
			signer = ek
		case k.alg == x509.PureEd25519:
			seed := sha256.Sum256([]byte("verif ed25519 CA"))
			signer = ed25519.NewKeyFromSeed(seed[:])
		default:
			signer = poolKeyDir(c.VerifDir, 2048, 2)
		}
		if !strings.HasPrefix(k.name, "self-signed") {
			c05CAKeys[k.name] = signer
		}
	}
	if strings.HasPrefix(k.name, "self-signed") {
		parent = leaf
	}
	der, err := x509.CreateCertificate(rand.Reader, leaf, parent, &key.PublicKey, signer)
	if err != nil {
		panic(err)
	}
	crt, err := x509.ParseCertificate(der)
	if err != nil {
		panic(err)
	}
	certCache[ck] = crt
	return crt, k.name
}

func c05Eval(c *Ctx, cs Case) {
	switch cs.S("op") {
	case "sign-concurrent":
		c05Concurrent(c, cs)
		return
	case "sign-authenticode":
		c05Authenticode(c, cs)
		return
	}
	oid := parseOID(cs.S("oid"))
	content := unhx(cs.S("content"))
	bits := int(cs.I("bits"))
	rsaKey := poolKey(c, bits, int(cs.I("key")))
	cert, shDesc := c05Cert(c, rsaKey, int(cs.I("shape")))
	kind := cs.S("signer")
	if kind == "" {
		kind = signerKinds[0]
	}
	key := signerOfKind(kind, rsaKey) // what the caller hands to SignPKCS7
	cls := fmt.Sprintf("sign/%d/%s/len%s", bits, shDesc, sizeClass(len(content)))
	c.Class("signer-kind/" + kind)
	c.Class("content-kind/" + derKindOf(content))
	c.Count(cs.Key(), true, cls)
	c.Sample(cs)
	fail := func(what, goObs, spec string) {
		c.Fail(Failure{Kind: "property", What: what, Case: cs, Go: clip(goObs), Spec: clip(spec)})
	}
	t0 := time.Now().UTC().Add(-2 * time.Second)
	var blob []byte
	var err error
	// results of earlier and later calls are independent values: a signature that is still held must not change
	// when the library signs something else
	probe, _ := pkcs7.SignPKCS7(key, cert, oid, []byte("held while the next signature is made"))
	probeSnap := append([]byte{}, probe...)
	if p, msg := safely(func() { blob, err = pkcs7.SignPKCS7(key, cert, oid, content) }); p {
		fail("SignPKCS7 panicked: "+msg, "panic", "")
		return
	}
	t1 := time.Now().UTC().Add(2 * time.Second)
	if !bytes.Equal(probe, probeSnap) {
		fail("the bytes returned by an earlier SignPKCS7 call changed when SignPKCS7 was called again (the result aliases memory that is reused)", hx(probe[:min(len(probe), 48)]), hx(probeSnap[:min(len(probeSnap), 48)]))
	}
	if err == nil {
		blobSnap := append([]byte{}, blob...)
		pkcs7.SignPKCS7(key, cert, pkcs7.OIDData, bytes.Repeat([]byte{0x77}, len(content)+9))
		if !bytes.Equal(blob, blobSnap) {
			fail("the bytes returned by SignPKCS7 changed when SignPKCS7 was called again (the result aliases memory that is reused)", hx(blob[:min(len(blob), 48)]), hx(blobSnap[:min(len(blobSnap), 48)]))
			blob = blobSnap
		}
	}
	if err != nil {
		fail("SignPKCS7 failed on a valid input: "+err.Error(), "err", "")
		return
	}
	c05Judge(c, cs, "", blob, oid, content, cert, t0, t1, true)
}

// c05Judge: is `blob` what the property says SignPKCS7(_, cert, oid, content) has to produce? deep: also ask the Lean
// Spec and the byte-exact Lean builder / parser models (the Go-side oracles are always applied)
func c05Judge(c *Ctx, cs Case, where string, blob []byte, oid asn1.ObjectIdentifier, content []byte, cert *x509.Certificate, t0, t1 time.Time, deep bool) {
	fail := func(what, goObs, spec string) {
		c.Fail(Failure{Kind: "property", What: where + what, Case: cs, Go: clip(goObs), Spec: clip(spec)})
	}
	var err error
	detached := oid.Equal(pkcs7.OIDData) || len(content) == 0
	var det []byte
	if detached {
		det = content
		if det == nil {
			det = []byte{}
		}
	}
	// ---- the library's own parser and verifier ----
	var p7 *pkcs7.PKCS7
	if p, msg := safely(func() { p7, err = pkcs7.ParsePKCS7(blob) }); p || err != nil {
		fail("the library's own parser rejects its output", fmt.Sprint(msg, err), "")
		return
	}
	md := sha256.Sum256(content)
	if len(p7.SignerInfo) != 1 || p7.SignerInfo[0].AuthenticatedAttributes == nil {
		fail("own parser: expected one signer with signed attributes", fmt.Sprint(len(p7.SignerInfo)), "")
		return
	}
	si := p7.SignerInfo[0]
	at := si.AuthenticatedAttributes
	wantContent := []byte(nil)
	if !detached {
		wantContent = append(append([]byte{0x30}, derLen(len(content))...), content...)
	}
	switch {
	case !p7.OID.Equal(oid):
		fail("own parser: content type differs", p7.OID.String(), oid.String())
	case !bytes.Equal(p7.ContentInfo, wantContent):
		fail("own parser: content differs", hx(p7.ContentInfo), hx(wantContent))
	case len(p7.Certs) != 1 || !bytes.Equal(p7.Certs[0].Raw, cert.Raw):
		fail("own parser: embedded certificate differs", "", "")
	case !at.ContentType.Equal(oid) || !bytes.Equal(at.MessageDigest, md[:]):
		fail("own parser: signed attributes do not carry the content type and SHA-256 of the content", at.ContentType.String()+" "+hx(at.MessageDigest), oid.String()+" "+hx(md[:]))
	case at.SigningTime.Before(t0) || at.SigningTime.After(t1):
		fail("own parser: signing time is not the current UTC time", at.SigningTime.String(), t0.String())
	}
	var ok bool
	if p, msg := safely(func() { ok, err = p7.Verify(cert) }); p || err != nil || !ok {
		fail("the library's own verification does not accept its output", fmt.Sprint(msg, err, ok), "true")
	}
	// ---- independent implementations ----
	if acc, parsed := stdVerify(blob, cert, det); !parsed || !acc {
		fail("encoding/asn1 + crypto/rsa verifier does not accept the output", fmt.Sprintf("parsed=%v accepted=%v", parsed, acc), "accepted")
	}
	if acc, parsed := mozVerify(blob, cert, det); !parsed || !acc {
		fail("go.mozilla.org/pkcs7 does not accept the output", fmt.Sprintf("parsed=%v accepted=%v", parsed, acc), "accepted")
	}
	// ---- every clause of the statement read off the blob with encoding/asn1 alone (nothing of the library's parser):
	// the verification above is "against the supplied content" only for detached blobs, so what an attached blob
	// encapsulates and digests is compared with the content the caller supplied here
	c05Clauses(blob, oid, content, cert, detached, func(what, got, want string) {
		fail("read with encoding/asn1: "+what, got, want)
	})
	if detached && cs.S("openssl") != "" {
		if verdict, ran := opensslVerifyDetached(blob, content); ran && verdict != "accepted" {
			fail("openssl smime -verify does not accept the output against the supplied content", verdict, "accepted")
		} else if ran {
			c.Class("openssl-smime-verify/accepted")
			if verdict, _ := opensslVerifyDetached(blob, append(append([]byte{}, content...), 0x01)); verdict == "accepted" {
				fail("openssl smime -verify accepts the output against different content", verdict, "rejected")
			}
		}
	}
	if deep {
		model, spec := askVerify(c, blob, cert, det)
		if spec != "true" {
			fail("Spec.cmsVerify (Lean, from the RFC) does not accept the output", spec, "true")
		}
		c.Trace()
		if model != "ok true" {
			c.Fail(Failure{Kind: "tie", What: "Impl verifier model on library output", Case: cs, Model: model, Go: "ok true"})
		}
	}
	// different content must be rejected
	if detached {
		other := append(append([]byte{}, content...), 0x01)
		if acc, _ := stdVerify(blob, cert, other); acc {
			fail("stdlib verifier accepts different content", "accepted", "rejected")
		}
		if acc, _ := mozVerify(blob, cert, other); acc {
			fail("mozilla/pkcs7 accepts different content", "accepted", "rejected")
		}
		if deep {
			if _, s := askVerify(c, blob, cert, other); s != "false" {
				fail("Spec.cmsVerify accepts different content", s, "false")
			}
		}
	} else if i := bytes.Index(blob, wantContent); i >= 0 {
		mut := append([]byte{}, blob...)
		mut[i+len(wantContent)-1] ^= 0x01
		if acc, _ := stdVerify(mut, cert, nil); acc {
			fail("stdlib verifier accepts a changed encapsulated content", "accepted", "rejected")
		}
		if acc, _ := mozVerify(mut, cert, nil); acc {
			fail("mozilla/pkcs7 accepts a changed encapsulated content", "accepted", "rejected")
		}
		if deep {
			if _, s := askVerify(c, mut, cert, nil); s != "false" {
				fail("Spec.cmsVerify accepts a changed encapsulated content", s, "false")
			}
		}
	}
	// ---- strict DER (X.690): minimal lengths everywhere, SET OF elements ordered by their encodings ----
	if roots, ok := parseDER(blob); !ok || len(roots) != 1 || !bytes.Equal(roots[0].encode(), blob) {
		fail("the output is not a single DER element with minimal length encodings", "", "")
	} else {
		roots[0].walk(nil, func(n, _ *derNode) {
			if n.tag != 0x31 && !(n.tag == 0xa0 && len(n.kids) > 1 && n.kids[0].tag == 0x30 && len(n.kids[0].kids) == 2 && n.kids[0].kids[0].tag == 0x06) {
				return // SETs, and the [0] IMPLICIT SET OF Attribute of a SignerInfo
			}
			for i := 1; i < len(n.kids); i++ {
				if bytes.Compare(n.kids[i-1].encode(), n.kids[i].encode()) > 0 {
					fail("a SET OF in the output is not in DER order (elements sorted by their encodings); the signature is computed over that encoding", hx(n.kids[i-1].encode()[:4])+" before "+hx(n.kids[i].encode()[:4]), "ascending")
				}
			}
		})
	}
	if !deep {
		return
	}
	// ---- byte-exact correspondence with the Lean builder model ----
	c.Trace()
	oidStr := oid.String()
	m := c.Drv.Ask("p7.sign", oidStr, hx(content), hx(cert.Raw), hx(cert.RawIssuer), cert.SerialNumber.String(),
		hx([]byte(at.SigningTime.Format("060102150405Z0700"))), hx(md[:]), hx(si.EncryptedDigest))
	if m != hx(blob) {
		c.Fail(Failure{Kind: "tie", What: "SignPKCS7: the Lean builder model does not reproduce the output byte for byte", Case: cs, Model: clip(m), Go: clip(hx(blob))})
	}
	// and with the parser model
	c.Trace()
	if pm := c.Drv.Ask("p7.parse", hx(blob), "1"); !strings.HasPrefix(pm, "ok oid="+oidStr+" content="+hx(wantContent)+" certs="+hx(cert.Raw)+" ") {
		c.Fail(Failure{Kind: "tie", What: "ParsePKCS7 model on library output", Case: cs, Model: clip(pm)})
	}
}

// ---- the clauses of the statement, read off the blob with encoding/asn1 only ----

var (
	oidSHA256Std     = asn1.ObjectIdentifier{2, 16, 840, 1, 101, 3, 4, 2, 1}
	oidRSAStd        = asn1.ObjectIdentifier{1, 2, 840, 113549, 1, 1, 1}
	oidSHA256RSAStd  = asn1.ObjectIdentifier{1, 2, 840, 113549, 1, 1, 11}
	oidSignedDataStd = asn1.ObjectIdentifier{1, 2, 840, 113549, 1, 7, 2}
	oidAttrCTStd     = asn1.ObjectIdentifier{1, 2, 840, 113549, 1, 9, 3}
	oidAttrTimeStd   = asn1.ObjectIdentifier{1, 2, 840, 113549, 1, 9, 5}
)

// c05Clauses checks, without any code of the library: outer content type signedData; SHA-256 as the (only) digest
// algorithm of the SignedData and of the signer entry; the encapsulated content type = the content type asked for;
// for an attached blob the encapsulated content = one SEQUENCE whose contents octets are exactly the supplied
// content, for a detached one no content; the supplied certificate embedded; one signer entry naming the
// certificate's issuer and serial; RSA as signature algorithm; signed attributes carrying that content type, the
// SHA-256 of the SUPPLIED content and a signing time.
func c05Clauses(blob []byte, oid asn1.ObjectIdentifier, content []byte, cert *x509.Certificate, detached bool, fail func(what, got, want string)) {
	var ci stdContentInfo
	var sd stdSignedData
	if rest, err := asn1.Unmarshal(blob, &ci); err != nil || len(rest) != 0 || !ci.Type.Equal(oidSignedDataStd) {
		fail("the output is not a ContentInfo of type signedData", fmt.Sprint(err, ci.Type), oidSignedDataStd.String())
		return
	}
	if rest, err := asn1.Unmarshal(ci.Content.Bytes, &sd); err != nil || len(rest) != 0 {
		fail("the SignedData does not decode", fmt.Sprint(err), "")
		return
	}
	isSHA256 := func(full []byte) bool {
		var a pkix.AlgorithmIdentifier
		rest, err := asn1.Unmarshal(full, &a)
		return err == nil && len(rest) == 0 && a.Algorithm.Equal(oidSHA256Std)
	}
	if !isSHA256(sd.DigestAlgs.Bytes) {
		fail("digestAlgorithms is not the single algorithm SHA-256", hx(sd.DigestAlgs.FullBytes), "SET { sha256 }")
	}
	if !sd.ECI.Type.Equal(oid) {
		fail("the encapsulated content type is not the content type asked for", sd.ECI.Type.String(), oid.String())
	}
	switch {
	case detached && len(sd.ECI.Content.FullBytes) != 0:
		fail("a detached signature encapsulates content", hx(sd.ECI.Content.FullBytes), "absent")
	case !detached:
		want := append(append([]byte{0x30}, derLen(len(content))...), content...)
		if !bytes.Equal(sd.ECI.Content.Bytes, want) {
			fail("the encapsulated content is not one SEQUENCE holding exactly the supplied content", hx(sd.ECI.Content.Bytes), hx(want))
		}
	}
	found := false
	for rest := sd.Certs.Bytes; len(rest) > 0; {
		var el asn1.RawValue
		var err error
		if rest, err = asn1.Unmarshal(rest, &el); err != nil {
			break
		}
		found = found || bytes.Equal(el.FullBytes, cert.Raw)
	}
	if !found {
		fail("the supplied certificate is not embedded", hx(sd.Certs.Bytes), hx(cert.Raw))
	}
	if len(sd.Signers) != 1 {
		fail("not exactly one signer entry", fmt.Sprint(len(sd.Signers)), "1")
		return
	}
	si := sd.Signers[0]
	if !bytes.Equal(si.IAS.Issuer.FullBytes, cert.RawIssuer) || si.IAS.Serial == nil || si.IAS.Serial.Cmp(cert.SerialNumber) != 0 {
		fail("the signer entry does not name the certificate's issuer and serial", hx(si.IAS.Issuer.FullBytes)+" "+fmt.Sprint(si.IAS.Serial), hx(cert.RawIssuer)+" "+cert.SerialNumber.String())
	}
	if !isSHA256(si.DigestAlg.FullBytes) {
		fail("the signer entry's digest algorithm is not SHA-256", hx(si.DigestAlg.FullBytes), "sha256")
	}
	var sa pkix.AlgorithmIdentifier
	if rest, err := asn1.Unmarshal(si.SigAlg.FullBytes, &sa); err != nil || len(rest) != 0 || !(sa.Algorithm.Equal(oidRSAStd) || sa.Algorithm.Equal(oidSHA256RSAStd)) {
		fail("the signer entry's signature algorithm is not RSA (rsaEncryption / sha256WithRSAEncryption)", hx(si.SigAlg.FullBytes), "rsaEncryption")
	}
	var ct asn1.ObjectIdentifier
	var md []byte
	haveTime := false
	for rest := si.Attrs.Bytes; len(rest) > 0; {
		var a struct {
			Type   asn1.ObjectIdentifier
			Values asn1.RawValue `asn1:"set"`
		}
		var err error
		if rest, err = asn1.Unmarshal(rest, &a); err != nil {
			fail("a signed attribute does not decode", err.Error(), "")
			return
		}
		switch {
		case a.Type.Equal(oidAttrCTStd):
			asn1.Unmarshal(a.Values.Bytes, &ct)
		case a.Type.Equal(oidMD):
			asn1.Unmarshal(a.Values.Bytes, &md)
		case a.Type.Equal(oidAttrTimeStd):
			haveTime = true
		}
	}
	want := sha256.Sum256(content)
	if !ct.Equal(oid) {
		fail("the signed contentType attribute is not the content type asked for", ct.String(), oid.String())
	}
	if !bytes.Equal(md, want[:]) {
		fail("the signed messageDigest attribute is not the SHA-256 of the supplied content", hx(md), hx(want[:]))
	}
	if !haveTime {
		fail("no signed signingTime attribute", "", "")
	}
}

// opensslVerifyDetached: what the OpenSSL CLI says about a detached blob and a content (signature and digest
// only: -noverify leaves the certificate chain out). ran=false when there is no CLI.
func opensslVerifyDetached(blob, content []byte) (verdict string, ran bool) {
	ossl := opensslPath()
	if ossl == "" {
		return "", false
	}
	dir, err := os.MkdirTemp("", "vcheck-c05")
	if err != nil {
		return "", false
	}
	defer os.RemoveAll(dir)
	os.WriteFile(filepath.Join(dir, "blob.der"), blob, 0o644)
	os.WriteFile(filepath.Join(dir, "content.bin"), content, 0o644)
	cmd := exec.Command(ossl, "smime", "-verify", "-binary", "-noverify", "-inform", "DER", "-in", filepath.Join(dir, "blob.der"), "-content", filepath.Join(dir, "content.bin"), "-out", filepath.Join(dir, "out.bin"))
	cmd.Env = append(os.Environ(), "OPENSSL_CONF=/dev/null")
	out, err := cmd.CombinedOutput()
	if err == nil {
		return "accepted", true
	}
	if _, isExit := err.(*exec.ExitError); !isExit {
		return "", false
	}
	lines := strings.Split(strings.TrimSpace(string(out)), "\n")
	return "rejected: " + lines[len(lines)-1], true
}

// detBytes: n bytes determined by a label (replay files carry the label, not the bytes)
func detBytes(label string, n int) []byte {
	out := make([]byte, 0, n+32)
	for i := uint32(0); len(out) < n; i++ {
		var ctr [4]byte
		binary.BigEndian.PutUint32(ctr[:], i)
		h := sha256.Sum256(append([]byte(label), ctr[:]...))
		out = append(out, h[:]...)
	}
	return out[:n]
}

// what a content is when read as DER: the property quantifies over all contents, and a content that happens to be
// a complete DER value (another signature, a certificate, an SpcIndirectDataContent taken as a whole) is a content
func derKindOf(b []byte) string {
	if len(b) == 0 {
		return "empty"
	}
	var v asn1.RawValue
	rest, err := asn1.Unmarshal(b, &v)
	if err != nil {
		return "not-DER"
	}
	if len(rest) > 0 {
		if _, err := asn1.Unmarshal(rest, &v); err != nil {
			return "DER-value-then-other-bytes"
		}
		return "several-DER-values"
	}
	switch {
	case v.Class == 0 && v.Tag == 16:
		return "exactly-one-SEQUENCE"
	case v.Class == 0 && v.Tag == 17:
		return "exactly-one-SET"
	}
	return "exactly-one-primitive-or-tagged-value"
}

// ---- several SignPKCS7 calls in flight at the same time ----

// meeting: a place where the calls that are in flight wait for each other. Every goroutine of a concurrent run
// hands SignPKCS7 a crypto.Signer whose Sign computes the signature and then parks here until the Sign calls of
// ALL goroutines still running have arrived; then all are released at once. So all calls are inside SignPKCS7 at
// the same time, leave it together and enter the next one together: the hashing of the (large) contents of the
// next calls overlaps on different processors. Nothing depends on timing for the run to terminate.
type meeting struct {
	mu      sync.Mutex
	active  int
	parked  int
	release chan struct{}
}

func newMeeting(n int) *meeting { return &meeting{active: n, release: make(chan struct{})} }

func (m *meeting) openLocked() {
	m.parked = 0
	close(m.release)
	m.release = make(chan struct{})
}

func (m *meeting) arrive() {
	m.mu.Lock()
	m.parked++
	ch := m.release
	if m.parked >= m.active {
		m.openLocked()
		m.mu.Unlock()
		return
	}
	m.mu.Unlock()
	select {
	case <-ch:
	case <-time.After(10 * time.Second): // never expected; a run must end whatever the library does
		m.mu.Lock()
		if m.release == ch && m.parked > 0 {
			m.parked--
		}
		m.mu.Unlock()
	}
}

func (m *meeting) leave() {
	m.mu.Lock()
	m.active--
	if m.active > 0 && m.parked >= m.active {
		m.openLocked()
	}
	m.mu.Unlock()
}

type meetingSigner struct {
	inner crypto.Signer
	m     *meeting
}

func (s meetingSigner) Public() crypto.PublicKey { return s.inner.Public() }
func (s meetingSigner) Sign(r io.Reader, digest []byte, opts crypto.SignerOpts) ([]byte, error) {
	sig, err := s.inner.Sign(r, digest, opts)
	s.m.arrive()
	return sig, err
}

// c05Concurrent: g goroutines make `rounds` SignPKCS7 calls each, every call with its own content (and either one
// shared key and certificate or a key and certificate per goroutine), all calls of a round in flight together.
// Oracle: every call returns what the same call returns alone - a blob that the independent verifiers accept
// against the content THIS call was given, with the digest of that content in its signed attributes (c05Judge, the
// same judgement as for a call made alone; the Lean builder model reproduces one blob per goroutine byte for byte).
func c05Concurrent(c *Ctx, cs Case) {
	oid := parseOID(cs.S("oid"))
	g, rounds := int(cs.I("goroutines")), int(cs.I("rounds"))
	lens := caseInts(cs["lens"])
	if g < 1 || g > 64 || rounds < 1 || rounds > 64 || len(lens) == 0 {
		return
	}
	bits := int(cs.I("bits"))
	perKey := cs.I("perkey") == 1
	kind := cs.S("signer")
	c.Count(cs.Key(), true, fmt.Sprintf("sign-concurrent/goroutines=%d/rounds=%d/own-key-each=%v/%s", g, rounds, perKey, sizeClass(lens[0])))
	c.Class("signer-kind/" + kind + "/concurrent")
	type result struct {
		content []byte
		blob    []byte
		err     error
		pan     string
	}
	m := newMeeting(g)
	res := make([][]result, g)
	certs := make([]*x509.Certificate, g)
	signers := make([]crypto.Signer, g)
	for i := 0; i < g; i++ {
		ki, si := int(cs.I("key")), int(cs.I("shape"))
		if perKey {
			ki, si = (ki+i)%2, si+i
		}
		k := poolKey(c, bits, ki)
		certs[i], _ = c05Cert(c, k, si)
		signers[i] = meetingSigner{signerOfKind(kind, k), m}
		res[i] = make([]result, rounds)
		for r := 0; r < rounds; r++ {
			body := detBytes(fmt.Sprintf("%s/%d/%d", cs.S("salt"), i, r), lens[(i+r)%len(lens)])
			if !oid.Equal(pkcs7.OIDData) && len(body) > 0 {
				body = tlv(0x04, body) // the inside of a SEQUENCE: one DER element
			}
			res[i][r].content = body
		}
	}
	t0 := time.Now().UTC().Add(-2 * time.Second)
	var wg sync.WaitGroup
	for i := 0; i < g; i++ {
		wg.Add(1)
		go func(i int) {
			defer wg.Done()
			defer m.leave()
			m.arrive() // the first calls start together as well
			for r := 0; r < rounds; r++ {
				x := &res[i][r]
				if pan, msg := safely(func() { x.blob, x.err = pkcs7.SignPKCS7(signers[i], certs[i], oid, x.content) }); pan {
					x.pan = "panic: " + msg
				}
			}
		}(i)
	}
	wg.Wait()
	t1 := time.Now().UTC().Add(2 * time.Second)
	for i := 0; i < g; i++ {
		for r := 0; r < rounds; r++ {
			x := res[i][r]
			where := fmt.Sprintf("with %d SignPKCS7 calls in flight at the same time (goroutine %d, call %d): ", g, i, r)
			switch {
			case x.pan != "":
				c.Fail(Failure{Kind: "property", What: where + "SignPKCS7 panicked", Case: cs, Go: clip(x.pan)})
			case x.err != nil:
				c.Fail(Failure{Kind: "property", What: where + "SignPKCS7 failed on a valid input", Case: cs, Go: x.err.Error()})
			default:
				c05Judge(c, cs, where, x.blob, oid, x.content, certs[i], t0, t1, r == rounds-1 && i < 2)
			}
		}
		if c.NFailures() >= 6 {
			return
		}
	}
}

// c05Authenticode: the other producer named by the property, authenticode.SignAuthenticode(signer, cert, stream, SHA-256).
// The encapsulated content is located with encoding/asn1; it has to be an SpcIndirectDataContent (Authenticode
// specification: SpcAttributeTypeAndOptionalValue of type SPC_PE_IMAGE_DATAOBJ, then DigestInfo { sha256, digest })
// whose digest is the SHA-256 of the stream, and the blob has to be what SignPKCS7 must produce for that content.
// c05StreamKinds: the io.Reader kinds SignAuthenticode is handed the stream through ("" in a case = the first one).
// The content that is signed is the bytes the reader delivers, however it delivers them: io.Reader allows the last
// bytes to come together with io.EOF as well as io.EOF in a call of its own, short reads and single bytes.
var c05StreamKinds = []string{"bytes.Reader", "data-with-eof", "section-over-eof-with-last-read", "one-byte", "half-reads", "bytes.Buffer", "half-reads+data-with-eof"}

func c05Stream(kind string, data []byte) io.Reader {
	switch kind {
	case "data-with-eof": // the final bytes and io.EOF in one call
		return iotest.DataErrReader(bytes.NewReader(data))
	case "section-over-eof-with-last-read": // an io.SectionReader over a ReaderAt that reports io.EOF with the read that reaches its end
		return io.NewSectionReader(eofAtEnd{data}, 0, int64(len(data)))
	case "one-byte":
		return iotest.OneByteReader(bytes.NewReader(data))
	case "half-reads":
		return iotest.HalfReader(bytes.NewReader(data))
	case "bytes.Buffer":
		return bytes.NewBuffer(append([]byte{}, data...))
	case "half-reads+data-with-eof":
		return iotest.DataErrReader(iotest.HalfReader(bytes.NewReader(data)))
	}
	return bytes.NewReader(data)
}

func c05Authenticode(c *Ctx, cs Case) {
	bits := int(cs.I("bits"))
	rsaKey := poolKey(c, bits, int(cs.I("key")))
	cert, _ := c05Cert(c, rsaKey, int(cs.I("shape")))
	kind := cs.S("signer")
	data := detBytes(cs.S("salt"), int(cs.I("len")))
	c.Count(cs.Key(), true, "sign-authenticode/len"+sizeClass(len(data)))
	c.Class("signer-kind/" + kind + "/authenticode")
	rdKind := cs.S("reader")
	if rdKind == "" {
		rdKind = c05StreamKinds[0]
	}
	c.Class("sign-authenticode/stream-through/" + rdKind)
	fail := func(what, goObs, spec string) {
		if rdKind != c05StreamKinds[0] {
			what += " [the stream was handed over through: " + rdKind + "]"
		}
		c.Fail(Failure{Kind: "property", What: "SignAuthenticode: " + what, Case: cs, Go: clip(goObs), Spec: clip(spec)})
	}
	t0 := time.Now().UTC().Add(-2 * time.Second)
	var blob []byte
	var err error
	if p, msg := safely(func() {
		blob, err = authenticode.SignAuthenticode(signerOfKind(kind, rsaKey), cert, c05Stream(cs.S("reader"), data), crypto.SHA256)
	}); p || err != nil {
		fail("panicked or failed on a valid input", fmt.Sprint(msg, err), "")
		return
	}
	t1 := time.Now().UTC().Add(2 * time.Second)
	var ci stdContentInfo
	var sd stdSignedData
	if _, err := asn1.Unmarshal(blob, &ci); err != nil {
		fail("the output does not decode", err.Error(), "")
		return
	}
	if _, err := asn1.Unmarshal(ci.Content.Bytes, &sd); err != nil {
		fail("the SignedData does not decode", err.Error(), "")
		return
	}
	var spc struct {
		Data struct {
			Type  asn1.ObjectIdentifier
			Value asn1.RawValue `asn1:"optional"`
		}
		MessageDigest struct {
			Alg    pkix.AlgorithmIdentifier
			Digest []byte
		}
	}
	if rest, err := asn1.Unmarshal(sd.ECI.Content.Bytes, &spc); err != nil || len(rest) != 0 {
		fail("the encapsulated content is not an SpcIndirectDataContent", fmt.Sprint(err)+" "+hx(sd.ECI.Content.Bytes), "")
		return
	}
	want := sha256.Sum256(data)
	if !spc.Data.Type.Equal(asn1.ObjectIdentifier{1, 3, 6, 1, 4, 1, 311, 2, 1, 15}) {
		fail("SpcIndirectDataContent.data is not of type SPC_PE_IMAGE_DATAOBJ", spc.Data.Type.String(), "1.3.6.1.4.1.311.2.1.15")
	}
	if !spc.MessageDigest.Alg.Algorithm.Equal(oidSHA256Std) || !bytes.Equal(spc.MessageDigest.Digest, want[:]) {
		fail("SpcIndirectDataContent.messageDigest is not the SHA-256 of the stream", spc.MessageDigest.Alg.Algorithm.String()+" "+hx(spc.MessageDigest.Digest), "sha256 "+hx(want[:]))
	}
	var inner asn1.RawValue
	if _, err := asn1.Unmarshal(sd.ECI.Content.Bytes, &inner); err != nil {
		return
	}
	c05Judge(c, cs, "SignAuthenticode: ", blob, asn1.ObjectIdentifier{1, 3, 6, 1, 4, 1, 311, 2, 1, 4}, inner.Bytes, cert, t0, t1, true)
}

func derLen(n int) []byte {
	switch {
	case n < 128:
		return []byte{byte(n)}
	case n < 256:
		return []byte{0x81, byte(n)}
	case n < 65536:
		return []byte{0x82, byte(n >> 8), byte(n)}
	case n < 1<<24:
		return []byte{0x83, byte(n >> 16), byte(n >> 8), byte(n)}
	}
	return []byte{0x84, byte(n >> 24), byte(n >> 16), byte(n >> 8), byte(n)}
}

func sizeClass(n int) string {
	switch {
	case n == 0:
		return "0"
	case n < 128:
		return "<128"
	case n < 256:
		return "<256"
	case n < 65536:
		return "<64K"
	}
	return ">=64K"
}

// content for non-data content types is the inside of a SEQUENCE: a run of DER elements
func derContent(c *Ctx, l int) []byte {
	if l == 0 {
		return nil
	}
	if l < 2 {
		l = 2
	}
	// one OCTET STRING whose header + payload is l bytes (l-2, l-3, l-4 or l-5 payload bytes)
	for _, h := range []int{2, 3, 4, 5} {
		pl := l - h
		if pl >= 0 && len(derLen(pl)) == h-1 {
			return append(append([]byte{0x04}, derLen(pl)...), randBytes(c, pl)...)
		}
	}
	// lengths that no single element can have exactly (e.g. 130): two elements
	return append([]byte{0x05, 0x00}, derContent(c, l-2)...)
}

func contentFor(c *Ctx, oid string, l int) []byte {
	if oid == "1.2.840.113549.1.7.1" {
		return randBytes(c, l)
	}
	return derContent(c, l)
}

func c05Gen(c *Ctx) {
	// the last two have 14 and 38 content octets: with the second, the signed-attribute SET passes 127 bytes (long-form length)
	oids := []string{"1.2.840.113549.1.7.1", "1.3.6.1.4.1.311.2.1.4", "2.999.1234567.1", "0.39.16383.16384", "1.2.840.113549.1.7.2",
		"1.3.6.1.4.1.311.21.8.8000000.9000000", "1.3.6.1.4.1.311.21.8.16000000.15000000.14000000.13000000.12000000.11000000.10000000.1.2"}
	lens := []int{0, 1, 2, 127, 128, 255, 256, 1000, 65535, 65536, 70000}
	bitsets := []int{2048}
	if c.Thorough {
		bitsets = []int{2048, 3072, 4096}
	}
	shapes := certShapes(c)
	nsh := c05NShapes(c)
	n := 0
	haveOpenssl := opensslPath() != ""
	c.Note("openssl", map[bool]string{true: "smime -verify -noverify run on detached data signatures of up to 1000 content octets", false: "not found: OpenSSL leg skipped"}[haveOpenssl])
	// structured: every (oid, length class) once, shapes and keys rotating
	for _, o := range oids {
		for _, l := range lens {
			if !c.Thorough && l > 1000 && n%3 != 0 {
				n++
				continue
			}
			cs := Case{"op": "sign", "oid": o, "content": hx(contentFor(c, o, l)), "bits": int64(bitsets[n%len(bitsets)]), "key": int64(n % 2), "shape": int64(n % nsh),
				"signer": signerKinds[(n/2)%len(signerKinds)]}
			if o == oids[0] && l <= 1000 && haveOpenssl {
				cs["openssl"] = "smime -verify"
			}
			c05Eval(c, cs)
			n++
			if c.NFailures() >= 6 {
				return
			}
		}
	}
	// contents that are themselves DER: exactly one complete value (a SEQUENCE that is empty / short / of 127, 128,
	// 300 and 70000 content octets / nested, a SET, an OCTET STRING, a certificate, a SignedData made by the library,
	// i.e. a signature over a signature), several values, and near misses (a value followed by one more byte, a
	// SEQUENCE header announcing more than there is, a SEQUENCE with a non-minimal length), each as data (detached;
	// also given to the OpenSSL CLI with the content when it exists) and - where the content is a run of complete
	// values, as the inside of a SEQUENCE has to be - under a non-data content type (attached)
	k0 := poolKey(c, 2048, 0)
	cert0 := makeRSACert(k0, shapes[1])
	nested, _ := pkcs7.SignPKCS7(k0, cert0, parseOID(oids[1]), derContent(c, 300))
	type derShape struct {
		name    string
		b       []byte
		anyType bool // a run of complete DER values: also signed under non-data content types
	}
	var dshapes []derShape
	for _, l := range []int{0, 3, 127, 128, 300, 70000} {
		dshapes = append(dshapes, derShape{fmt.Sprintf("sequence/%d", l), tlv(0x30, derContent(c, l)), true})
	}
	dshapes = append(dshapes,
		derShape{"sequence-in-sequence", tlv(0x30, tlv(0x30, derContent(c, 9))), true},
		derShape{"set", tlv(0x31, derContent(c, 12)), true},
		derShape{"octet-string", derContent(c, 40), true},
		derShape{"certificate", cert0.Raw, true},
		derShape{"signed-data", nested, true},
		derShape{"two-sequences", append(tlv(0x30, derContent(c, 3)), tlv(0x30, nil)...), true},
		derShape{"sequence-then-one-byte", append(tlv(0x30, derContent(c, 3)), 0x00), false},
		derShape{"sequence-header-announcing-more", append([]byte{0x30, 0x09}, derContent(c, 5)...), false},
		derShape{"sequence-non-minimal-length", append([]byte{0x30, 0x81, 0x05}, derContent(c, 5)...), false},
	)
	for i, d := range dshapes {
		if len(d.b) == 0 {
			continue
		}
		types := []string{oids[0]}
		if d.anyType {
			types = append(types, oids[1+i%(len(oids)-1)])
			if c.Thorough {
				types = oids
			}
		}
		for _, o := range types {
			cs := Case{"op": "sign", "oid": o, "content": hx(d.b), "contentkind": "der/" + d.name, "bits": int64(bitsets[n%len(bitsets)]), "key": int64(0), "shape": int64(n % nsh),
				"signer": signerKinds[n%len(signerKinds)]}
			if o == oids[0] && len(d.b) <= 1000 && haveOpenssl {
				cs["openssl"] = "smime -verify"
			}
			c05Eval(c, cs)
			n++
			if c.NFailures() >= 6 {
				return
			}
		}
	}
	// signing certificates by who issued them (c05IssuerKinds): an RSA leaf under an ECDSA P-256 / P-384 CA, under an
	// Ed25519 CA, under an RSA CA that signs with RSASSA-PSS, and self-signed with RSASSA-PSS; each as detached data
	// (given to the OpenSSL CLI as well when it exists) and as an attached non-data type, through SignPKCS7 and
	// through SignAuthenticode
	for i := range c05IssuerKinds {
		shape := int64(len(shapes) + i)
		for j, o := range []string{oids[0], oids[1+i%(len(oids)-1)]} {
			cs := Case{"op": "sign", "oid": o, "content": hx(contentFor(c, o, []int{40, 300, 1}[(i+j)%3])), "bits": int64(bitsets[(i+j)%len(bitsets)]), "key": int64((i + j) % 2), "shape": shape,
				"signer": signerKinds[(i+j)%len(signerKinds)]}
			if j == 0 && haveOpenssl {
				cs["openssl"] = "smime -verify"
			}
			c05Eval(c, cs)
		}
		c05Eval(c, Case{"op": "sign-authenticode", "len": int64(100 + i), "salt": fmt.Sprintf("authenticode-issuer-kind-%d-%d", c.Seed, i), "bits": int64(2048), "key": int64(i % 2),
			"shape": shape, "signer": signerKinds[i%len(signerKinds)]})
		if c.NFailures() >= 6 {
			return
		}
	}
	// signing certificates by their validity period at the time of signing: "any certificate" includes one that has
	// expired (a year / a second ago) and one that is not valid yet (from a second / a year from now on) - keys
	// outlive their certificates, and Secure Boot ignores expiry -, one whose period ends or starts at the very second,
	// one with no validity period at all; self-signed and CA-issued. SignPKCS7 stamps the current time into
	// signingTime: the output must be accepted by the library's own verification and by the independent ones (which
	// are not asked to judge the certificate's validity: openssl -noverify; go.mozilla.org/pkcs7 is handed the
	// certificate with an unbounded period) like any other. Detached data and an attached non-data type, and
	// SignAuthenticode for every other relation.
	for k := range validityShapes(time.Now(), true) {
		for self := 0; self < 2; self++ {
			if !c.Thorough && k > 4 && (k+self)%2 == 1 {
				continue
			}
			shape := int64(c05ValidityBase + 2*k + self)
			for j, o := range []string{oids[0], oids[1+k%(len(oids)-1)]} {
				if !c.Thorough && j != (k+self)%2 && k > 4 {
					continue
				}
				cs := Case{"op": "sign", "oid": o, "content": hx(contentFor(c, o, []int{40, 300, 1}[(k+j)%3])), "bits": int64(2048), "key": int64((k + j) % 2), "shape": shape,
					"signer": signerKinds[(k+j+self)%len(signerKinds)]}
				if j == 0 && haveOpenssl {
					cs["openssl"] = "smime -verify"
				}
				c05Eval(c, cs)
			}
			if (k+self)%2 == 0 {
				c05Eval(c, Case{"op": "sign-authenticode", "len": int64(200 + k), "salt": fmt.Sprintf("authenticode-validity-%d-%d", c.Seed, k), "bits": int64(2048), "key": int64(k % 2),
					"shape": shape, "signer": signerKinds[k%len(signerKinds)]})
			}
			if c.NFailures() >= 6 {
				return
			}
		}
	}
	// the other producer: SignAuthenticode over streams of several lengths
	for i, l := range []int{0, 1, 63, 64, 4096, 70000} {
		c05Eval(c, Case{"op": "sign-authenticode", "len": int64(l), "salt": fmt.Sprintf("authenticode-%d-%d", c.Seed, i), "bits": int64(bitsets[i%len(bitsets)]), "key": int64(i % 2),
			"shape": int64((i * 3) % nsh), "signer": signerKinds[i%len(signerKinds)]})
	}
	// ... and through every kind of io.Reader, over stream lengths around the read sizes (each kind with two lengths per
	// run, rotating; thorough: every kind x every length)
	{
		lens := []int{0, 1, 2, 63, 511, 512, 4096, 32768, 32769, 70000, 1<<20 + 1}
		for k, rk := range c05StreamKinds[1:] {
			for j, l := range lens {
				if !c.Thorough && j != (2*k+int(c.Seed))%len(lens) && j != (2*k+5+int(c.Seed))%len(lens) && !(j == 1 && k < 2) {
					continue
				}
				c05Eval(c, Case{"op": "sign-authenticode", "len": int64(l), "salt": fmt.Sprintf("authenticode-stream-%d-%d-%d", c.Seed, k, j), "bits": int64(2048), "key": int64((k + j) % 2),
					"shape": int64((k + 2*j) % nsh), "signer": signerKinds[(k+j)%len(signerKinds)], "reader": rk})
				if c.NFailures() >= 6 {
					return
				}
			}
		}
	}
	// several calls in flight at the same time: 2, 4, 8 and 16 goroutines, large contents (64 KiB: hashing the content
	// is where a call spends its time before it reaches the caller's signer), small ones and a mix, one key and
	// certificate for all or one per goroutine, data and a non-data content type
	for i, g := range []int{2, 4, 8, 16} {
		for j, lens := range [][]int{{65536}, {65536, 1, 70000, 300}, {0, 17}} {
			if j == 2 && i%2 == 1 && !c.Thorough {
				continue
			}
			c05Eval(c, Case{"op": "sign-concurrent", "oid": oids[(i+j)%2], "goroutines": int64(g), "rounds": int64(c.P(6, 24)), "lens": intsI(lens), "salt": fmt.Sprintf("concurrent-%d-%d-%d", c.Seed, i, j),
				"bits": int64(2048), "key": int64(i % 2), "shape": int64((i + 4*j) % nsh), "perkey": int64((i + j) % 2), "signer": signerKinds[[]int{0, 1, 3, 4}[(i+j)%4]]})
			if c.NFailures() >= 6 {
				return
			}
		}
	}
	for i := 0; i < c.N(40, 3000) && c.NFailures() < 6; i++ {
		l := []int{0, 1, c.Rng.Intn(300), c.Rng.Intn(70000)}[c.Rng.Intn(4)]
		o := oids[c.Rng.Intn(len(oids))]
		c05Eval(c, Case{"op": "sign", "oid": o, "content": hx(contentFor(c, o, l)), "bits": int64(bitsets[c.Rng.Intn(len(bitsets))]),
			"key": int64(c.Rng.Intn(2)), "shape": int64(c.Rng.Intn(nsh)), "signer": signerKinds[c.Rng.Intn(len(signerKinds))]})
	}
}

func init() {
	register("C05", &PropDef{
		Rule:   "SignPKCS7 handed five kinds of caller-supplied crypto.Signer holding the same RSA key (*rsa.PrivateKey; a wrapper offering only Sign and Public; one that additionally offers SignMessage(rand, msg, opts) with message semantics, i.e. hashes msg itself like crypto.MessageSigner / token and KMS wrappers; one whose Public() returns the key by value instead of by pointer; a pointer-receiver holder whose Sign chooses PSS or PKCS#1 v1.5 from the options it is given), rotating over content types {data, SpcIndirectDataContent, 2.999.1234567.1, 0.39.16383.16384, signedData, and two enterprise OIDs of 14 and 38 content octets (signed attributes longer than 127 bytes)} x content lengths {0,1,2,127,128,255,256,1000,65535,65536,70000,random} x RSA 2048 (thorough: 3072, 4096) x 21 certificates (the 16 shapes of the harness: self-signed and issued by an RSA CA with issuer different from subject; short/long/multi-RDN/UTF-8/hand-encoded issuers; serials 1,127,128,255,256, high-bit, leading-zero source bytes, 20 bytes, 2^159; the certificate itself signed with SHA-256/384/512; and 5 by WHO issued them: an RSA signing certificate issued by an ECDSA P-256 CA, by an ECDSA P-384 CA with SHA-384, by an Ed25519 CA, by an RSA CA signing with RSASSA-PSS, and self-signed with RSASSA-PSS - the certificate's own signatureAlgorithm then differs from the kind of the subject's key, which is what the SignerInfo's digestEncryptionAlgorithm has to describe: rsaEncryption / sha256WithRSAEncryption, read off the blob with encoding/asn1, and go.mozilla.org/pkcs7 and OpenSSL verify by that field; each of the five runs as detached data [OpenSSL CLI too], as an attached non-data type and through SignAuthenticode, and in the rotation). Contents that are themselves DER, each as data and (where a run of complete values) under a non-data type: exactly one complete value - a SEQUENCE of 0, 3, 127, 128, 300 and 70000 content octets, a SEQUENCE in a SEQUENCE, a SET, an OCTET STRING, a certificate, a SignedData made by the library (a signature over a signature) -, two SEQUENCEs, and near misses (a SEQUENCE followed by one byte, a SEQUENCE header announcing more than follows, a non-minimal length). authenticode.SignAuthenticode over streams of 0, 1, 63, 64, 4096 and 70000 bytes (the encapsulated SpcIndirectDataContent located with encoding/asn1 must carry the SHA-256 of the stream, and the blob is judged as SignPKCS7's for that content). Concurrent use: 2, 4, 8 and 16 goroutines x 6 calls each [thorough: 24] with contents of 64 KiB / mixed 64 KiB, 1, 70000, 300 / 0 and 17 bytes, one key and certificate for all or one per goroutine, through a caller-supplied crypto.Signer that holds every Sign call until the Sign calls of all running goroutines have arrived (so all calls are inside SignPKCS7 together and the next calls hash their contents at the same moment); each call must return what it returns alone: every blob is judged against the content of ITS call by all Go-side oracles, one per goroutine also by the Lean models. Each blob is checked, with encoding/asn1 alone, for every clause of the statement (signedData; SHA-256 as digest algorithm of SignedData and signer entry; content type; attached content = one SEQUENCE holding exactly the supplied content / detached = none; the certificate embedded; one signer entry naming issuer and serial; RSA; signed contentType, signingTime and messageDigest = SHA-256 of the SUPPLIED content), detached data signatures of up to 1000 octets are given to openssl smime -verify with the content and with different content when the CLI exists; each blob is checked for strict DER (minimal lengths, SET OF order) by an independent walker, verified by the library, by an encoding/asn1+crypto/rsa verifier, by go.mozilla.org/pkcs7 and by the Lean Spec, with the right and with different content, and reproduced byte for byte by the Lean builder model. Signing certificates by how their validity period relates to the time of signing (the library stamps the current time into signingTime): covering it, expired a year / a second before, valid only from a second / a year after, ending / starting at that very second, a single instant, no validity period at all, only NotBefore missing - self-signed and CA-issued, made at the time of the call (quick: the first five relations in both forms with detached data and an attached non-data type, the others alternating; thorough: all; SignAuthenticode for every other one): the output must pass the library's own verification and every other oracle like any other certificate's (expiry plays no part; go.mozilla.org/pkcs7 is handed the certificate with an unbounded period, OpenSSL runs with -noverify). Every case is non-trivial; distinct = distinct (oid, content, key, shape, signer kind) resp. distinct concurrent schedule / stream. The stream is the bytes the io.Reader delivers, however it delivers them: besides bytes.Reader, SignAuthenticode is handed streams of {0,1,2,63,511,512,4096,32768,32769,70000, 1 MiB + 1} bytes (quick: two or three lengths per kind, rotating with the run's seed; thorough: all) through a reader that returns its LAST BYTES TOGETHER WITH io.EOF (iotest.DataErrReader), an io.SectionReader over a ReaderAt that reports io.EOF with the read that reaches its end, one byte per Read, half reads, half reads ending with data + io.EOF, and a bytes.Buffer; the embedded digest must be the SHA-256 of all bytes delivered and every other oracle applies unchanged.",
		Assume: []string{"RSA PKCS#1 v1.5 signing is deterministic, so the builder model is given the signature and the signing time read back from the blob", "x509.ParseCertificates is opaque (its verdict is handed to the model)"},
		Eval:   c05Eval, Gen: c05Gen,
	})
}
