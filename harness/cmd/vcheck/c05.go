package main

import (
	"bytes"
	"crypto"
	"crypto/rsa"
	"crypto/sha256"
	"crypto/x509"
	"encoding/asn1"
	"fmt"
	"io"
	"strconv"
	"strings"
	"time"

	"github.com/foxboron/go-uefi/pkcs7"
)

func parseOID(s string) asn1.ObjectIdentifier {
	var o asn1.ObjectIdentifier
	for _, p := range strings.Split(s, ".") {
		n, _ := strconv.Atoi(p)
		o = append(o, n)
	}
	return o
}

// driver p7.verify: returns (model class, spec verdict)
func askVerify(c *Ctx, blob []byte, cert *x509.Certificate, detached []byte) (string, string) {
	certsOk := "1"
	cf := c.Drv.Ask("p7.certs", hx(blob))
	if strings.HasPrefix(cf, "some ") {
		if raw := unhx(cf[5:]); len(raw) > 0 || true {
			if _, err := x509.ParseCertificates(raw); err != nil {
				certsOk = "0"
			}
		}
	}
	det := "none"
	if detached != nil {
		det = hx(detached)
	}
	r := c.Drv.Ask("p7.verify", append([]string{hx(blob), certsOk, det}, certArgs(cert)...)...)
	mi := strings.Index(r, " spec=")
	if !strings.HasPrefix(r, "model=") || mi < 0 {
		return "driver:" + r, "?"
	}
	return r[len("model="):mi], r[mi+len(" spec="):]
}

// ---- caller-supplied signer kinds ----
// SignPKCS7 takes a crypto.Signer: the property quantifies over whatever object holds the RSA key, not only
// over *rsa.PrivateKey. Each kind below signs with the same key and honours the crypto.Signer contract
// (Sign receives the digest named by opts), so the output must verify whichever kind is handed in.

// signOnly: an opaque key holder (token, agent, KMS client) that offers Sign and Public and nothing else
type signOnly struct{ k *rsa.PrivateKey }

func (s signOnly) Public() crypto.PublicKey { return &s.k.PublicKey }
func (s signOnly) Sign(r io.Reader, digest []byte, opts crypto.SignerOpts) ([]byte, error) {
	return s.k.Sign(r, digest, opts)
}

// messageSignerKind: additionally offers SignMessage with MESSAGE semantics (the shape of crypto.MessageSigner):
// msg is the data to be signed, the signer hashes it itself with opts.HashFunc() before signing
type messageSignerKind struct{ signOnly }

func (s messageSignerKind) SignMessage(r io.Reader, msg []byte, opts crypto.SignerOpts) ([]byte, error) {
	h := opts.HashFunc().New()
	h.Write(msg)
	return s.k.Sign(r, h.Sum(nil), opts)
}

// publicByValue: Public() hands out the key by value (rsa.PublicKey) instead of by pointer
type publicByValue struct{ signOnly }

func (s publicByValue) Public() crypto.PublicKey { return s.k.PublicKey }

// pssCapable: a key holder whose Sign looks at the options it is given: PSS options produce a PSS signature,
// everything else PKCS#1 v1.5 (what *rsa.PrivateKey does; here behind an interface value, with a pointer receiver)
type pssCapable struct{ k *rsa.PrivateKey }

func (s *pssCapable) Public() crypto.PublicKey { return &s.k.PublicKey }
func (s *pssCapable) Sign(r io.Reader, digest []byte, opts crypto.SignerOpts) ([]byte, error) {
	if o, ok := opts.(*rsa.PSSOptions); ok {
		return rsa.SignPSS(r, s.k, o.Hash, digest, o)
	}
	return rsa.SignPKCS1v15(r, s.k, opts.HashFunc(), digest)
}

var signerKinds = []string{"rsa-private-key", "sign-only", "message-signer", "public-by-value", "options-aware"}

func signerOfKind(kind string, k *rsa.PrivateKey) crypto.Signer {
	switch kind {
	case "sign-only":
		return signOnly{k}
	case "message-signer":
		return messageSignerKind{signOnly{k}}
	case "public-by-value":
		return publicByValue{signOnly{k}}
	case "options-aware":
		return &pssCapable{k}
	}
	return k
}

func c05Eval(c *Ctx, cs Case) {
	oid := parseOID(cs.S("oid"))
	content := unhx(cs.S("content"))
	bits := int(cs.I("bits"))
	rsaKey := poolKey(c, bits, int(cs.I("key")))
	shapes := certShapes(c)
	sh := shapes[int(cs.I("shape"))%len(shapes)]
	cert := makeRSACert(rsaKey, sh)
	kind := cs.S("signer")
	if kind == "" {
		kind = signerKinds[0]
	}
	key := signerOfKind(kind, rsaKey) // what the caller hands to SignPKCS7
	cls := fmt.Sprintf("sign/%d/%s/len%s", bits, sh.desc, sizeClass(len(content)))
	c.Class("signer-kind/" + kind)
	c.Count(cs.Key(), true, cls)
	c.Sample(cs)
	fail := func(what, goObs, spec string) {
		c.Fail(Failure{Kind: "property", What: what, Case: cs, Go: clip(goObs), Spec: clip(spec)})
	}
	t0 := time.Now().UTC().Add(-2 * time.Second)
	var blob []byte
	var err error
	// results of earlier and later calls are independent values: a signature that is still held must not change
	// when the library signs something else
	probe, _ := pkcs7.SignPKCS7(key, cert, oid, []byte("held while the next signature is made"))
	probeSnap := append([]byte{}, probe...)
	if p, msg := safely(func() { blob, err = pkcs7.SignPKCS7(key, cert, oid, content) }); p {
		fail("SignPKCS7 panicked: "+msg, "panic", "")
		return
	}
	t1 := time.Now().UTC().Add(2 * time.Second)
	if !bytes.Equal(probe, probeSnap) {
		fail("the bytes returned by an earlier SignPKCS7 call changed when SignPKCS7 was called again (the result aliases memory that is reused)", hx(probe[:min(len(probe), 48)]), hx(probeSnap[:min(len(probeSnap), 48)]))
	}
	if err == nil {
		blobSnap := append([]byte{}, blob...)
		pkcs7.SignPKCS7(key, cert, pkcs7.OIDData, bytes.Repeat([]byte{0x77}, len(content)+9))
		if !bytes.Equal(blob, blobSnap) {
			fail("the bytes returned by SignPKCS7 changed when SignPKCS7 was called again (the result aliases memory that is reused)", hx(blob[:min(len(blob), 48)]), hx(blobSnap[:min(len(blobSnap), 48)]))
			blob = blobSnap
		}
	}
	if err != nil {
		fail("SignPKCS7 failed on a valid input: "+err.Error(), "err", "")
		return
	}
	detached := oid.Equal(pkcs7.OIDData) || len(content) == 0
	var det []byte
	if detached {
		det = content
		if det == nil {
			det = []byte{}
		}
	}
	// ---- the library's own parser and verifier ----
	var p7 *pkcs7.PKCS7
	if p, msg := safely(func() { p7, err = pkcs7.ParsePKCS7(blob) }); p || err != nil {
		fail("the library's own parser rejects its output", fmt.Sprint(msg, err), "")
		return
	}
	md := sha256.Sum256(content)
	if len(p7.SignerInfo) != 1 || p7.SignerInfo[0].AuthenticatedAttributes == nil {
		fail("own parser: expected one signer with signed attributes", fmt.Sprint(len(p7.SignerInfo)), "")
		return
	}
	si := p7.SignerInfo[0]
	at := si.AuthenticatedAttributes
	wantContent := []byte(nil)
	if !detached {
		wantContent = append(append([]byte{0x30}, derLen(len(content))...), content...)
	}
	switch {
	case !p7.OID.Equal(oid):
		fail("own parser: content type differs", p7.OID.String(), oid.String())
	case !bytes.Equal(p7.ContentInfo, wantContent):
		fail("own parser: content differs", hx(p7.ContentInfo), hx(wantContent))
	case len(p7.Certs) != 1 || !bytes.Equal(p7.Certs[0].Raw, cert.Raw):
		fail("own parser: embedded certificate differs", "", "")
	case !at.ContentType.Equal(oid) || !bytes.Equal(at.MessageDigest, md[:]):
		fail("own parser: signed attributes do not carry the content type and SHA-256 of the content", at.ContentType.String()+" "+hx(at.MessageDigest), oid.String()+" "+hx(md[:]))
	case at.SigningTime.Before(t0) || at.SigningTime.After(t1):
		fail("own parser: signing time is not the current UTC time", at.SigningTime.String(), t0.String())
	}
	var ok bool
	if p, msg := safely(func() { ok, err = p7.Verify(cert) }); p || err != nil || !ok {
		fail("the library's own verification does not accept its output", fmt.Sprint(msg, err, ok), "true")
	}
	// ---- independent implementations ----
	if acc, parsed := stdVerify(blob, cert, det); !parsed || !acc {
		fail("encoding/asn1 + crypto/rsa verifier does not accept the output", fmt.Sprintf("parsed=%v accepted=%v", parsed, acc), "accepted")
	}
	if acc, parsed := mozVerify(blob, cert, det); !parsed || !acc {
		fail("go.mozilla.org/pkcs7 does not accept the output", fmt.Sprintf("parsed=%v accepted=%v", parsed, acc), "accepted")
	}
	model, spec := askVerify(c, blob, cert, det)
	if spec != "true" {
		fail("Spec.cmsVerify (Lean, from the RFC) does not accept the output", spec, "true")
	}
	c.Trace()
	if model != "ok true" {
		c.Fail(Failure{Kind: "tie", What: "Impl verifier model on library output", Case: cs, Model: model, Go: "ok true"})
	}
	// different content must be rejected
	if detached {
		other := append(append([]byte{}, content...), 0x01)
		if acc, _ := stdVerify(blob, cert, other); acc {
			fail("stdlib verifier accepts different content", "accepted", "rejected")
		}
		if acc, _ := mozVerify(blob, cert, other); acc {
			fail("mozilla/pkcs7 accepts different content", "accepted", "rejected")
		}
		if _, s := askVerify(c, blob, cert, other); s != "false" {
			fail("Spec.cmsVerify accepts different content", s, "false")
		}
	} else if i := bytes.Index(blob, wantContent); i >= 0 {
		mut := append([]byte{}, blob...)
		mut[i+len(wantContent)-1] ^= 0x01
		if acc, _ := stdVerify(mut, cert, nil); acc {
			fail("stdlib verifier accepts a changed encapsulated content", "accepted", "rejected")
		}
		if acc, _ := mozVerify(mut, cert, nil); acc {
			fail("mozilla/pkcs7 accepts a changed encapsulated content", "accepted", "rejected")
		}
		if _, s := askVerify(c, mut, cert, nil); s != "false" {
			fail("Spec.cmsVerify accepts a changed encapsulated content", s, "false")
		}
	}
	// ---- strict DER (X.690): minimal lengths everywhere, SET OF elements ordered by their encodings ----
	if roots, ok := parseDER(blob); !ok || len(roots) != 1 || !bytes.Equal(roots[0].encode(), blob) {
		fail("the output is not a single DER element with minimal length encodings", "", "")
	} else {
		roots[0].walk(nil, func(n, _ *derNode) {
			if n.tag != 0x31 && !(n.tag == 0xa0 && len(n.kids) > 1 && n.kids[0].tag == 0x30 && len(n.kids[0].kids) == 2 && n.kids[0].kids[0].tag == 0x06) {
				return // SETs, and the [0] IMPLICIT SET OF Attribute of a SignerInfo
			}
			for i := 1; i < len(n.kids); i++ {
				if bytes.Compare(n.kids[i-1].encode(), n.kids[i].encode()) > 0 {
					fail("a SET OF in the output is not in DER order (elements sorted by their encodings); the signature is computed over that encoding", hx(n.kids[i-1].encode()[:4])+" before "+hx(n.kids[i].encode()[:4]), "ascending")
				}
			}
		})
	}
	// ---- byte-exact correspondence with the Lean builder model ----
	c.Trace()
	m := c.Drv.Ask("p7.sign", cs.S("oid"), hx(content), hx(cert.Raw), hx(cert.RawIssuer), cert.SerialNumber.String(),
		hx([]byte(at.SigningTime.Format("060102150405Z0700"))), hx(md[:]), hx(si.EncryptedDigest))
	if m != hx(blob) {
		c.Fail(Failure{Kind: "tie", What: "SignPKCS7: the Lean builder model does not reproduce the output byte for byte", Case: cs, Model: clip(m), Go: clip(hx(blob))})
	}
	// and with the parser model
	c.Trace()
	if pm := c.Drv.Ask("p7.parse", hx(blob), "1"); !strings.HasPrefix(pm, "ok oid="+cs.S("oid")+" content="+hx(wantContent)+" certs="+hx(cert.Raw)+" ") {
		c.Fail(Failure{Kind: "tie", What: "ParsePKCS7 model on library output", Case: cs, Model: clip(pm)})
	}
}

func derLen(n int) []byte {
	switch {
	case n < 128:
		return []byte{byte(n)}
	case n < 256:
		return []byte{0x81, byte(n)}
	case n < 65536:
		return []byte{0x82, byte(n >> 8), byte(n)}
	case n < 1<<24:
		return []byte{0x83, byte(n >> 16), byte(n >> 8), byte(n)}
	}
	return []byte{0x84, byte(n >> 24), byte(n >> 16), byte(n >> 8), byte(n)}
}

func sizeClass(n int) string {
	switch {
	case n == 0:
		return "0"
	case n < 128:
		return "<128"
	case n < 256:
		return "<256"
	case n < 65536:
		return "<64K"
	}
	return ">=64K"
}

// content for non-data content types is the inside of a SEQUENCE: a run of DER elements
func derContent(c *Ctx, l int) []byte {
	if l == 0 {
		return nil
	}
	if l < 2 {
		l = 2
	}
	// one OCTET STRING whose header + payload is l bytes (l-2, l-3, l-4 or l-5 payload bytes)
	for _, h := range []int{2, 3, 4, 5} {
		pl := l - h
		if pl >= 0 && len(derLen(pl)) == h-1 {
			return append(append([]byte{0x04}, derLen(pl)...), randBytes(c, pl)...)
		}
	}
	// lengths that no single element can have exactly (e.g. 130): two elements
	return append([]byte{0x05, 0x00}, derContent(c, l-2)...)
}

func contentFor(c *Ctx, oid string, l int) []byte {
	if oid == "1.2.840.113549.1.7.1" {
		return randBytes(c, l)
	}
	return derContent(c, l)
}

func c05Gen(c *Ctx) {
	// the last two have 14 and 38 content octets: with the second, the signed-attribute SET passes 127 bytes (long-form length)
	oids := []string{"1.2.840.113549.1.7.1", "1.3.6.1.4.1.311.2.1.4", "2.999.1234567.1", "0.39.16383.16384", "1.2.840.113549.1.7.2",
		"1.3.6.1.4.1.311.21.8.8000000.9000000", "1.3.6.1.4.1.311.21.8.16000000.15000000.14000000.13000000.12000000.11000000.10000000.1.2"}
	lens := []int{0, 1, 2, 127, 128, 255, 256, 1000, 65535, 65536, 70000}
	bitsets := []int{2048}
	if c.Thorough {
		bitsets = []int{2048, 3072, 4096}
	}
	shapes := certShapes(c)
	n := 0
	// structured: every (oid, length class) once, shapes and keys rotating
	for _, o := range oids {
		for _, l := range lens {
			if !c.Thorough && l > 1000 && n%3 != 0 {
				n++
				continue
			}
			c05Eval(c, Case{"op": "sign", "oid": o, "content": hx(contentFor(c, o, l)), "bits": int64(bitsets[n%len(bitsets)]), "key": int64(n % 2), "shape": int64(n % len(shapes)),
				"signer": signerKinds[(n/2)%len(signerKinds)]})
			n++
			if c.NFailures() >= 6 {
				return
			}
		}
	}
	for i := 0; i < c.N(40, 3000) && c.NFailures() < 6; i++ {
		l := []int{0, 1, c.Rng.Intn(300), c.Rng.Intn(70000)}[c.Rng.Intn(4)]
		o := oids[c.Rng.Intn(len(oids))]
		c05Eval(c, Case{"op": "sign", "oid": o, "content": hx(contentFor(c, o, l)), "bits": int64(bitsets[c.Rng.Intn(len(bitsets))]),
			"key": int64(c.Rng.Intn(2)), "shape": int64(c.Rng.Intn(len(shapes))), "signer": signerKinds[c.Rng.Intn(len(signerKinds))]})
	}
}

func init() {
	register("C05", &PropDef{
		Rule:   "SignPKCS7 handed five kinds of caller-supplied crypto.Signer holding the same RSA key (*rsa.PrivateKey; a wrapper offering only Sign and Public; one that additionally offers SignMessage(rand, msg, opts) with message semantics, i.e. hashes msg itself like crypto.MessageSigner / token and KMS wrappers; one whose Public() returns the key by value instead of by pointer; a pointer-receiver holder whose Sign chooses PSS or PKCS#1 v1.5 from the options it is given), rotating over content types {data, SpcIndirectDataContent, 2.999.1234567.1, 0.39.16383.16384, signedData, and two enterprise OIDs of 14 and 38 content octets (signed attributes longer than 127 bytes)} x content lengths {0,1,2,127,128,255,256,1000,65535,65536,70000,random} x RSA 2048 (thorough: 3072, 4096) x 11 certificate shapes (9 self-signed and 2 CA-issued with issuer different from subject; short/long/multi-RDN/UTF-8 issuers; serials 1,127,128,255,256, high-bit, leading-zero source bytes, 20 bytes, 2^159). Each blob is checked for strict DER (minimal lengths, SET OF order) by an independent walker, verified by the library, by an encoding/asn1+crypto/rsa verifier, by go.mozilla.org/pkcs7 and by the Lean Spec, with the right and with different content, and reproduced byte for byte by the Lean builder model. Every case is non-trivial; distinct = distinct (oid, content, key, shape, signer kind).",
		Assume: []string{"RSA PKCS#1 v1.5 signing is deterministic, so the builder model is given the signature and the signing time read back from the blob", "x509.ParseCertificates is opaque (its verdict is handed to the model)"},
		Eval:   c05Eval, Gen: c05Gen,
	})
}
