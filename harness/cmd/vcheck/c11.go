package main

import (
	"bytes"
	"crypto/x509"
	"encoding/binary"
	"encoding/json"
	"errors"
	"fmt"
	"io"
	mrand "math/rand"
	"os"
	"sort"
	"strings"
	"sync"
	"time"

	"github.com/foxboron/go-uefi/efi/attributes"
	efs "github.com/foxboron/go-uefi/efi/fs"
	"github.com/foxboron/go-uefi/efi/signature"
	"github.com/foxboron/go-uefi/efi/util"
	"github.com/foxboron/go-uefi/efivar"
	"github.com/foxboron/go-uefi/efivarfs"
	"github.com/foxboron/go-uefi/efivarfs/fswrapper"
	"github.com/spf13/afero"
)

// an Unmarshallable that records whether decoding was attempted
type probeValue struct {
	called bool
	got    []byte
}

func (p *probeValue) Unmarshal(b *bytes.Buffer) error {
	p.called = true
	p.got = append([]byte{}, b.Bytes()...)
	return nil
}

func canonGUIDText(g util.EFIGUID) string {
	return fmt.Sprintf("%08x-%04x-%04x-%02x%02x-%02x%02x%02x%02x%02x%02x", g.Data1, g.Data2, g.Data3, g.Data4[0], g.Data4[1], g.Data4[2], g.Data4[3], g.Data4[4], g.Data4[5], g.Data4[6], g.Data4[7])
}

// the recorded calls with long write buffers abbreviated to their length and first bytes (for failure reports)
func c11ShortLog(log []string) string {
	out := make([]string, len(log))
	for i, l := range log {
		if strings.HasPrefix(l, "write(") && len(l) > 80 {
			h := strings.TrimSuffix(strings.TrimSuffix(strings.TrimPrefix(l, "write("), "!"), ")")
			l = fmt.Sprintf("write(%d bytes: %s…)%s", len(h)/2, h[:32], map[bool]string{true: "!"}[strings.HasSuffix(l, "!")])
		}
		out[i] = l
	}
	return strings.Join(out, " ")
}

// the certificate the signed-update writes of this property are signed with (what is signed is C06's subject; here the
// question is what reaches the filesystem)
var c11SignCertCache *x509.Certificate

func c11SignCert(c *Ctx) *x509.Certificate {
	if c11SignCertCache == nil {
		c11SignCertCache = makeRSACert(poolKey(c, 2048, 0), certShapes(c)[0])
	}
	return c11SignCertCache
}

// c11WantBuffer says whether p is the buffer the contract asks for: the 4-byte little-endian mask of the variable
// definition followed by the encoded value.  For a signed update the encoded value is an authentication descriptor
// (16-byte timestamp, WIN_CERTIFICATE whose dwLength delimits it) followed by the value given; the descriptor's content
// is C06's subject and differs from call to call, so only its extent is used here.  "" means yes.
func c11WantBuffer(p []byte, attrs uint32, value []byte, signed bool) string {
	want := make([]byte, 4, 4+len(value))
	binary.LittleEndian.PutUint32(want, attrs)
	if !signed {
		want = append(want, value...)
		if !bytes.Equal(p, want) {
			return "write(" + hx(want) + ")"
		}
		return ""
	}
	spec := "write(" + hx(want) + " || authentication descriptor || " + hx(value) + ")"
	if len(p) < 4+40 || !bytes.Equal(p[:4], want) {
		return spec
	}
	dw := int(binary.LittleEndian.Uint32(p[4+16:]))
	if dw < 24 || 4+16+dw > len(p) || !bytes.Equal(p[4+16+dw:], value) {
		return spec
	}
	return ""
}

// c11CheckWriteLog holds the calls ONE variable write made on the filesystem against the efivarfs contract of the property
// statement: one OpenFile of <efivars directory>/<Name>-<canonical lower-case GUID>, write-only with create, in append
// mode iff APPEND_WRITE is in the definition's mask; one Write of mask || encoded value; Close; nothing else.  It returns
// the buffer of the (last) Write.
func c11CheckWriteLog(log []string, wantPath string, attrs uint32, value []byte, signed, faulted bool, fail func(what, spec string)) (written []byte) {
	writes, opens := 0, 0
	for _, l := range log {
		switch {
		case strings.HasPrefix(l, "write("):
			writes++
			written = unhx(strings.TrimSuffix(strings.TrimPrefix(strings.TrimSuffix(l, "!"), "write("), ")"))
			if spec := c11WantBuffer(written, attrs, value, signed); spec != "" {
				fail("the buffer written is not the 4-byte little-endian attribute mask followed by the encoded value", spec)
			}
		case strings.HasPrefix(l, "openfile("):
			opens++
			var p string
			var flag, perm int
			f := strings.Split(strings.TrimSuffix(strings.TrimPrefix(strings.TrimSuffix(l, "!"), "openfile("), ")"), ",")
			if len(f) == 3 {
				p = f[0]
				fmt.Sscan(f[1], &flag)
				fmt.Sscan(f[2], &perm)
			}
			if p != wantPath {
				fail("the file opened is not <efivars directory>/<Name>-<canonical lower-case GUID>", wantPath)
			}
			if flag&(os.O_WRONLY|os.O_RDWR) != os.O_WRONLY || flag&os.O_CREATE == 0 {
				fail("the file is not opened write-only with create", "O_WRONLY|O_CREATE")
			}
			if (flag&os.O_APPEND != 0) != (attrs&0x40 != 0) {
				fail("append mode must be used if and only if APPEND_WRITE is set", fmt.Sprintf("append=%v", attrs&0x40 != 0))
			}
		case l == "close" || l == "stat" || l == "close!":
		default:
			fail("the write touched something else: "+l, "one OpenFile, one Write, Close")
		}
	}
	if !faulted && (writes != 1 || opens != 1) || writes > 1 || opens > 1 {
		fail(fmt.Sprintf("%d write operations on %d opened files", writes, opens), "exactly one write on one file")
	}
	return written
}

// the calls one write made, in the form the Lean program model prints them
func c11GoTrace(log []string, err error, bufLen int, fault string) string {
	goTrace := "ok"
	if err != nil {
		goTrace = "err"
	}
	for _, l := range log {
		if strings.HasPrefix(l, "write(") {
			switch {
			case !strings.HasSuffix(l, "!"):
				l += fmt.Sprintf("=%d", bufLen)
			case fault == "short1":
				l = strings.TrimSuffix(l, "!") + fmt.Sprintf("=%d", bufLen-1)
			case fault == "short0":
				l = strings.TrimSuffix(l, "!") + "=0"
			}
		}
		if l == "close!" {
			l = "close"
		}
		if l != "stat" {
			goTrace += " " + l
		}
	}
	return goTrace
}

// c11Object builds the objects of the object API over the filesystem rec: an FSWrapper (NewMemoryWrapper, or NewFSWrapper
// when cs["ctor"] is "os") given rec through SetFS, an EFIFS over it and the Efivarfs handle of EFIFS.Open.  When the case
// names a "dir0", that directory is the efivars directory while the objects are constructed, and dir is configured
// afterwards (a program that builds its handle first and learns the mount point of efivarfs later, a test that points
// the package at a scratch directory after its fixtures were set up).
func c11Object(cs Case, rec afero.Fs, dir string) (*efivarfs.EFIFS, *efivarfs.Efivarfs) {
	if d0 := cs.S("dir0"); d0 != "" {
		attributes.Efivars = d0
	}
	var fw *fswrapper.FSWrapper
	if cs.S("ctor") == "os" {
		fw = fswrapper.NewFSWrapper()
	} else {
		fw = fswrapper.NewMemoryWrapper()
	}
	fw.SetFS(rec)
	e := &efivarfs.EFIFS{FSWrapper: fw}
	ev := e.Open()
	attributes.Efivars = dir
	return e, ev
}

func c11EvalWrite(c *Ctx, cs Case) {
	dir := cs.S("dir")
	name := string(unhx(cs.S("name")))
	g := guidFromWire(unhx(cs.S("guid")))
	attrs := uint32(cs.I("attrs"))
	value := unhx(cs.S("value"))
	api := cs.S("api")
	signed := api == "object-signed"
	c.Count(cs.Key(), true, "write/"+api+"/"+cs.S("class"))
	if len(value) < 100 {
		c.Sample(cs)
	}
	rec := newRecFs(afero.NewMemMapFs())
	fault, faultK := cs.S("fault"), int(cs.I("faultk"))
	if fault != "" {
		rec.faultK, rec.kind = faultK, fault
	}
	// "fs": the kind of filesystem the library is given.  "" - afero's MemMapFs, which creates missing directories on
	// its own; "strict" - a filesystem that does not (as the machine's own do) and in which the efivars directory
	// exists: nothing changes for the write; "no-dir" - such a filesystem WITHOUT the efivars directory (efivarfs not
	// mounted, a wrong directory configured): the one OpenFile of the contract fails with a not-exist error, which is
	// the OpenFile fault at call 0 of the cases above, produced by the filesystem's state instead of by injection - and
	// it would fail again only as long as the directory is absent
	fskind := cs.S("fs")
	if fskind == "strict" || fskind == "no-dir" {
		rec.noParents = true
	}
	if fskind == "no-dir" && fault == "" {
		fault, faultK = "error", 0
	}
	// "@real": an efivars directory that exists on the machine's own filesystem while the library is given an
	// in-memory afero.Fs - the write may touch the file in the filesystem it was given and nothing else
	realDir := ""
	if dir == "@real" {
		d, derr := os.MkdirTemp("", "vcheck-c11-efivars-")
		if derr != nil {
			return
		}
		defer os.RemoveAll(d)
		realDir, dir = d, d
	}
	if fskind == "strict" {
		rec.inner.MkdirAll(dir, 0o755)
	}
	oldDir := attributes.Efivars
	attributes.Efivars = dir
	defer func() { attributes.Efivars = oldDir }()
	var err error
	pan, msg := safely(func() {
		if api == "object" || signed {
			// "dir0": the efivars directory in force while the FSWrapper / EFIFS / Efivarfs objects were constructed; the
			// directory of the case is configured afterwards, before the call.  The file of the contract is the one under
			// the efivars directory, i.e. the directory at the time of the write.
			e, ev := c11Object(cs, rec, dir)
			def := efivar.Efivar{Name: name, GUID: &g, Attributes: attributes.Attributes(attrs)}
			if signed {
				// the caller-level signed update of the same definition: what reaches the file is the definition's mask
				// followed by the signed update of the value
				err = ev.WriteSignedUpdate(def, rawValue(value), poolKey(c, 2048, 0), c11SignCert(c))
			} else {
				err = e.WriteVar(def, rawValue(value))
			}
		} else {
			old := efs.Fs
			efs.SetFS(rec)
			defer efs.SetFS(old)
			if api == "legacy-name" {
				// the by-name form: the library chooses the vendor GUID; cs["guid"] is the GUID the variable lives under
				err = attributes.WriteEfivars(name, attributes.Attributes(attrs), value)
			} else {
				err = attributes.WriteEfivarsWithGuid(name, attributes.Attributes(attrs), value, g)
			}
		}
	})
	log := rec.Log()
	fail := func(what, spec string) {
		c.Fail(Failure{Kind: "property", What: what + " (" + api + " API)", Case: cs, Go: clip(c11ShortLog(log)), Spec: clip(spec)})
	}
	if pan {
		fail("writing a variable panicked: "+msg, "")
		return
	}
	if realDir != "" {
		if ents, _ := os.ReadDir(realDir); len(ents) > 0 {
			c.Fail(Failure{Kind: "property", Matcher: "c11.real_fs_touched", What: "the write touched something else: a file " + ents[0].Name() + " was created in the directory of that name on the machine's own filesystem, outside the filesystem the library was given (" + api + " API)", Case: cs, Go: clip(c11ShortLog(log)), Spec: "nothing outside the afero.Fs"})
		}
	}
	if err != nil && fault == "" {
		fail("writing a variable failed on a healthy filesystem: "+err.Error(), "")
		return
	}
	if err == nil && fault != "" {
		fail("the filesystem failed the call ("+fault+fmt.Sprintf(" at call %d", faultK)+") and writing the variable reported success", "an error")
	}
	// ---- the efivarfs contract, from the property statement ----
	wantPath := dir + "/" + name + "-" + canonGUIDText(g)
	written := c11CheckWriteLog(log, wantPath, attrs, value, signed, fault != "", fail)
	if fskind == "no-dir" {
		// the one open failed: the write "touches nothing else", so the filesystem is as empty as it was
		var left []string
		afero.Walk(rec.inner, "/", func(p string, info os.FileInfo, werr error) error {
			if werr == nil && info != nil && p != "/" && p != "" {
				left = append(left, p)
			}
			return nil
		})
		if len(left) > 0 {
			fail("the efivars directory does not exist, the open of the variable's file failed, and afterwards the filesystem holds ["+strings.Join(left, " ")+"]: the write created what it was not asked to", "an empty filesystem and an error")
		}
	}
	// ... and the filesystem itself, looked at beside the library: after a write on a healthy filesystem it holds exactly
	// one file, <efivars directory>/<Name>-<canonical lower-case GUID>, whose content is the buffer of the contract
	if fault == "" && err == nil {
		var files []string
		afero.Walk(rec.inner, "/", func(p string, info os.FileInfo, werr error) error {
			if werr == nil && info != nil && !info.IsDir() {
				files = append(files, p)
			}
			return nil
		})
		if len(files) != 1 || files[0] != wantPath {
			fail("after the write the filesystem does not hold exactly the one file <efivars directory>/<Name>-<canonical lower-case GUID>: it holds ["+strings.Join(files, " ")+"]", wantPath)
		} else if stored, rerr := afero.ReadFile(rec.inner, wantPath); rerr != nil || c11WantBuffer(stored, attrs, value, signed) != "" {
			fail("after the write the variable's file does not hold the 4-byte little-endian attribute mask followed by the encoded value: "+clip(hx(stored)), c11WantBuffer(nil, attrs, value, signed))
		}
	}
	// ---- correspondence with the Lean program model ----
	modelValue, bufLen := value, 4+len(value)
	if signed {
		// the model writes mask || encoded value; the encoded value of a signed update is what followed the mask
		if len(written) < 4 {
			return
		}
		modelValue, bufLen = written[4:], len(written)
	}
	c.Trace()
	margs := append(append([]string{hx([]byte(dir)), hx([]byte(name))}, guidArgs(g)...), fmt.Sprint(attrs), hx(modelValue))
	if fault != "" {
		margs = append(margs, fmt.Sprint(faultK), fault)
	}
	m := c.Drv.Ask("fs.write", margs...)
	if goTrace := c11GoTrace(log, err, bufLen, fault); m != goTrace {
		c.Fail(Failure{Kind: "tie", What: "WriteVar: the call trace differs from the Lean program model (" + api + ")", Case: cs, Model: clip(m), Go: clip(goTrace)})
	}
}

// c11Park is the caller's side of a filesystem that takes its time: every Write on a file parks until the harness lets all
// of them go.  The harness starts the writers one after the other, each when the one before it is parked in its Write (or
// has returned), so the interleaving is always the same: every call has assembled its buffer and is inside its one Write
// when the first Write is carried out.
type c11Park struct {
	mu      sync.Mutex
	parked  int
	done    int
	event   chan struct{}
	release chan struct{}
}

func (p *c11Park) gate(string) {
	select {
	case <-p.release:
		return
	default:
	}
	p.mu.Lock()
	p.parked++
	p.mu.Unlock()
	p.event <- struct{}{}
	<-p.release
}

type c11Writer struct {
	Name  string `json:"name"`
	GUID  string `json:"guid"`
	Attrs int64  `json:"attrs"`
	Value string `json:"value"`
}

// several variable writes in flight at once (one goroutine each) on one filesystem: through one EFIFS shared by all
// ("object-shared"), through an EFIFS / FSWrapper of its own per writer ("object"), or through the legacy package-level
// API.  Each of them must do what it does alone: its own file, one Write of ITS mask and ITS value.
func c11EvalConc(c *Ctx, cs Case) {
	dir := cs.S("dir")
	api := cs.S("api")
	var ws []c11Writer
	wj, _ := json.Marshal(cs["writers"])
	json.Unmarshal(wj, &ws)
	paths := map[string]bool{}
	pathOf := func(w c11Writer) string {
		return dir + "/" + string(unhx(w.Name)) + "-" + canonGUIDText(guidFromWire(unhx(w.GUID)))
	}
	for _, w := range ws {
		paths[pathOf(w)] = true
	}
	if len(ws) < 2 || len(paths) != len(ws) {
		c.Count(cs.Key(), false, "write-conc/"+api+"/not-distinct-variables")
		return
	}
	mem := afero.NewMemMapFs()
	rec := newRecFs(mem)
	park := &c11Park{event: make(chan struct{}, 8*len(ws)+8), release: make(chan struct{})}
	rec.gate = park.gate
	oldDir := attributes.Efivars
	attributes.Efivars = dir
	defer func() { attributes.Efivars = oldDir }()
	oldFs := efs.Fs
	efs.SetFS(rec)
	defer efs.SetFS(oldFs)
	var sharedFS *efivarfs.EFIFS
	if api == "object-shared" {
		fw := fswrapper.NewMemoryWrapper()
		fw.SetFS(rec)
		sharedFS = &efivarfs.EFIFS{FSWrapper: fw}
	}
	errs := make([]error, len(ws))
	pans := make([]string, len(ws))
	var wg sync.WaitGroup
	stalled := false
	for i := range ws {
		wg.Add(1)
		go func(i int) {
			defer wg.Done()
			defer func() {
				park.mu.Lock()
				park.done++
				park.mu.Unlock()
				park.event <- struct{}{}
			}()
			w := ws[i]
			g := guidFromWire(unhx(w.GUID))
			name, attrs, value := string(unhx(w.Name)), attributes.Attributes(uint32(w.Attrs)), unhx(w.Value)
			if pan, msg := safely(func() {
				switch api {
				case "legacy":
					errs[i] = attributes.WriteEfivarsWithGuid(name, attrs, value, g)
				case "object-shared":
					errs[i] = sharedFS.WriteVar(efivar.Efivar{Name: name, GUID: &g, Attributes: attrs}, rawValue(value))
				default:
					fw := fswrapper.NewMemoryWrapper()
					fw.SetFS(rec)
					errs[i] = (&efivarfs.EFIFS{FSWrapper: fw}).WriteVar(efivar.Efivar{Name: name, GUID: &g, Attributes: attrs}, rawValue(value))
				}
			}); pan {
				pans[i] = "panic: " + msg
			}
		}(i)
		// the next writer starts when this one is parked in its Write, or has returned
		tmo := time.After(2 * time.Second)
	wait:
		for {
			park.mu.Lock()
			there := park.parked+park.done >= i+1
			park.mu.Unlock()
			if there {
				break
			}
			select {
			case <-park.event:
			case <-tmo:
				stalled = true // a library that lets one write wait for another: the calls then simply run one after the other
				break wait
			}
		}
	}
	park.mu.Lock()
	inFlight := park.parked
	park.mu.Unlock()
	close(park.release)
	wg.Wait()
	c.Count(cs.Key(), inFlight >= 2, fmt.Sprintf("write-conc/%s/%s/in-flight%d", api, cs.S("class"), inFlight))
	if len(cs.Key()) < 1200 {
		c.Sample(cs)
	}
	if stalled {
		c.Note("write-conc: a writer neither reached its Write nor returned while another was parked", cs.S("class"))
	}
	for i, w := range ws {
		log := rec.LogOf(pathOf(w))
		value, attrs := unhx(w.Value), uint32(w.Attrs)
		fail := func(what, spec string) {
			c.Fail(Failure{Kind: "property", What: fmt.Sprintf("with %d variable writes in flight at once (every writer parked in its Write until all had reached theirs), the write of variable %d of %d (%s, mask %d, value of %d bytes) did not do what the same write does alone: ", inFlight, i+1, len(ws), string(unhx(w.Name)), attrs, len(value)) + what + " (" + api + " API)", Case: cs, Go: clip(c11ShortLog(log)), Spec: clip(spec)})
		}
		if pans[i] != "" || errs[i] != nil {
			fail("it failed on a healthy filesystem: "+pans[i]+fmt.Sprint(errs[i]), "ok")
			continue
		}
		nf := c.NFailures()
		c11CheckWriteLog(log, pathOf(w), attrs, value, false, false, fail)
		if stored, rerr := afero.ReadFile(mem, pathOf(w)); c.NFailures() == nf && (rerr != nil || c11WantBuffer(stored, attrs, value, false) != "") {
			fail("the variable file does not hold the mask and value of this write afterwards: "+hx(stored), strings.TrimSuffix(strings.TrimPrefix(c11WantBuffer(nil, attrs, value, false), "write("), ")"))
		}
		c.Trace()
		g := guidFromWire(unhx(w.GUID))
		m := c.Drv.Ask("fs.write", append(append([]string{hx([]byte(dir)), hx(unhx(w.Name))}, guidArgs(g)...), fmt.Sprint(attrs), hx(value))...)
		if goTrace := c11GoTrace(log, nil, 4+len(value), ""); m != goTrace {
			c.Fail(Failure{Kind: "tie", What: fmt.Sprintf("concurrent writes, writer %d: the call trace on its file differs from the Lean program model (%s)", i+1, api), Case: cs, Model: clip(m), Go: clip(goTrace)})
		}
	}
	// nothing but the writers' files was touched
	for _, l := range rec.Log() {
		if strings.HasPrefix(l, "openfile(") {
			if f := strings.Split(strings.TrimPrefix(l, "openfile("), ","); !paths[f[0]] {
				c.Fail(Failure{Kind: "property", What: "concurrent writes touched something else: " + l + " (" + api + " API)", Case: cs, Go: clip(c11ShortLog(rec.Log()))})
			}
		} else if !strings.HasPrefix(l, "write(") && l != "close" && l != "stat" {
			c.Fail(Failure{Kind: "property", What: "concurrent writes touched something else: " + l + " (" + api + " API)", Case: cs, Go: clip(c11ShortLog(rec.Log()))})
		}
	}
}

func c11EvalRead(c *Ctx, cs Case) {
	dir := cs.S("dir")
	name := string(unhx(cs.S("name")))
	g := guidFromWire(unhx(cs.S("guid")))
	required := uint32(cs.I("required"))
	file := cs.S("file")
	c.Count(cs.Key(), true, "read/"+cs.S("api")+"/"+cs.S("class"))
	mem := afero.NewMemMapFs()
	path := dir + "/" + name + "-" + canonGUIDText(g)
	var stored []byte
	if file != "absent" {
		stored = unhx(file)
		mem.MkdirAll(dir, 0o755)
		afero.WriteFile(mem, path, stored, 0o644)
	}
	if f0, d0 := cs.S("file0"), cs.S("dir0"); f0 != "" && d0 != "" {
		// a file of that name under the directory that was the efivars directory EARLIER is not the variable's file
		mem.MkdirAll(d0, 0o755)
		afero.WriteFile(mem, d0+"/"+name+"-"+canonGUIDText(g), unhx(f0), 0o644)
	}
	rec := newRecFs(mem)
	rec.chunk = int(cs.I("chunk")) // the file delivers at most that many bytes per Read (0: as many as asked for)
	oldDir := attributes.Efivars
	attributes.Efivars = dir
	defer func() { attributes.Efivars = oldDir }()
	api := cs.S("api")
	if api == "" {
		api = "object"
	}
	var pv probeValue
	var got attributes.Attributes
	var err error
	pan, msg := safely(func() {
		if api == "object" {
			e, _ := c11Object(cs, rec, dir) // with "dir0": objects constructed under another efivars directory
			got, err = e.GetVarWithAttributes(efivar.Efivar{Name: name, GUID: &g, Attributes: attributes.Attributes(required)}, &pv)
			return
		}
		// the legacy readers return the stored mask and the bytes after it; they know no required attributes
		// (the generator gives these cases required = 0)
		old := efs.Fs
		efs.SetFS(rec)
		defer efs.SetFS(old)
		var buf *bytes.Buffer
		if api == "legacy-name" {
			// the by-name form: the library chooses the vendor GUID; the file is stored under cs["guid"]
			got, buf, err = attributes.ReadEfivars(name)
		} else {
			got, buf, err = attributes.ReadEfivarsWithGuid(name, g)
		}
		if err == nil && buf != nil {
			pv.Unmarshal(buf)
		}
	})
	fail := func(what, spec string) {
		c.Fail(Failure{Kind: "property", What: what + " (" + api + " API)", Case: cs, Go: clip(fmt.Sprintf("attrs=%d err=%v decoded=%v calls=[%s] value=%s", got, err, pv.called, strings.Join(rec.Log(), " "), hx(pv.got))), Spec: clip(spec)})
	}
	if pan {
		fail("reading a variable panicked: "+msg, "")
		return
	}
	obs := "err"
	switch {
	case file == "absent" || len(stored) < 4:
		if err == nil {
			fail("an absent or shorter-than-four-byte file must yield an error", "error")
		}
	default:
		mask := binary.LittleEndian.Uint32(stored)
		if required&mask != required {
			if !errors.Is(err, efivarfs.ErrIncorrectAttributes) {
				fail("a stored mask lacking a required attribute must fail with the wrong-attributes error", "ErrIncorrectAttributes")
			}
			if pv.called {
				fail("the value was decoded although the attributes are wrong", "no decoding")
			}
		} else {
			if err != nil || uint32(got) != mask || !bytes.Equal(pv.got, stored[4:]) {
				fail("reading must return the value decoded from the bytes after the first four together with the stored attributes", fmt.Sprintf("attrs=%d value=%s", mask, hx(stored[4:])))
			}
			obs = fmt.Sprintf("ok attrs=%d value=%s", mask, hx(stored[4:]))
		}
	}
	for _, l := range rec.Log() {
		if strings.HasPrefix(l, "write") || strings.HasPrefix(l, "openfile") || strings.HasPrefix(l, "create") || strings.HasPrefix(l, "remove") || strings.HasPrefix(l, "truncate") {
			fail("reading modified the filesystem: "+l, "")
		}
	}
	c.Trace()
	m := c.Drv.Ask("fs.read", append(append([]string{hx([]byte(dir)), hx([]byte(name))}, guidArgs(g)...), fmt.Sprint(required), file)...)
	if err == nil && obs == "err" {
		obs = fmt.Sprintf("ok attrs=%d value=%s", got, hx(pv.got))
	}
	if m != obs {
		c.Fail(Failure{Kind: "tie", What: "GetVar: result differs from the Lean program model", Case: cs, Model: clip(m), Go: clip(obs)})
	}
	c11ParseTie(c, cs, stored)
}

// c11ParseTie runs ParseEfivars (the package-level function and its FSWrapper twin) on a reader over the stored bytes
// with the true size, a smaller and a larger declared size, and compares with the code TRANSLATED from the source
// (Gen.lean, theorems C11g_parse_*): attributes, value, and how much of the reader is left.
func c11ParseTie(c *Ctx, cs Case, stored []byte) {
	sizes := []int{len(stored), len(stored) - 1, len(stored) - 3, len(stored) + 1, 4, 5, 3}
	for _, size := range sizes {
		if size < 0 {
			continue
		}
		one := func(parse func(io.Reader, int) (attributes.Attributes, *bytes.Buffer, error)) string {
			r := bytes.NewReader(stored)
			res := ""
			pan, _ := safely(func() {
				a, buf, err := parse(r, size)
				if err != nil {
					res = "err"
					return
				}
				res = fmt.Sprintf("ok attrs=%d value=%s rest=%d", uint32(a), hx(buf.Bytes()), r.Len())
			})
			if pan {
				return "panic"
			}
			return res
		}
		a := one(attributes.ParseEfivars)
		b := one(fswrapper.NewMemoryWrapper().ParseEfivars)
		goObs := a
		if a != b {
			goObs = "twins-differ " + a + " / " + b
		}
		// the statement itself, where it speaks: with the file's true size the parser returns the stored mask and the bytes
		// after the first four and leaves nothing unread; a size below four yields an error (other declared sizes are only
		// compared with the translated code)
		spec := ""
		switch {
		case size < 4:
			spec = "err"
		case size == len(stored):
			spec = fmt.Sprintf("ok attrs=%d value=%s rest=0", binary.LittleEndian.Uint32(stored), hx(stored[4:]))
		}
		if spec != "" && (a != spec || b != spec) {
			c.Fail(Failure{Kind: "property", What: fmt.Sprintf("ParseEfivars (attributes.ParseEfivars / FSWrapper.ParseEfivars) on a reader over the stored bytes with declared size %d does not return the stored attributes and the bytes after the first four (an error below four bytes)", size), Case: cs, Go: clip(goObs), Spec: clip(spec)})
		}
		if c.GenDrv == nil {
			continue
		}
		g := c.GenDrv.Ask("gen.efivars.parse", hx(stored), fmt.Sprint(size))
		c.genTies++
		c.notes["translated_code_ties"] = c.genTies
		if g != goObs {
			c.Fail(Failure{Kind: "tie", What: fmt.Sprintf("ParseEfivars with declared size %d: the code translated from the Go source (Gen.lean) and the implementation disagree", size), Case: cs, Model: "translated: " + clip(g), Go: clip(goObs)})
		}
	}
}

// an Unmarshallable that keeps the bytes it is handed (no copy), as a caller's own decoder may: the value it holds
// must stay the value of the read that produced it
type holdValue struct {
	called bool
	got    []byte
}

func (h *holdValue) Unmarshal(b *bytes.Buffer) error {
	h.called = true
	h.got = b.Bytes()
	return nil
}

type c11SeqVar struct {
	Name  string `json:"name"`
	GUID  string `json:"guid"`
	Attrs int64  `json:"attrs"` // the attributes of the variable definition (required on reading, used on writing)
	File  string `json:"file"`  // initial file content ("absent": no file)
}

type c11SeqStep struct {
	K     string `json:"k"`   // R read, W write
	Var   int    `json:"var"` // index into vars
	Via   string `json:"via"` // R: getvar | getvar-attrs | wrapper-guid | wrapper-file | legacy; W: object | legacy
	Value string `json:"value,omitempty"`
}

// a sequence of reads (and writes) of several variables through ONE EFIFS / FSWrapper (and the one legacy package-level
// filesystem), with held results: every value a read returned is kept as it was handed out (the *bytes.Buffer the
// wrapper-level and legacy readers return, the bytes an Unmarshallable that does not copy was given) and compared, after
// every later step and at the end, with what the file held when it was read.
func c11EvalSeq(c *Ctx, cs Case) {
	dir := cs.S("dir")
	var vars []c11SeqVar
	var steps []c11SeqStep
	vj, _ := json.Marshal(cs["vars"])
	json.Unmarshal(vj, &vars)
	sj, _ := json.Marshal(cs["steps"])
	json.Unmarshal(sj, &steps)
	c.Count(cs.Key(), len(steps) >= 2, fmt.Sprintf("read-seq/%s/len%d", cs.S("class"), len(steps)))
	if len(steps) <= 4 {
		c.Sample(cs)
	}
	mem := afero.NewMemMapFs()
	mem.MkdirAll(dir, 0o755)
	pathOf := func(v c11SeqVar) string {
		return dir + "/" + string(unhx(v.Name)) + "-" + canonGUIDText(guidFromWire(unhx(v.GUID)))
	}
	for _, v := range vars {
		if v.File != "absent" {
			afero.WriteFile(mem, pathOf(v), unhx(v.File), 0o644)
		}
	}
	oldDir := attributes.Efivars
	attributes.Efivars = dir
	defer func() { attributes.Efivars = oldDir }()
	oldFs := efs.Fs
	efs.SetFS(mem)
	defer efs.SetFS(oldFs)
	fw := fswrapper.NewMemoryWrapper()
	fw.SetFS(mem)
	e := &efivarfs.EFIFS{FSWrapper: fw}
	type held struct {
		step int
		snap []byte        // the value as it was when the read returned
		live func() []byte // the value as the caller sees it now
	}
	var helds []held
	var trail []string
	fail := func(what, goObs, spec string) {
		c.Fail(Failure{Kind: "property", What: what, Case: cs, Go: clip(goObs + " steps=[" + strings.Join(trail, " ") + "]"), Spec: clip(spec)})
	}
	for i, st := range steps {
		if st.Var < 0 || st.Var >= len(vars) {
			continue
		}
		v := vars[st.Var]
		name := string(unhx(v.Name))
		g := guidFromWire(unhx(v.GUID))
		def := efivar.Efivar{Name: name, GUID: &g, Attributes: attributes.Attributes(uint32(v.Attrs))}
		if st.K == "W" {
			var err error
			pan, msg := safely(func() {
				if st.Via == "legacy" {
					err = attributes.WriteEfivarsWithGuid(name, def.Attributes, unhx(st.Value), g)
				} else {
					err = e.WriteVar(def, rawValue(unhx(st.Value)))
				}
			})
			trail = append(trail, fmt.Sprintf("%d:W(%s,%dB)", i, name, len(unhx(st.Value))))
			if pan || err != nil {
				fail(fmt.Sprintf("step %d: writing a variable on a healthy filesystem failed: %s%v", i, msg, err), "", "ok")
				return
			}
		} else {
			// what the file holds now, read beside the library
			stored, rerr := afero.ReadFile(mem, pathOf(v))
			file := "absent"
			if rerr == nil {
				file = hx(stored)
			}
			required := uint32(v.Attrs)
			hv := &holdValue{}
			var buf *bytes.Buffer
			var got attributes.Attributes
			var err error
			pan, msg := safely(func() {
				switch st.Via {
				case "getvar":
					err = e.GetVar(def, hv)
					if err == nil && len(stored) >= 4 {
						got = attributes.Attributes(binary.LittleEndian.Uint32(stored)) // GetVar does not return the mask
					}
				case "getvar-attrs":
					got, err = e.GetVarWithAttributes(def, hv)
				case "wrapper-guid":
					required = 0
					got, buf, err = fw.ReadEfivarsWithGuid(name, g)
				case "wrapper-file":
					required = 0
					got, buf, err = fw.ReadEfivarsFile(pathOf(v))
				default: // the legacy package-level reader
					required = 0
					got, buf, err = attributes.ReadEfivarsWithGuid(name, g)
				}
			})
			trail = append(trail, fmt.Sprintf("%d:R(%s,%s)", i, name, st.Via))
			if pan {
				fail(fmt.Sprintf("step %d: reading a variable panicked: %s", i, msg), "", "")
				return
			}
			var live func() []byte
			if buf != nil {
				b := buf
				live = func() []byte { return b.Bytes() }
			} else if hv.called {
				live = func() []byte { return hv.got }
			}
			obs := "err"
			switch {
			case rerr != nil || len(stored) < 4:
				if err == nil {
					fail(fmt.Sprintf("step %d: an absent or shorter-than-four-byte file must yield an error", i), "ok", "error")
				}
			case required&binary.LittleEndian.Uint32(stored) != required:
				if !errors.Is(err, efivarfs.ErrIncorrectAttributes) {
					fail(fmt.Sprintf("step %d: a stored mask lacking a required attribute must fail with the wrong-attributes error", i), fmt.Sprint(err), "ErrIncorrectAttributes")
				}
				if hv.called {
					fail(fmt.Sprintf("step %d: the value was decoded although the attributes are wrong", i), "", "no decoding")
				}
			default:
				mask := binary.LittleEndian.Uint32(stored)
				if err != nil || live == nil || uint32(got) != mask || !bytes.Equal(live(), stored[4:]) {
					var now []byte
					if live != nil {
						now = live()
					}
					fail(fmt.Sprintf("step %d: reading must return the value decoded from the bytes after the first four together with the stored attributes", i), fmt.Sprintf("attrs=%d err=%v value=%s", got, err, hx(now)), fmt.Sprintf("attrs=%d value=%s", mask, hx(stored[4:])))
					return
				}
				obs = fmt.Sprintf("ok attrs=%d value=%s", mask, hx(stored[4:]))
			}
			if err == nil && obs == "err" && live != nil {
				obs = fmt.Sprintf("ok attrs=%d value=%s", got, hx(live()))
			}
			c.Trace()
			m := c.Drv.Ask("fs.read", append(append([]string{hx([]byte(dir)), hx([]byte(name))}, guidArgs(g)...), fmt.Sprint(required), file)...)
			if m != obs {
				c.Fail(Failure{Kind: "tie", What: fmt.Sprintf("read sequence, step %d: result differs from the Lean program model", i), Case: cs, Model: clip(m), Go: clip(obs)})
			}
			if err == nil && live != nil {
				helds = append(helds, held{i, append([]byte{}, live()...), live})
			}
		}
		// every value handed out by an earlier read is still the value that was read
		for _, h := range helds {
			if now := h.live(); !bytes.Equal(now, h.snap) {
				fail(fmt.Sprintf("the value returned by the read at step %d changed when step %d (%s) ran: a read must return the value decoded from the bytes the file held, and keep returning it", h.step, i, trail[len(trail)-1]), "now "+hx(now), "still "+hx(h.snap))
				return
			}
		}
	}
}

// c11Typed lists the typed accessors of Efivarfs: each reads ONE predefined definition and decodes its value.  obs gives the
// result as text ("" with the error when it failed; GetBootOrder has no error result and returns nil instead).
type c11TypedAcc struct {
	name string
	def  func(arg string) efivar.Efivar
	call func(e *efivarfs.Efivarfs, arg string) (string, error)
	want func(value []byte) string // the decoded value, computed beside the library
}

func c11DbText(db *signature.SignatureDatabase, err error) (string, error) {
	if err != nil || db == nil {
		return "", err
	}
	return hx(db.Bytes()), nil
}

func c11TypedAccessors() []c11TypedAcc {
	fixed := func(v efivar.Efivar) func(string) efivar.Efivar { return func(string) efivar.Efivar { return v } }
	dbWant := func(v []byte) string { return hx(v) }
	boolWant := func(v []byte) string { return fmt.Sprint(len(v) > 0 && v[0] == 1) }
	return []c11TypedAcc{
		{"GetPK", fixed(efivar.PK), func(e *efivarfs.Efivarfs, _ string) (string, error) { return c11DbText(e.GetPK()) }, dbWant},
		{"GetKEK", fixed(efivar.KEK), func(e *efivarfs.Efivarfs, _ string) (string, error) { return c11DbText(e.GetKEK()) }, dbWant},
		{"Getdb", fixed(efivar.Db), func(e *efivarfs.Efivarfs, _ string) (string, error) { return c11DbText(e.Getdb()) }, dbWant},
		{"Getdbx", fixed(efivar.Dbx), func(e *efivarfs.Efivarfs, _ string) (string, error) { return c11DbText(e.Getdbx()) }, dbWant},
		{"GetSetupMode", fixed(efivar.SetupMode), func(e *efivarfs.Efivarfs, _ string) (string, error) {
			b, err := e.GetSetupMode()
			return fmt.Sprint(b), err
		}, boolWant},
		{"GetSecureBoot", fixed(efivar.SecureBoot), func(e *efivarfs.Efivarfs, _ string) (string, error) {
			b, err := e.GetSecureBoot()
			return fmt.Sprint(b), err
		}, boolWant},
		{"GetBootOrder", fixed(efivar.BootOrder), func(e *efivarfs.Efivarfs, _ string) (string, error) {
			o := e.GetBootOrder()
			if o == nil {
				return "", errors.New("nil")
			}
			return strings.Join(o, ","), nil
		}, func(v []byte) string {
			var o []string
			for i := 0; i+1 < len(v); i += 2 {
				o = append(o, fmt.Sprintf("Boot%04X", binary.LittleEndian.Uint16(v[i:])))
			}
			return strings.Join(o, ",")
		}},
		{"GetLoaderEntrySelected", fixed(efivar.LoaderEntrySelected), func(e *efivarfs.Efivarfs, _ string) (string, error) { return e.GetLoaderEntrySelected() }, func(v []byte) string {
			var o []byte
			for i := 0; i+1 < len(v) && (v[i] != 0 || v[i+1] != 0); i += 2 {
				o = append(o, v[i]) // the generated strings are ASCII
			}
			return string(o)
		}},
		// GetBootEntry(option) reads the definition BootEntry under the name it is given; its value decoder is C18's subject,
		// here only which file is read and the attribute / absence behaviour
		{"GetBootEntry", func(arg string) efivar.Efivar { v := efivar.BootEntry; v.Name = arg; return v }, func(e *efivarfs.Efivarfs, arg string) (string, error) {
			_, err := e.GetBootEntry(arg)
			return "", err
		}, nil},
	}
}

// a read through one of the typed accessors: it must read the file of ITS definition in the efivars directory and nothing
// else, fail with the wrong-attributes error when the stored mask lacks an attribute the definition requires, fail on an
// absent or short file, and otherwise return the value decoded from the bytes after the first four.
func c11EvalTyped(c *Ctx, cs Case) {
	dir, accName, arg, file := cs.S("dir"), cs.S("accessor"), cs.S("arg"), cs.S("file")
	var acc *c11TypedAcc
	for _, a := range c11TypedAccessors() {
		if a.name == accName {
			a := a
			acc = &a
		}
	}
	if acc == nil {
		return
	}
	c.Count(cs.Key(), true, "read-typed/"+accName+"/"+cs.S("class"))
	def := acc.def(arg)
	path := dir + "/" + def.Name + "-" + canonGUIDText(*def.GUID)
	mem := afero.NewMemMapFs()
	mem.MkdirAll(dir, 0o755)
	var stored []byte
	if file != "absent" {
		stored = unhx(file)
		afero.WriteFile(mem, path, stored, 0o644)
	}
	rec := newRecFs(mem)
	oldDir := attributes.Efivars
	attributes.Efivars = dir
	defer func() { attributes.Efivars = oldDir }()
	var got string
	var err error
	pan, msg := safely(func() {
		fw := fswrapper.NewMemoryWrapper()
		fw.SetFS(rec)
		got, err = acc.call((&efivarfs.EFIFS{FSWrapper: fw}).Open(), arg)
	})
	fail := func(what, spec string) {
		c.Fail(Failure{Kind: "property", What: accName + ": " + what, Case: cs, Go: clip(fmt.Sprintf("result=%q err=%v calls=[%s]", got, err, strings.Join(rec.Log(), " "))), Spec: clip(spec)})
	}
	if pan {
		fail("reading a variable panicked: "+msg, "")
		return
	}
	opened := 0
	for _, l := range rec.Log() {
		switch {
		case strings.HasPrefix(l, "open("):
			opened++
			if l != "open("+path+")" {
				fail("the file read is not <efivars directory>/<Name>-<canonical lower-case GUID> of the accessor's definition", "open("+path+")")
			}
		case strings.HasPrefix(l, "read(") || l == "stat" || l == "close" || strings.HasPrefix(l, "fsstat("+path+")"):
		default:
			fail("reading touched something else: "+l, "Open, Stat, Read, Close of the variable's file")
		}
	}
	if opened == 0 {
		fail("the variable's file was not opened", "open("+path+")")
	}
	required := uint32(def.Attributes)
	switch {
	case file == "absent" || len(stored) < 4:
		if err == nil {
			fail("an absent or shorter-than-four-byte file must yield an error", "error")
		}
	case required&binary.LittleEndian.Uint32(stored) != required:
		if err == nil || (accName != "GetBootOrder" && !errors.Is(err, efivarfs.ErrIncorrectAttributes)) {
			fail("a stored mask lacking a required attribute must fail with the wrong-attributes error", "ErrIncorrectAttributes")
		}
	case acc.want != nil:
		if want := acc.want(stored[4:]); err != nil || got != want {
			fail("the accessor must return the value decoded from the bytes after the first four", want)
		}
	}
}

func c11Eval(c *Ctx, cs Case) {
	if cs.S("op") == "read-seq" {
		c11EvalSeq(c, cs)
		return
	}
	if cs.S("op") == "write-conc" {
		c11EvalConc(c, cs)
		return
	}
	if cs.S("op") == "read-typed" {
		c11EvalTyped(c, cs)
		return
	}
	if cs.S("op") == "read" {
		c11EvalRead(c, cs)
	} else {
		c11EvalWrite(c, cs)
	}
}

func predefinedEfivars() []efivar.Efivar {
	return []efivar.Efivar{efivar.SecureBoot, efivar.SetupMode, efivar.PK, efivar.PKDefault, efivar.KEK, efivar.KEKDefault, efivar.Db, efivar.DbDefault, efivar.Dbx, efivar.DbxDefault,
		efivar.BootCurrent, efivar.BootNext, efivar.BootOrder, efivar.BootEntry, efivar.LoaderTimeInitUSec, efivar.LoaderTimeExecUSec, efivar.LoaderDevicePartUUID, efivar.LoaderConfigTimeout,
		efivar.LoaderConfigTimeoutOneShot, efivar.LoaderEntries, efivar.LoaderEntryDefault, efivar.LoaderEntryOneShot, efivar.LoaderEntrySelected, efivar.LoaderFeatures, efivar.LoaderSystemToken}
}

func c11Gen(c *Ctx) {
	c11GenBase(c)
	if c.NFailures() < 6 {
		c11GenDirectories(c)
	}
}

// c11GenDirectories: "any efivars directory" is a configuration that has a history of its own, and a state in the
// filesystem.  (1) THE DIRECTORY CHANGES DURING THE LIFE OF THE OBJECTS: the FSWrapper (NewMemoryWrapper / NewFSWrapper +
// SetFS), the EFIFS over it and the Efivarfs handle are constructed while attributes.Efivars names one directory, then
// another directory is configured, then the variable is written (WriteVar, WriteSignedUpdate) or read
// (GetVarWithAttributes) through the objects: the file of the contract is <efivars directory>/<Name>-<GUID> with the
// directory in force at the call - same oracles as every other write / read (call trace, the one file the filesystem
// holds afterwards, the value read from the file placed under the current directory; a file placed under the EARLIER
// directory instead is an absent variable).  (2) THE DIRECTORY DOES NOT EXIST, on a filesystem that does not create
// missing directories by itself (as real filesystems, afero.OsFs and BasePathFs do not; MemMapFs does): the single
// OpenFile fails with a not-exist error; the write must report an error after that one call, and the filesystem must
// be as empty as before - through the object API and both legacy entry points, for every kind of value and with /
// without APPEND_WRITE.  The same filesystem WITH the directory present behaves as the healthy one.
func c11GenDirectories(c *Ctx) {
	sub := &Ctx{Rng: mrand.New(mrand.NewSource(c.Seed*86028121 + 29 + int64(c.Shard)*1000003)), Thorough: c.Thorough}
	u := newC09Universe(sub)
	db := encodeList(tSHA256, nil, 48, [][2][]byte{{u.owners[0], u.data[0]}})
	values := map[string][]byte{"empty": nil, "bool": {1}, "string": util.MarshalUtf16Var("arch-linux.efi"), "database": db, "raw": randBytes(sub, 200)}
	vk := []string{"empty", "bool", "string", "database", "raw"}
	dirs := []string{"/sys/firmware/efi/efivars", "/tmp/efivars", "/e", "/run/scratch/efi/efivars", "/sys/firmware/efi/efivars/sub"}
	type def struct {
		name  string
		guid  util.EFIGUID
		attrs uint32
	}
	var defs []def
	for _, v := range predefinedEfivars() {
		defs = append(defs, def{v.Name, *v.GUID, uint32(v.Attributes)})
	}
	for i := 0; i < c.N(25, 2000); i++ {
		n := []string{"x", "MyVar", "Boot0001", "a-b-c", "UPPER_lower.9"}[sub.Rng.Intn(5)]
		a := sub.Rng.Uint32() & 0xff
		defs = append(defs, def{n, guidFromWire(randBytes(sub, 16)), a})
	}
	global := util.EFIGUID{Data1: 0x8be4df61, Data2: 0x93ca, Data3: 0x11d2, Data4: [8]byte{0xaa, 0x0d, 0x00, 0xe0, 0x98, 0x03, 0x2b, 0x8c}}
	for i, d := range defs {
		if c.NFailures() >= 6 {
			return
		}
		k := vk[i%len(vk)]
		dir := dirs[i%len(dirs)]
		dir0 := dirs[(i+1+(i/len(dirs))%(len(dirs)-1))%len(dirs)] // another one of the directories
		ctor := []string{"mem", "os"}[(i/2)%2]
		base := func(extra Case) Case {
			cs := Case{"name": hx([]byte(d.name)), "guid": hx(wireGUID(d.guid)), "dir": dir}
			for k, v := range extra {
				cs[k] = v
			}
			return cs
		}
		// (1) objects constructed under dir0, used under dir
		for _, api := range []string{"object", "object-signed"} {
			if api == "object-signed" && i%3 != 0 && !c.Thorough {
				continue
			}
			c11EvalWrite(c, base(Case{"op": "write", "api": api, "class": k + "/dir-changed-after-construction", "dir0": dir0, "ctor": ctor, "attrs": int64(d.attrs), "value": hx(values[k])}))
		}
		file := make([]byte, 4)
		binary.LittleEndian.PutUint32(file, d.attrs|0x80)
		file = append(file, values[k]...)
		c11EvalRead(c, base(Case{"op": "read", "class": "mask-superset/dir-changed-after-construction", "dir0": dir0, "ctor": ctor, "required": int64(d.attrs), "file": hx(file)}))
		c11EvalRead(c, base(Case{"op": "read", "class": "absent/dir-changed-after-construction", "dir0": dir0, "ctor": ctor, "required": int64(d.attrs), "file": "absent", "file0": hx(file)}))
		// (2) a filesystem that does not create directories: with and without the efivars directory
		apis := []string{"object", "legacy"}
		if d.guid == global {
			apis = append(apis, "legacy-name")
		}
		for j, api := range apis {
			attrs := d.attrs
			if (i+j)%2 == 1 {
				attrs |= 0x40
			}
			c11EvalWrite(c, base(Case{"op": "write", "api": api, "class": k + "/no-efivars-directory", "fs": "no-dir", "attrs": int64(attrs), "value": hx(values[k])}))
			if i%3 == 0 || c.Thorough {
				c11EvalWrite(c, base(Case{"op": "write", "api": api, "class": k + "/strict-fs", "fs": "strict", "attrs": int64(attrs), "value": hx(values[k])}))
			}
		}
	}
}

func c11GenBase(c *Ctx) {
	u := newC09Universe(c)
	db := encodeList(tSHA256, nil, 48, [][2][]byte{{u.owners[0], u.data[0]}})
	values := map[string][]byte{"empty": nil, "bool": {1}, "string": util.MarshalUtf16Var("arch-linux.efi"), "database": db, "raw": randBytes(c, 200)}
	vk := []string{"empty", "bool", "string", "database", "raw"}
	dirs := []string{"/sys/firmware/efi/efivars", "/tmp/efivars", "/e"}
	type def struct {
		name  string
		guid  util.EFIGUID
		attrs uint32
	}
	var defs []def
	faults := []struct {
		k    int
		kind string
	}{{0, "error"}, {1, "error"}, {1, "short1"}, {1, "short0"}, {2, "error"}}
	for _, v := range predefinedEfivars() {
		defs = append(defs, def{v.Name, *v.GUID, uint32(v.Attributes)})
		defs = append(defs, def{v.Name, *v.GUID, uint32(v.Attributes) | 0x40}) // the same variable with APPEND_WRITE
	}
	c.Note("predefined_variables", len(predefinedEfivars()))
	for i := 0; i < c.N(200, 10000); i++ {
		n := []string{"x", "MyVar", "Boot0001", "a-b-c", "UPPER_lower.9"}[c.Rng.Intn(5)]
		defs = append(defs, def{n, guidFromWire(randBytes(c, 16)), c.Rng.Uint32() & 0xff})
	}
	// arbitrary names: the file is <efivars directory>/<Name>-<GUID> whatever the name is, also for names that are not
	// file-name-like on their own - the empty name (the zero value of Efivar.Name), names made of dots, names with a
	// leading / trailing dot, blank or dash, and names whose last '/'-separated element is empty, "." or ".." (only the
	// COMPOSED file name is a path; cleaning the bare name before the GUID suffix is attached gives another file).
	// Each with a GUID of its own, and the first five also under the global-variable GUID.
	oddNames := []string{"", ".", "..", "x/.", "x/..", "...", ".hidden", "trailing.", "a..b", " ", "-", "sub/dir/Name", "Boot/", "MyVar/.", "MyVar/.."}
	c.Note("names_not_file_name_like", len(oddNames))
	for i, n := range oddNames {
		defs = append(defs, def{n, guidFromWire(randBytes(c, 16)), []uint32{0x07, 0x27, 0x47, 0x03}[i%4]})
		if i < 5 {
			defs = append(defs, def{n, *efivar.SetupMode.GUID, uint32(efivar.SetupMode.Attributes)})
		}
	}
	for i, d := range defs {
		if c.NFailures() >= 6 {
			return
		}
		k := vk[i%len(vk)]
		for _, api := range []string{"object", "legacy"} {
			c11EvalWrite(c, Case{"op": "write", "api": api, "class": k, "dir": dirs[i%len(dirs)], "name": hx([]byte(d.name)), "guid": hx(wireGUID(d.guid)), "attrs": int64(d.attrs), "value": hx(values[k])})
			if i%8 == 1 {
				c11EvalWrite(c, Case{"op": "write", "api": api, "class": k + "/real-dir", "dir": "@real", "name": hx([]byte(d.name)), "guid": hx(wireGUID(d.guid)), "attrs": int64(d.attrs), "value": hx(values[k])})
			}
		}
		// the same value written as a signed update of the same definition (Efivarfs.WriteSignedUpdate over the EFIFS): the
		// file gets the DEFINITION's mask followed by the encoded value, which is now descriptor || value - whatever the
		// mask is (with or without the time-based-authentication and append bits)
		c11EvalWrite(c, Case{"op": "write", "api": "object-signed", "class": k, "dir": dirs[i%len(dirs)], "name": hx([]byte(d.name)), "guid": hx(wireGUID(d.guid)), "attrs": int64(d.attrs), "value": hx(values[k])})
		// the same write on a filesystem that fails or shortens one call: still at most one write,
		// and the failure is reported
		if i%4 == 0 || c.Thorough {
			for _, api := range []string{"object", "legacy"} {
				for _, f := range faults {
					c11EvalWrite(c, Case{"op": "write", "api": api, "class": k + "/fault-" + f.kind + fmt.Sprint(f.k), "dir": dirs[i%len(dirs)], "name": hx([]byte(d.name)), "guid": hx(wireGUID(d.guid)), "attrs": int64(d.attrs), "value": hx(values[k]), "fault": f.kind, "faultk": int64(f.k)})
				}
			}
		}
		// reads: stored masks equal / superset / subset / disjoint, short and absent files
		req := d.attrs
		masks := map[string]uint32{"equal": req, "superset": req | 0x88, "subset": req &^ (req & -req), "disjoint": ^req & 0xff}
		for mk, m := range masks {
			file := make([]byte, 4)
			binary.LittleEndian.PutUint32(file, m)
			file = append(file, values[k]...)
			c11EvalRead(c, Case{"op": "read", "class": "mask-" + mk, "dir": dirs[i%len(dirs)], "name": hx([]byte(d.name)), "guid": hx(wireGUID(d.guid)), "required": int64(req), "file": hx(file)})
			if i%3 == 0 {
				// the same read on a filesystem whose files deliver 1, 2 or 3 bytes per Read (both APIs)
				ch := int64(1 + (i/3)%3)
				c11EvalRead(c, Case{"op": "read", "class": "mask-" + mk + fmt.Sprintf("/chunk%d", ch), "dir": dirs[i%len(dirs)], "name": hx([]byte(d.name)), "guid": hx(wireGUID(d.guid)), "required": int64(req), "file": hx(file), "chunk": ch})
				c11EvalRead(c, Case{"op": "read", "api": "legacy", "class": "mask-" + mk + fmt.Sprintf("/chunk%d", ch), "dir": dirs[i%len(dirs)], "name": hx([]byte(d.name)), "guid": hx(wireGUID(d.guid)), "required": int64(0), "file": hx(file), "chunk": ch})
			}
		}
		for _, short := range []string{"absent", "-", "07", "070000"} {
			c11EvalRead(c, Case{"op": "read", "class": "short-or-absent", "dir": dirs[i%len(dirs)], "name": hx([]byte(d.name)), "guid": hx(wireGUID(d.guid)), "required": int64(req), "file": short})
			if i%3 == 0 && short != "absent" {
				c11EvalRead(c, Case{"op": "read", "class": "short-or-absent/chunk1", "dir": dirs[i%len(dirs)], "name": hx([]byte(d.name)), "guid": hx(wireGUID(d.guid)), "required": int64(req), "file": short, "chunk": int64(1)})
			}
		}
	}
	// ---- the legacy by-name API (attributes.WriteEfivars / ReadEfivars): the library derives the vendor GUID from the
	// name.  Per UEFI 2.x section 32.6.1 (and the comment above attributes.ImageSecurityDatabases) exactly db, dbx, dbt
	// and dbr live under EFI_IMAGE_SECURITY_DATABASE_GUID; every other variable this API is documented to know is a
	// global variable.  Names: every predefined definition under one of those two GUIDs (the file must be the one the
	// object API uses for the same definition), the four database names, and variations of all of them (suffixes,
	// truncations, case changes), which are not database names unless they coincide with one.
	secdb := util.EFIGUID{Data1: 0xd719b2cb, Data2: 0x3d3a, Data3: 0x4596, Data4: [8]byte{0xa3, 0xbc, 0xda, 0xd0, 0x0e, 0x67, 0x65, 0x6f}}
	global := util.EFIGUID{Data1: 0x8be4df61, Data2: 0x93ca, Data3: 0x11d2, Data4: [8]byte{0xaa, 0x0d, 0x00, 0xe0, 0x98, 0x03, 0x2b, 0x8c}}
	isDbName := map[string]bool{"db": true, "dbx": true, "dbt": true, "dbr": true}
	byName := map[string]def{}
	var nameOrder []string
	addName := func(n string, attrs uint32) {
		if _, dup := byName[n]; dup || n == "" || strings.Contains(n, "/") {
			return
		}
		g := global
		if isDbName[n] {
			g = secdb
		}
		byName[n] = def{n, g, attrs}
		nameOrder = append(nameOrder, n)
	}
	for _, v := range predefinedEfivars() {
		if *v.GUID == global || *v.GUID == secdb {
			addName(v.Name, uint32(v.Attributes))
			if byName[v.Name].guid != *v.GUID {
				c.Fail(Failure{Kind: "property", What: "the predefined definition " + v.Name + " is not under the vendor GUID UEFI section 32.6.1 gives that name", Case: Case{"name": v.Name}})
			}
		}
	}
	for n := range isDbName {
		addName(n, 0x27)
	}
	sort.Strings(nameOrder)
	for _, base := range append([]string{}, nameOrder...) {
		a := byName[base].attrs
		for _, sfx := range []string{"Default", "x", "t", "r", "2", "0001"} {
			addName(base+sfx, a)
		}
		addName(base[:len(base)-1], a)
		addName(strings.ToUpper(base), a)
		addName(strings.ToLower(base), a)
		addName(strings.ToUpper(base[:1])+base[1:], a)
		addName(strings.ToLower(base[:1])+base[1:], a)
	}
	c.Note("legacy_by_name_names", len(nameOrder))
	for i, n := range nameOrder {
		if c.NFailures() >= 6 {
			return
		}
		d := byName[n]
		k := vk[i%len(vk)]
		dir := dirs[i%len(dirs)]
		for _, attrs := range []uint32{d.attrs, d.attrs | 0x40} {
			c11EvalWrite(c, Case{"op": "write", "api": "legacy-name", "class": k, "dir": dir, "name": hx([]byte(d.name)), "guid": hx(wireGUID(d.guid)), "attrs": int64(attrs), "value": hx(values[k])})
		}
		if i%4 == 0 || c.Thorough {
			for _, f := range faults {
				c11EvalWrite(c, Case{"op": "write", "api": "legacy-name", "class": k + "/fault-" + f.kind + fmt.Sprint(f.k), "dir": dir, "name": hx([]byte(d.name)), "guid": hx(wireGUID(d.guid)), "attrs": int64(d.attrs), "value": hx(values[k]), "fault": f.kind, "faultk": int64(f.k)})
			}
		}
		file := make([]byte, 4)
		binary.LittleEndian.PutUint32(file, d.attrs)
		file = append(file, values[k]...)
		for _, api := range []string{"legacy-name", "legacy"} {
			c11EvalRead(c, Case{"op": "read", "api": api, "class": "stored", "dir": dir, "name": hx([]byte(d.name)), "guid": hx(wireGUID(d.guid)), "required": int64(0), "file": hx(file)})
			short := []string{"absent", "-", "07", "070000"}[i%4]
			c11EvalRead(c, Case{"op": "read", "api": api, "class": "short-or-absent", "dir": dir, "name": hx([]byte(d.name)), "guid": hx(wireGUID(d.guid)), "required": int64(0), "file": short})
		}
	}
	// ---- the typed accessors of Efivarfs (GetPK, GetKEK, Getdb, Getdbx, GetSetupMode, GetSecureBoot, GetBootOrder,
	// GetLoaderEntrySelected, GetBootEntry): each against the file of its own definition, with stored masks equal /
	// superset / lacking one required attribute, absent and short files, and values of its kind
	typedValues := map[string][][]byte{
		"GetSetupMode": {{1}, {0}}, "GetSecureBoot": {{0}, {1}},
		"GetBootOrder":           {{1, 0}, {3, 0, 0, 0, 0x10, 0x0a, 0xff, 0xff}},
		"GetLoaderEntrySelected": {util.MarshalUtf16Var("arch-linux.efi"), util.MarshalUtf16Var("x")},
		"GetBootEntry":           {nil},
	}
	for i, a := range c11TypedAccessors() {
		vals := typedValues[a.name]
		if vals == nil {
			vals = [][]byte{db, encodeList(tSHA256, nil, 48, [][2][]byte{{u.owners[0], u.data[0]}, {u.owners[1], u.data[1]}}), nil}
		}
		args := []string{""}
		if a.name == "GetBootEntry" {
			// the name is the caller's: a firmware name, and names that are not file-name-like on their own
			args = []string{[]string{"Boot0001", "Boot00AF"}[i%2], "", ".", "..", "Boot/.."}
		}
		for _, arg := range args {
			req := uint32(a.def(arg).Attributes)
			for j, val := range vals {
				dir := dirs[(i+j)%len(dirs)]
				for mk, m := range map[string]uint32{"equal": req, "superset": req | 0x88, "lacking": req &^ (req & -req)} {
					if a.name == "GetBootEntry" && mk != "lacking" {
						continue // a value is needed for these: C18
					}
					file := make([]byte, 4)
					binary.LittleEndian.PutUint32(file, m)
					c11EvalTyped(c, Case{"op": "read-typed", "accessor": a.name, "arg": arg, "class": "mask-" + mk, "dir": dir, "file": hx(append(file, val...))})
				}
				for _, short := range []string{"absent", "0700"} {
					c11EvalTyped(c, Case{"op": "read-typed", "accessor": a.name, "arg": arg, "class": "short-or-absent", "dir": dir, "file": short})
				}
			}
		}
	}
	// ---- held results: several variables read (and rewritten) through ONE EFIFS / FSWrapper, through every reader entry
	// point (GetVar, GetVarWithAttributes with an Unmarshallable that keeps the bytes it is handed; FSWrapper.ReadEfivarsWithGuid,
	// FSWrapper.ReadEfivarsFile and the legacy attributes.ReadEfivarsWithGuid, whose *bytes.Buffer is kept).  The value a
	// read returned is the value decoded from the bytes the file held then; it is compared again after every later read
	// and write (values that grow, shrink, repeat; other variables and the same variable after a new write).
	vias := []string{"getvar", "getvar-attrs", "wrapper-guid", "wrapper-file", "legacy"}
	for i := 0; i < c.N(120, 6000); i++ {
		if c.NFailures() >= 6 {
			return
		}
		nv := 1 + c.Rng.Intn(4)
		var svars []interface{}
		for j := 0; j < nv; j++ {
			d := defs[c.Rng.Intn(len(defs))]
			d.attrs &^= 0x40 // APPEND_WRITE is an instruction for one write, not a stored attribute
			mask := d.attrs
			switch c.Rng.Intn(8) {
			case 0:
				mask |= 0x88
			case 1:
				mask = d.attrs &^ (d.attrs & -d.attrs) // lacks one required attribute (reads through GetVar* fail)
			}
			var val []byte
			switch c.Rng.Intn(4) {
			case 0:
				val = values[vk[c.Rng.Intn(len(vk))]]
			default:
				val = randBytes(c, c.Rng.Intn(1+[]int{4, 40, 300, 2000}[c.Rng.Intn(4)]))
			}
			file := make([]byte, 4)
			binary.LittleEndian.PutUint32(file, mask)
			fh := hx(append(file, val...))
			if c.Rng.Intn(12) == 0 {
				fh = []string{"absent", "-", "0700"}[c.Rng.Intn(3)]
			}
			svars = append(svars, map[string]interface{}{"name": hx([]byte(fmt.Sprintf("%s%d", d.name, j))), "guid": hx(wireGUID(d.guid)), "attrs": int64(d.attrs), "file": fh})
		}
		ns := 2 + c.Rng.Intn(c.P(7, 19))
		var ssteps []interface{}
		for j := 0; j < ns; j++ {
			vi := c.Rng.Intn(nv)
			if c.Rng.Intn(4) == 0 && j > 0 {
				ssteps = append(ssteps, map[string]interface{}{"k": "W", "var": vi, "via": []string{"object", "object", "legacy"}[c.Rng.Intn(3)], "value": hx(randBytes(c, c.Rng.Intn(1+[]int{4, 40, 300}[c.Rng.Intn(3)])))})
				continue
			}
			ssteps = append(ssteps, map[string]interface{}{"k": "R", "var": vi, "via": vias[c.Rng.Intn(len(vias))]})
		}
		c11EvalSeq(c, Case{"op": "read-seq", "class": fmt.Sprintf("vars%d", nv), "dir": dirs[i%len(dirs)], "vars": svars, "steps": ssteps})
	}
	// ---- writes in flight at once: 2..3 goroutines each write a different variable on one filesystem whose Write parks
	// until every writer has reached its own (a filesystem may take its time; efivarfs does), through one shared EFIFS,
	// through one EFIFS / FSWrapper per writer, or through the legacy package-level API.  The definitions share one
	// attribute mask (two cases out of three) or not; the values are the small ones variables usually hold (empty,
	// boolean, boot order, UTF-16 string, a few to a few dozen raw bytes) and sometimes larger ones.  Every write must do
	// on its file what it does alone.
	for i := 0; i < c.N(90, 3000); i++ {
		if c.NFailures() >= 6 {
			return
		}
		nw := 2 + c.Rng.Intn(2)
		base := defs[c.Rng.Intn(len(defs))]
		var writers []interface{}
		class := ""
		for j := 0; j < nw; j++ {
			d := defs[c.Rng.Intn(len(defs))]
			mask := base.attrs
			if (i/3)%3 == 2 {
				mask = d.attrs
			}
			var val []byte
			vc := ""
			switch c.Rng.Intn(7) {
			case 0:
				vc, val = "bool", []byte{byte(c.Rng.Intn(2))}
			case 1:
				vc, val = "bootorder", randBytes(c, 2*(1+c.Rng.Intn(8)))
			case 2:
				vc, val = "string", util.MarshalUtf16Var([]string{"arch-linux.efi", "fallback", "auto-windows", "x"}[c.Rng.Intn(4)])
			case 3:
				vc, val = "large", randBytes(c, 100+c.Rng.Intn(400))
			case 4:
				vc, val = "empty", nil
			default:
				vc, val = "small", randBytes(c, 1+c.Rng.Intn(96))
			}
			class += map[bool]string{true: "+"}[j > 0] + vc
			writers = append(writers, map[string]interface{}{"name": hx([]byte(fmt.Sprintf("%s%d", d.name, j))), "guid": hx(wireGUID(d.guid)), "attrs": int64(mask), "value": hx(val)})
		}
		c11EvalConc(c, Case{"op": "write-conc", "api": []string{"object-shared", "object", "legacy"}[i%3], "class": map[bool]string{true: "same-mask", false: "own-masks"}[(i/3)%3 != 2], "values": class, "dir": dirs[i%len(dirs)], "writers": writers})
	}
	// ---- value sizes: the contract is one write whatever the size of the value (a dbx is tens of kilobytes).  Buffers
	// (attributes + value) of 2^k-1, 2^k, 2^k+1 bytes around the usual I/O buffer and page sizes, and signature
	// databases with many entries, through every API, healthy and with the faults above; and read back.
	var sizes []int
	for _, k := range []uint{9, 12, 13, 15, 16} {
		if k >= 15 && !c.Thorough && k != 16 {
			continue
		}
		for _, dlt := range []int{-1, 0, 1} {
			sizes = append(sizes, 1<<k+dlt-4)
		}
	}
	type big struct {
		class string
		value []byte
	}
	var bigs []big
	for _, n := range sizes {
		bigs = append(bigs, big{fmt.Sprintf("size-%d", n), randBytes(c, n)})
	}
	for _, n := range []int{100, 400, c.N(1000, 3000)} { // databases of n SHA-256 entries
		var sigs [][2][]byte
		for j := 0; j < n; j++ {
			sigs = append(sigs, [2][]byte{u.owners[j%2], randBytes(c, 32)})
		}
		bigs = append(bigs, big{fmt.Sprintf("database-%d-entries", n), encodeList(tSHA256, nil, 48, sigs)})
	}
	bigDefs := []def{{efivar.Dbx.Name, *efivar.Dbx.GUID, uint32(efivar.Dbx.Attributes)}, {efivar.Dbx.Name, *efivar.Dbx.GUID, uint32(efivar.Dbx.Attributes) | 0x40},
		{efivar.KEK.Name, *efivar.KEK.GUID, uint32(efivar.KEK.Attributes)}, {"MyVar", guidFromWire(randBytes(c, 16)), 0x07}}
	for i, b := range bigs {
		if c.NFailures() >= 6 {
			return
		}
		for j, d := range bigDefs {
			if !c.Thorough && (i+j)%2 == 1 {
				continue
			}
			dir := dirs[(i+j)%len(dirs)]
			apis := []string{"object", "legacy"}
			if d.guid == global || d.guid == secdb {
				apis = append(apis, "legacy-name")
			}
			for _, api := range apis {
				c11EvalWrite(c, Case{"op": "write", "api": api, "class": "large/" + b.class, "dir": dir, "name": hx([]byte(d.name)), "guid": hx(wireGUID(d.guid)), "attrs": int64(d.attrs), "value": hx(b.value)})
				if f := faults[(i+j)%len(faults)]; (i+j)%4 == 0 || c.Thorough {
					c11EvalWrite(c, Case{"op": "write", "api": api, "class": "large/fault-" + f.kind + fmt.Sprint(f.k), "dir": dir, "name": hx([]byte(d.name)), "guid": hx(wireGUID(d.guid)), "attrs": int64(d.attrs), "value": hx(b.value), "fault": f.kind, "faultk": int64(f.k)})
				}
			}
			file := make([]byte, 4)
			binary.LittleEndian.PutUint32(file, d.attrs)
			file = append(file, b.value...)
			c11EvalRead(c, Case{"op": "read", "api": "object", "class": "large", "dir": dir, "name": hx([]byte(d.name)), "guid": hx(wireGUID(d.guid)), "required": int64(d.attrs), "file": hx(file)})
			c11EvalRead(c, Case{"op": "read", "api": "legacy", "class": "large", "dir": dir, "name": hx([]byte(d.name)), "guid": hx(wireGUID(d.guid)), "required": int64(0), "file": hx(file)})
		}
	}
}

func init() {
	register("C11", &PropDef{
		Rule:   "every predefined efivar.Efivar (25, each also with APPEND_WRITE added), random (name, GUID, attribute) definitions and definitions whose NAME is not file-name-like on its own - the empty name (zero value of Efivar.Name), '.', '..', '...', names with a leading / trailing dot, a blank, a dash, names with '/' in them and names whose last '/'-separated element is empty, '.' or '..' (x/., x/.., MyVar/., Boot/), each under a GUID of its own and the first five also under the global-variable GUID: the file is <efivars directory>/<Name>-<GUID> with the name as it is (only the composed file name is a path) - x values {empty, boolean, UTF-16 string, signature database, raw} x three efivars directories x the object API (EFIFS over FSWrapper.SetFS) and the legacy attributes.* API (fs.SetFS), on a recording afero.Fs, healthy and with one failing or short call (OpenFile error, Write error, Write one byte short, Write of zero bytes, Close error); every definition's value is also written as a SIGNED update (Efivarfs.WriteSignedUpdate over the EFIFS, RSA-2048): one write to the definition's file with the definition's flags whose buffer is the DEFINITION's 4-byte mask (with or without the time-based-authentication / append bits) followed by an authentication descriptor (by extent) and the value; after every write on a healthy filesystem the filesystem itself is inspected beside the library: it holds exactly ONE file, <efivars directory>/<Name>-<canonical lower-case GUID>, whose content is the mask followed by the encoded value; reads with stored masks {equal, superset, subset, disjoint} and absent / 0..3-byte files (the file placed at that path beside the library), with a probe value that records whether decoding was attempted. The legacy by-name API (attributes.WriteEfivars / ReadEfivars, which derives the vendor GUID from the name): every predefined definition under the global or image-security-database GUID, the four database names db/dbx/dbt/dbr, and suffix / truncation / case variations of all of them (not database names unless they coincide with one), written (also with APPEND_WRITE and with the faults) and read (also through ReadEfivarsWithGuid) against the file <Name>-<GUID of the definition>. The typed accessors (GetPK, GetKEK, Getdb, Getdbx, GetSetupMode, GetSecureBoot, GetBootOrder, GetLoaderEntrySelected, GetBootEntry) against the file of their own definition: only that file is opened, stored masks equal / superset / lacking one required attribute, absent and short files, values of their kind decoded beside the library; GetBootEntry, which reads the variable of the NAME it is given, also with the empty name, '.', '..' and Boot/.. . ParseEfivars (both twins) with the true size and sizes below four is held to the statement directly, other declared sizes only to the translated code. Writes in flight at once: 90 (thorough 3000) cases of 2..3 goroutines that each write a different variable (values: empty, boolean, boot order, UTF-16 string, 1..96 and 100..500 raw bytes; one shared attribute mask in two cases of three) on ONE caller-supplied filesystem whose Write parks until every writer has reached its own Write - the writers are started one after the other, each when the one before is parked, so the interleaving is always the same - through one shared EFIFS, one EFIFS / FSWrapper per writer, or the legacy package-level API: each write must do on its file exactly what it does alone (one OpenFile with its flags, one Write of ITS mask and ITS value, Close; the file holds them afterwards) and nothing else is touched. Value sizes: buffers of 2^k-1, 2^k, 2^k+1 bytes (k = 9, 12, 13, 16; thorough also 15) and SHA-256 databases of 100 / 400 / 1000 (thorough 3000) entries through every API, healthy and faulted, and read back. EFIVARS DIRECTORY WITH A HISTORY AND A STATE (every predefined definition and 25 random ones, thorough 2000; five directories): (1) the FSWrapper (NewMemoryWrapper or NewFSWrapper, given the recording filesystem through SetFS), the EFIFS over it and the Efivarfs handle are CONSTRUCTED while attributes.Efivars names one directory, then another directory is configured, then the variable is written (WriteVar, WriteSignedUpdate) or read (GetVarWithAttributes; the file under the current directory, or only a file under the earlier directory = an absent variable) through these objects - the file of the contract is the one under the efivars directory in force at the call, judged by the same trace / filesystem-content / read oracles; (2) the filesystem does NOT create missing directories by itself (as real filesystems, afero.OsFs and BasePathFs do not; OpenFile with O_CREATE below an absent directory fails with a not-exist error for as long as the directory is absent) and the efivars directory does not exist: object API, legacy WriteEfivarsWithGuid and by-name WriteEfivars, with / without APPEND_WRITE - the write must report an error after its ONE OpenFile (no second open, no mkdir, no other call) and leave the filesystem empty; the same filesystem with the directory present must behave as the healthy one. Held results: sequences of 2..8 (thorough ..20) reads and writes of 1..4 variables (values of 0..2000 bytes that grow, shrink and repeat; masks equal / superset / lacking a required attribute; absent and short files) through ONE EFIFS / FSWrapper and the one legacy filesystem, every read through one of GetVar and GetVarWithAttributes (with an Unmarshallable that keeps the bytes it is handed, without copying), FSWrapper.ReadEfivarsWithGuid, FSWrapper.ReadEfivarsFile and attributes.ReadEfivarsWithGuid (the returned *bytes.Buffer is kept): each read is compared with the bytes the file holds at that moment and with the Lean model, and every value handed out by an earlier read is compared again after every later read and write (of another variable, or of the same one after a new write) and must still be the value that was read. Every case is non-trivial; distinct = distinct cases.",
		Assume: []string{"no '/'-separated element of a variable name other than its last one is empty, '.' or '..' (names such as '/x', 'a//b', 'a/./b', 'a/../b': path.Join rewrites the composed file name <Name>-<GUID> itself; the last element, to which the GUID suffix is attached, may be anything, the empty name included), names contain no NUL, and the efivars directory is a clean absolute path; the legacy by-name API is exercised with names without '/' only", "with a filesystem other than the in-memory one the legacy writer additionally probes the immutable flag of the same path on the operating system's filesystem (attr.IsImmutable, which opens with O_CREATE); with the operating system's own filesystem that is the file being written. With the in-memory filesystem nothing outside it may be touched: the real-dir cases check that against a directory that exists on the machine (F34)"},
		Eval:   c11Eval, Gen: c11Gen,
	})
}
