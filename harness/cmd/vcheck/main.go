// vcheck: correspondence harness and property oracle for the go-uefi verification.
// It calls the real Go code in-process (or in worker sub-processes where a crash is a
// possible outcome), drives the compiled Lean model over a line protocol, compares, and
// writes the evidence file.
package main

import (
	"path/filepath"
	"encoding/json"
	"flag"
	"fmt"
	"math/rand"
	"os"
	"os/exec"
	"strconv"
	"sync"
	"time"
)

var runners = map[string]func(*Ctx){}

func main() {
	if len(os.Args) > 1 && os.Args[1] == "worker" {
		workerMain(os.Args[2:])
		return
	}
	prop := flag.String("prop", "", "property id")
	tier := flag.String("tier", "quick", "quick|thorough")
	drv := flag.String("driver", "", "path of the compiled Lean driver")
	verif := flag.String("verif", "/verif", "verification directory")
	repo := flag.String("repo", "/repo", "repository")
	obfile := flag.String("obligations", "", "JSON with the proof-obligation status from the Lean build")
	replay := flag.String("replay", "", "replay file")
	shards := flag.Int("shards", 1, "explore in this many parallel shard processes (thorough tier)")
	shard := flag.Int("shard", -1, "internal: this process is shard i; results go to -shardout")
	shardout := flag.String("shardout", "", "internal: where a shard writes its counters")
	flag.Parse()

	seed := int64(1)
	if s := os.Getenv("VERIF_SEED"); s != "" {
		if v, err := strconv.ParseInt(s, 10, 64); err == nil {
			seed = v
		}
	}
	run, ok := runners[*prop]
	if !ok {
		fmt.Fprintf(os.Stderr, "no runner for %q\n", *prop)
		os.Exit(2)
	}
	d, err := StartDriver(*drv)
	if err != nil {
		fmt.Fprintf(os.Stderr, "cannot start driver: %v\n", err)
		os.Exit(2)
	}
	defer d.Close()
	// the second model driver runs the code TRANSLATED from the Go source (lean/GoUefi/Gen.lean); it is optional:
	// when the translation of the current tree does not build, the proof obligations already say so
	var gd *Driver
	if gp := filepath.Join(filepath.Dir(*drv), "gendriver"); fileExists(gp) {
		if g, err := StartDriver(gp); err == nil {
			gd = g
			defer g.Close()
		}
	}
	c := &Ctx{
		Prop: *prop, Tier: *tier, Seed: seed, Rng: rand.New(rand.NewSource(seed)), Drv: d, GenDrv: gd, DrvPath: *drv,
		VerifDir: *verif, RepoDir: *repo, Thorough: *tier == "thorough", start: time.Now(),
		distinct: map[[16]byte]bool{}, classes: map[string]int{}, knownHits: map[string]int{},
		notes: map[string]interface{}{},
	}
	c.known = loadKnown(*verif + "/known_findings.json")
	var ob *Obligations
	if *obfile != "" {
		b, err := os.ReadFile(*obfile)
		if err == nil {
			ob = &Obligations{}
			if err := json.Unmarshal(b, ob); err != nil {
				fmt.Fprintf(os.Stderr, "obligations file: %v\n", err)
				ob = nil
			}
		}
	}
	if *replay != "" {
		c.Note("replay_of", *replay)
		replayInto(c, *replay)
	}
	switch {
	case *shard >= 0:
		// shard process: own PRNG stream, a share of the budget, counters handed to the parent
		c.Shard, c.Shards = *shard, *shards
		c.Rng = rand.New(rand.NewSource(seed*1000003 + int64(*shard)))
		run(c)
		c.DumpShard(*shardout)
		os.Exit(0)
	case *shards > 1 && *replay == "":
		// parent: run the shards in parallel, merge what they counted and found
		p := props[*prop]
		c.Rule, c.Assume = p.Rule, p.Assume
		dir, _ := os.MkdirTemp(*verif+"/.build", "shards-")
		defer os.RemoveAll(dir)
		if *tier == "thorough" { // make sure every pooled key exists before the shards start
			for _, bits := range []int{2048, 3072, 4096} {
				for idx := 0; idx < 4; idx++ {
					poolKeyDir(*verif, bits, idx)
				}
			}
		}
		var wg sync.WaitGroup
		errs := make([]error, *shards)
		for i := 0; i < *shards; i++ {
			wg.Add(1)
			go func(i int) {
				defer wg.Done()
				out := fmt.Sprintf("%s/%d.json", dir, i)
				cmd := exec.Command(os.Args[0], "-prop", *prop, "-tier", *tier, "-driver", *drv, "-verif", *verif, "-repo", *repo,
					"-shards", fmt.Sprint(*shards), "-shard", fmt.Sprint(i), "-shardout", out)
				cmd.Stderr = os.Stderr
				cmd.Env = os.Environ()
				if err := cmd.Run(); err != nil {
					errs[i] = fmt.Errorf("shard %d: %v", i, err)
					return
				}
				errs[i] = c.MergeShard(out, i)
			}(i)
		}
		wg.Wait()
		for _, e := range errs {
			if e != nil {
				fmt.Fprintln(os.Stderr, e)
				os.Exit(3) // the check script reports an abnormal end as a violation without input
			}
		}
		c.Note("shards", *shards)
	default:
		run(c)
	}
	os.Exit(c.Finish(ob))
}

func fileExists(p string) bool {
	st, err := os.Stat(p)
	return err == nil && !st.IsDir()
}
