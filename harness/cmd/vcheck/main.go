// vcheck: correspondence harness and property oracle for the go-uefi verification.
// It calls the real Go code in-process (or in worker sub-processes where a crash is a
// possible outcome), drives the compiled Lean model over a line protocol, compares, and
// writes the evidence file.
package main

import (
	"encoding/json"
	"flag"
	"fmt"
	"math/rand"
	"os"
	"strconv"
	"time"
)

var runners = map[string]func(*Ctx){}

func main() {
	if len(os.Args) > 1 && os.Args[1] == "worker" {
		workerMain(os.Args[2:])
		return
	}
	prop := flag.String("prop", "", "property id")
	tier := flag.String("tier", "quick", "quick|thorough")
	drv := flag.String("driver", "", "path of the compiled Lean driver")
	verif := flag.String("verif", "/verif", "verification directory")
	repo := flag.String("repo", "/repo", "repository")
	obfile := flag.String("obligations", "", "JSON with the proof-obligation status from the Lean build")
	replay := flag.String("replay", "", "replay file")
	flag.Parse()

	seed := int64(1)
	if s := os.Getenv("VERIF_SEED"); s != "" {
		if v, err := strconv.ParseInt(s, 10, 64); err == nil {
			seed = v
		}
	}
	run, ok := runners[*prop]
	if !ok {
		fmt.Fprintf(os.Stderr, "no runner for %q\n", *prop)
		os.Exit(2)
	}
	d, err := StartDriver(*drv)
	if err != nil {
		fmt.Fprintf(os.Stderr, "cannot start driver: %v\n", err)
		os.Exit(2)
	}
	defer d.Close()
	c := &Ctx{
		Prop: *prop, Tier: *tier, Seed: seed, Rng: rand.New(rand.NewSource(seed)), Drv: d, DrvPath: *drv,
		VerifDir: *verif, RepoDir: *repo, Thorough: *tier == "thorough", start: time.Now(),
		distinct: map[[16]byte]bool{}, classes: map[string]int{}, knownHits: map[string]int{},
		notes: map[string]interface{}{},
	}
	c.known = loadKnown(*verif + "/known_findings.json")
	var ob *Obligations
	if *obfile != "" {
		b, err := os.ReadFile(*obfile)
		if err == nil {
			ob = &Obligations{}
			if err := json.Unmarshal(b, ob); err != nil {
				fmt.Fprintf(os.Stderr, "obligations file: %v\n", err)
				ob = nil
			}
		}
	}
	if *replay != "" {
		c.Note("replay_of", *replay)
		replayInto(c, *replay)
	}
	run(c)
	os.Exit(c.Finish(ob))
}
