package main

import (
	"bytes"
	"crypto"
	"crypto/ecdh"
	"crypto/ecdsa"
	"crypto/ed25519"
	"crypto/elliptic"
	crand "crypto/rand"
	"crypto/sha256"
	"crypto/x509"
	"crypto/x509/pkix"
	"encoding/asn1"
	"encoding/binary"
	"encoding/hex"
	"encoding/pem"
	"fmt"
	"hash/crc32"
	"math/big"
	"os"
	"path/filepath"
	"runtime"
	"sort"
	"strings"
	"sync"
	"testing/fstest"
	"time"

	"github.com/foxboron/go-uefi/efi"
	"github.com/foxboron/go-uefi/efi/attributes"
	"github.com/foxboron/go-uefi/efi/device"
	"github.com/foxboron/go-uefi/efi/signature"
	"github.com/foxboron/go-uefi/efi/util"
	"github.com/foxboron/go-uefi/efivar"
	"github.com/foxboron/go-uefi/efivarfs/fswrapper"
	"github.com/foxboron/go-uefi/efivarfs/testfs"
	"github.com/spf13/afero"
)

func errCls(err error) string {
	if err != nil {
		return "err"
	}
	return "ok"
}

func init() {
	// decoder entry points for firmware-variable contents and key files (worker side)
	workerOps["sigdb.read"] = func(a map[string]string) (string, string) {
		r, done := streamOf(a["reader"], unhx(a["b"]))
		defer done()
		db, err := signature.ReadSignatureDatabase(r)
		if err == nil {
			db.Bytes()
		}
		return errCls(err), ""
	}
	workerOps["siglist.read"] = func(a map[string]string) (string, string) {
		r, done := streamOf(a["reader"], unhx(a["b"]))
		defer done()
		l, err := signature.ReadSignatureList(r)
		if err == nil && l != nil {
			l.Bytes()
		}
		return errCls(err), ""
	}
	workerOps["sigdata.read"] = func(a map[string]string) (string, string) {
		b := unhx(a["b"])
		var size uint32
		if len(b) >= 4 {
			size = binary.LittleEndian.Uint32(b)
			b = b[4:]
		}
		r, done := streamOf(a["reader"], b)
		defer done()
		_, err := signature.ReadSignatureData(r, size)
		return errCls(err), ""
	}
	workerOps["auth.read"] = func(a map[string]string) (string, string) {
		r, done := streamOf(a["reader"], unhx(a["b"]))
		defer done()
		d, err := signature.ReadEFIVariableAuthencation2(r)
		if err == nil {
			var m bytes.Buffer
			d.Marshal(&m)
		}
		return errCls(err), ""
	}
	workerOps["wincert.read"] = func(a map[string]string) (string, string) {
		r, done := streamOf(a["reader"], unhx(a["b"]))
		defer done()
		_, err := signature.ReadWinCertificate(r)
		return errCls(err), ""
	}
	workerOps["wincertguid.read"] = func(a map[string]string) (string, string) {
		r, done := streamOf(a["reader"], unhx(a["b"]))
		defer done()
		_, err := signature.ReadWinCertificateUEFIGUID(r)
		return errCls(err), ""
	}
	workerOps["loadoption"] = func(a map[string]string) (string, string) {
		var lo device.EFILoadOption
		err := lo.Unmarshal(bytes.NewBuffer(unhx(a["b"])))
		if err == nil {
			for _, p := range lo.FilePath {
				p.Format() // every decoded node renders: a nil entry in the list is a crash for the caller
			}
		}
		return errCls(err), ""
	}
	workerOps["devicepath"] = func(a map[string]string) (string, string) {
		r, done := streamOf(a["reader"], unhx(a["b"]))
		defer done()
		ps, err := device.ParseDevicePath(r)
		if err == nil {
			for _, p := range ps {
				p.Format()
			}
		}
		return errCls(err), ""
	}
	workerOps["utf16"] = func(a map[string]string) (string, string) {
		_, err := util.ParseUtf16Var(bytes.NewBuffer(unhx(a["b"])))
		return errCls(err), ""
	}
	workerOps["efistring"] = func(a map[string]string) (string, string) {
		var s efivar.Efistring
		return errCls(s.Unmarshal(bytes.NewBuffer(unhx(a["b"])))), ""
	}
	workerOps["bootorder"] = func(a map[string]string) (string, string) {
		return bootOrderDecode(unhx(a["b"])), ""
	}
	workerOps["supportedsigs"] = func(a map[string]string) (string, string) {
		r, done := streamOf(a["reader"], unhx(a["b"]))
		defer done()
		_, err := signature.GetSupportedSignatures(r)
		return errCls(err), ""
	}
	workerOps["efivars.parse"] = func(a map[string]string) (string, string) {
		b := unhx(a["b"])
		fw := fswrapper.NewMemoryWrapper()
		r, done := streamOf(a["reader"], b)
		defer done()
		_, _, err := fw.ParseEfivars(r, len(b))
		return errCls(err), ""
	}
	// ParseEfivars with a declared size that is not the length of the content (the size comes from Stat of a
	// caller-supplied filesystem): first input byte = the declared size as a signed number, the rest = the content;
	// both copies of the function
	workerOps["efivars.declared"] = func(a map[string]string) (string, string) {
		b := unhx(a["b"])
		if len(b) == 0 {
			return "ok", ""
		}
		size := int(int8(b[0]))
		r, done := streamOf(a["reader"], b[1:])
		defer done()
		_, _, err := fswrapper.NewMemoryWrapper().ParseEfivars(r, size)
		_, _, err2 := attributes.ParseEfivars(bytes.NewReader(b[1:]), size)
		if (err == nil) != (err2 == nil) {
			return "twins-differ", ""
		}
		return errCls(err), ""
	}
	workerOps["guid.parse"] = func(a map[string]string) (string, string) {
		util.StringToGUID(string(unhx(a["b"])))
		return "ok", ""
	}
	workerOps["guid.bytes"] = func(a map[string]string) (string, string) {
		util.BytesToGUID(unhx(a["b"]))
		return "ok", ""
	}
	workerOps["readkey"] = func(a map[string]string) (string, string) {
		_, err := util.ReadKey(unhx(a["b"]))
		return errCls(err), ""
	}
	// the exported node parsers without an error result (known finding F12-wrappers)
	workerOps["node.wrapper"] = func(a map[string]string) (string, string) {
		b := unhx(a["b"])
		if len(b) < 4 {
			return "err", "short"
		}
		hdr := device.EFIDevicePath{Type: device.DevicePathType(b[0]), SubType: device.DevicePathSubType(b[1]), Length: [2]uint8{b[2], b[3]}}
		r := bytes.NewReader(b[4:])
		switch hdr.Type {
		case device.Hardware:
			device.ParseHardwareDevicePath(r, &hdr)
		case device.ACPI:
			device.ParseACPIDevicePath(r, &hdr)
		case device.MessagingDevicePath:
			device.ParseMessagingDevicePath(r, &hdr)
		}
		return "ok", ""
	}
	// ---- the other public entry points that decode the same contents ----
	// the Unmarshal methods (what GetVar calls) next to the Read* functions
	workerOps["sigdb.unmarshal"] = func(a map[string]string) (string, string) {
		var db signature.SignatureDatabase
		err := db.Unmarshal(bytes.NewBuffer(unhx(a["b"])))
		if err == nil {
			db.Bytes()
		}
		return errCls(err), ""
	}
	workerOps["auth.unmarshal"] = func(a map[string]string) (string, string) {
		var d signature.EFIVariableAuthentication2
		err := d.Unmarshal(bytes.NewBuffer(unhx(a["b"])))
		if err == nil {
			var m bytes.Buffer
			d.Marshal(&m)
		}
		return errCls(err), ""
	}
	// the two exported parsers a caller composes (as the package-level efi.GetBootEntry does)
	workerOps["loadoption.parsers"] = func(a map[string]string) (string, string) {
		buf := bytes.NewBuffer(unhx(a["b"]))
		lo, err := device.ParseEFILoadOption(buf)
		if err != nil {
			return "err", ""
		}
		lo.FilePath, err = device.ParseDevicePath(buf)
		if err == nil {
			for _, p := range lo.FilePath {
				p.Format()
			}
		}
		return errCls(err), ""
	}
	// the exported media node parser (it has an error result): header from the first four bytes, body from a reader
	workerOps["node.media"] = func(a map[string]string) (string, string) {
		b := unhx(a["b"])
		if len(b) < 4 {
			return "err", "short"
		}
		hdr := device.EFIDevicePath{Type: device.DevicePathType(b[0]), SubType: device.DevicePathSubType(b[1]), Length: [2]uint8{b[2], b[3]}}
		r, done := streamOf(a["reader"], b[4:])
		defer done()
		n, err := device.ParseMediaDevicePath(r, &hdr)
		if err == nil && n != nil {
			n.Format()
		}
		return errCls(err), ""
	}
	// the terminator scan under the string decoders
	workerOps["nullstring"] = func(a map[string]string) (string, string) {
		r, done := streamOf(a["reader"], unhx(a["b"]))
		defer done()
		util.ReadNullString(r)
		return "ok", ""
	}
	// the variable getters: the input is the whole variable FILE (attributes and value, or fewer than four bytes) in
	// an in-memory store; through the store object (Efivarfs over the test store) and through the package-level API
	for name, v := range c14GetterVars {
		name, v := name, v
		path := "/sys/firmware/efi/efivars/" + name + "-" + canonGUIDText(*v.GUID)
		workerOps["store.get/"+name] = func(a map[string]string) (string, string) {
			st := testfs.NewTestFS().With(fstest.MapFS{path: {Data: unhx(a["b"])}}).Open()
			var err error
			switch name {
			case "PK":
				_, err = st.GetPK()
			case "KEK":
				_, err = st.GetKEK()
			case "db":
				_, err = st.Getdb()
			case "dbx":
				_, err = st.Getdbx()
			case "SetupMode":
				_, err = st.GetSetupMode()
			case "SecureBoot":
				_, err = st.GetSecureBoot()
			case "BootOrder":
				st.GetBootOrder()
			case "LoaderEntrySelected":
				_, err = st.GetLoaderEntrySelected()
			default:
				var lo *device.EFILoadOption
				if lo, err = st.GetBootEntry(name); err == nil {
					for _, p := range lo.FilePath {
						p.Format()
					}
				}
			}
			return errCls(err), ""
		}
		workerOps["legacy.get/"+name] = func(a map[string]string) (string, string) {
			mem := afero.NewMemMapFs()
			afero.WriteFile(mem, path, unhx(a["b"]), 0o644)
			var err error
			withLegacyFs(mem, func() {
				switch name {
				case "PK":
					_, err = efi.GetPK()
				case "KEK":
					_, err = efi.GetKEK()
				case "db":
					_, err = efi.Getdb()
				case "dbx":
					_, err = efi.Getdbx()
				case "SetupMode":
					efi.GetSetupMode()
				case "SecureBoot":
					efi.GetSecureBoot()
				case "BootOrder":
					efi.GetBootOrder()
				case "LoaderEntrySelected":
					_, err = efi.GetCurrentlyBootedEntry()
				default:
					var lo *device.EFILoadOption
					if lo, err = efi.GetBootEntry(name); err == nil {
						for _, p := range lo.FilePath {
							p.Format()
						}
					}
				}
			})
			return errCls(err), ""
		}
	}
	// a value written to a secure-boot variable of the in-memory test store: the store looks for an
	// authentication descriptor in front of it (any value a test writes goes through that decoder), then reads it back
	workerOps["teststore.write"] = func(a map[string]string) (string, string) {
		st := testfs.NewTestFS().Open()
		if err := st.WriteVar(efivar.Db, rawValue(unhx(a["b"]))); err != nil {
			return "err", "write"
		}
		_, err := st.Getdb()
		return errCls(err), ""
	}
	workerOps["readcert"] = func(a map[string]string) (string, string) {
		_, err := util.ReadCert(unhx(a["b"]))
		return errCls(err), ""
	}
	// the same two decoders through their file entry points (the key / certificate file on disk)
	viaFile := func(b []byte, read func(path string) error) (string, string) {
		f, err := os.CreateTemp("", "vcheck-keyfile-")
		if err != nil {
			return "err", "no temporary file"
		}
		defer os.Remove(f.Name())
		f.Write(b)
		f.Close()
		return errCls(read(f.Name())), ""
	}
	workerOps["readkey.file"] = func(a map[string]string) (string, string) {
		return viaFile(unhx(a["b"]), func(p string) error { _, err := util.ReadKeyFromFile(p); return err })
	}
	workerOps["readcert.file"] = func(a map[string]string) (string, string) {
		return viaFile(unhx(a["b"]), func(p string) error { _, err := util.ReadCertFromFile(p); return err })
	}
	// MANY calls of one decoder in one process, each on a different input of one family (see c14Variant):
	// "many.retain" runs them one after the other and reports the live heap (HeapAlloc after a garbage
	// collection) gained after n and after 4n calls - what a decoder keeps must not depend on how many
	// different inputs it has seen; "many.concurrent" runs them on g goroutines at once (half of each
	// goroutine's inputs are its own, half are the ones every goroutine decodes).
	workerOps["many.retain"] = func(a map[string]string) (string, string) {
		f, ok := workerOps[a["ep"]]
		if !ok || strings.HasPrefix(a["ep"], "many.") {
			return "bad-op", a["ep"]
		}
		base, at, w, n := unhx(a["b"]), atoi(a["at"]), atoi(a["w"]), atoi(a["n"])
		call := func(i int) {
			f(map[string]string{"b": hx(c14Variant(base, at, w, a["mode"], i)), "reader": a["reader"]})
		}
		live := func() int64 {
			var m runtime.MemStats
			runtime.GC()
			runtime.GC()
			runtime.ReadMemStats(&m)
			return int64(m.HeapAlloc)
		}
		for i := 1; i <= 64; i++ { // whatever is set up once (tables, pools) is set up before the first measurement
			call(-i)
		}
		h0 := live()
		for i := 0; i < n; i++ {
			call(i)
		}
		h1 := live()
		for i := n; i < 4*n; i++ {
			call(i)
		}
		h2 := live()
		return "ok", fmt.Sprintf("%d %d", h1-h0, h2-h0)
	}
	workerOps["many.concurrent"] = func(a map[string]string) (string, string) {
		f, ok := workerOps[a["ep"]]
		if !ok || strings.HasPrefix(a["ep"], "many.") {
			return "bad-op", a["ep"]
		}
		base, at, w, n, g := unhx(a["b"]), atoi(a["at"]), atoi(a["w"]), atoi(a["n"]), atoi(a["g"])
		var wg sync.WaitGroup
		var mu sync.Mutex
		panics := []string{}
		start := make(chan struct{})
		for k := 0; k < g; k++ {
			wg.Add(1)
			go func(k int) {
				defer wg.Done()
				defer func() {
					if r := recover(); r != nil {
						mu.Lock()
						panics = append(panics, fmt.Sprint(r))
						mu.Unlock()
					}
				}()
				<-start
				for i := 0; i < n; i++ {
					idx := i // decoded by every goroutine
					if i%2 == 1 {
						idx = (k+1)*n + i // decoded by this goroutine only
					}
					f(map[string]string{"b": hx(c14Variant(base, at, w, a["mode"], idx)), "reader": a["reader"]})
				}
			}(k)
		}
		close(start)
		wg.Wait()
		if len(panics) > 0 {
			panic(panics[0]) // reported as class "panic" like any other recovered panic
		}
		return "ok", ""
	}
}

// the variables behind the getters of the store object and of the package-level API
var c14GetterVars = map[string]efivar.Efivar{"PK": efivar.PK, "KEK": efivar.KEK, "db": efivar.Db, "dbx": efivar.Dbx, "SetupMode": efivar.SetupMode,
	"SecureBoot": efivar.SecureBoot, "BootOrder": efivar.BootOrder, "Boot0001": efivar.BootEntry, "LoaderEntrySelected": efivar.LoaderEntrySelected}

// c14Variant is input number i of a family of inputs of one shape: base with the w bytes at offset at
// replaced by bytes derived from i (mode "bin": the bytes of SHA-256(i); mode "hex": its lower-case hex
// digits, which keep GUID text, base64 and UTF-16 text well-formed). Different i give different inputs.
func c14Variant(base []byte, at, w int, mode string, i int) []byte {
	out := append([]byte{}, base...)
	var k [8]byte
	binary.LittleEndian.PutUint64(k[:], uint64(int64(i)))
	h := sha256.Sum256(k[:])
	src := h[:]
	if mode == "hex" {
		src = []byte(hex.EncodeToString(h[:]))
	}
	for j := 0; j < w && at+j < len(out); j++ {
		if at+j >= 0 {
			out[at+j] = src[j%len(src)]
		}
	}
	return out
}

// retainBudget: what the live heap may have gained between the n-th and the 4n-th call on different
// inputs: a constant for the runtime's own bookkeeping plus 4 bytes per call (a decoder that keeps even
// one machine word per distinct input it has seen exceeds it).
func retainBudget(calls int) int64 { return 32<<10 + 4*int64(calls) }

// c14ManyEval: the decoders over the lifetime of a process - many different inputs one after the other
// (memory kept afterwards) or at the same time on several goroutines (no crash of the process).
func c14ManyEval(c *Ctx, cs Case) {
	ep, op := cs.S("ep"), cs.S("op")
	args := map[string]string{"ep": ep, "b": cs.S("b"), "at": fmt.Sprint(cs.I("at")), "w": fmt.Sprint(cs.I("w")), "mode": cs.S("mode"),
		"n": fmt.Sprint(cs.I("n")), "g": fmt.Sprint(cs.I("g")), "reader": cs.S("reader")}
	res := c14Worker.Do("many."+op, args, 60*time.Second)
	if op == "concurrent" && (res.Class == "oom" || res.Class == "timeout") {
		// Sixteen goroutines produce garbage faster than a collector that is starved of CPU frees it: on a machine
		// that is busy with other work the shared worker (3 GiB of address space) has been seen to run out of memory
		// or time in this class - on the unchanged library, original harness included. What the class is about is
		// what the decoders do to each other (a fatal runtime error, a panic, a deadlock); memory kept per input is
		// the business of the retain class. The case is therefore run once more, alone, in a fresh process with room
		// (8 GiB of address space) and a collector told to keep the heap small; only that answer is judged.
		c.Class(op + "/" + ep + "/" + res.Class + "-in-the-shared-worker-retried-alone")
		w := c.NewWorker(8<<20, "GOMEMLIMIT=1GiB", "GOGC=50")
		res = w.Do("many."+op, args, 180*time.Second)
		w.Close()
	}
	if res.Class == "not-run" {
		c.Class(op + "/" + ep + "/not-run-after-timeouts")
		return
	}
	c.Count(cs.Key(), true, op+"/"+ep+"/"+res.Class)
	fail := func(what string) {
		c.Fail(Failure{Kind: "property", What: ep + ": " + what, Case: cs, Go: fmt.Sprintf("%s alloc=%d ms=%d %s%s", res.Class, res.Alloc, res.Ms, res.Panic, res.Out)})
	}
	calls := cs.I("n") * 4
	how := fmt.Sprintf("%d different inputs of %d bytes one after the other in one process", calls, len(unhx(cs.S("b"))))
	if op == "concurrent" {
		calls = cs.I("n") * cs.I("g")
		how = fmt.Sprintf("%d inputs of %d bytes on %d goroutines at the same time (each goroutine decodes its own inputs and some that the others decode too)", calls, len(unhx(cs.S("b"))), cs.I("g"))
	}
	switch res.Class {
	case "ok":
	case "panic":
		fail("the process crashed or a decoder panicked while decoding " + how)
		return
	case "exit":
		fail("the process was terminated while decoding " + how)
		return
	case "oom":
		fail("the process ran out of memory while decoding " + how)
		return
	case "timeout":
		fail("no answer after 60 s while decoding " + how)
		return
	default:
		fail("unexpected answer " + res.Class + " while decoding " + how)
		return
	}
	if op == "retain" {
		var r1, r2 int64
		fmt.Sscanf(res.Out, "%d %d", &r1, &r2)
		c.Note("retain/"+ep+"/"+cs.S("family"), fmt.Sprintf("live heap gained after %d calls: %d bytes, after %d calls: %d bytes", cs.I("n"), r1, calls, r2))
		if grow := r2 - r1; grow > retainBudget(int(calls-cs.I("n"))) {
			fail(fmt.Sprintf("memory kept by the process grows with the number of different inputs decoded before: the live heap (after garbage collection) gained %d bytes over the first %d inputs and %d bytes over %d inputs (%d bytes per further input; the inputs are %d bytes each and nothing decoded is kept by the caller)",
				r1, cs.I("n"), r2, calls, grow/(calls-cs.I("n")), len(unhx(cs.S("b")))))
		}
	}
}

// model class of an entry point where a Lean model exists ("" = oracle only)
func c14ModelClass(c *Ctx, ep string, b []byte) string {
	first := func(s string) string { return strings.SplitN(s, " ", 2)[0] }
	switch ep {
	case "sigdb.read":
		r := c.Drv.Ask("sigdb.read", hx(b))
		return first(strings.TrimPrefix(r, "model="))
	case "auth.read":
		r := c.Drv.Ask("auth.read", hx(b))
		return first(strings.TrimPrefix(r, "model="))
	case "wincert.read":
		return first(c.Drv.Ask("wincert.read", hx(b)))
	case "loadoption":
		return first(c.Drv.Ask("boot.option", hx(b)))
	case "utf16":
		return first(c.Drv.Ask("utf16.dec", hx(b)))
	case "efistring":
		return first(c.Drv.Ask("efistring", hx(b)))
	case "bootorder", "guid.parse", "guid.bytes":
		return "ok"
	}
	return ""
}

var c14Worker *Worker
var c14LongWorker *Worker // for the long load options of c14ScaleEval

// entry points that take an io.Reader (the others take a *bytes.Buffer, a []byte or a string)
var c14StreamEps = map[string]bool{"sigdb.read": true, "siglist.read": true, "sigdata.read": true, "auth.read": true, "wincert.read": true,
	"wincertguid.read": true, "devicepath": true, "supportedsigs": true, "efivars.parse": true, "efivars.declared": true, "node.media": true, "nullstring": true}

// allocation budget: proportional to the input plus a constant for fixed-size buffers and the
// runtime's own bookkeeping (error values, reflection in encoding/binary)
func allocBudget(n int) uint64 { return 64*uint64(n) + (2 << 20) }

// c14Synth builds a large, regular input from its description (the case holds the description, not
// the megabytes): "entries" elements, for signature lists "per" entries in each list (0 = one list).
func c14Synth(cs Case) []byte {
	n, per, size := int(cs.I("entries")), int(cs.I("per")), int(cs.I("size"))
	var out bytes.Buffer
	word := func(i, j int) []byte {
		var k [8]byte
		binary.LittleEndian.PutUint32(k[:], uint32(i))
		binary.LittleEndian.PutUint32(k[4:], uint32(j))
		h := sha256.Sum256(k[:])
		return h[:]
	}
	switch cs.S("gen") {
	case "sha256-lists", "x509-lists":
		typ := tSHA256
		if cs.S("gen") == "x509-lists" {
			typ = tX509
		} else {
			size = 32
		}
		if per <= 0 {
			per = n
		}
		owner := unhx("bd9afa775903324dbd6028f4e78f784b") // one owner for all entries, as in a revocation list
		for i := 0; i < n; i += per {
			var sigs [][2][]byte
			for j := i; j < i+per && j < n; j++ {
				d := []byte{}
				for k := 0; len(d) < size; k++ {
					d = append(d, word(j, k)...)
				}
				sigs = append(sigs, [2][]byte{owner, d[:size]})
			}
			out.Write(encodeList(typ, nil, 16+size, sigs))
		}
	case "bootorder":
		for i := 0; i < n; i++ {
			out.Write([]byte{byte(i), byte(i >> 8)})
		}
	case "guids":
		for i := 0; i < n; i++ {
			out.Write(word(i, 0)[:16])
		}
	case "nodes": // PCI, USB and hard-drive nodes in turn, then the end node
		for i := 0; i < n; i++ {
			switch i % 3 {
			case 0:
				out.Write([]byte{1, 1, 6, 0, byte(i), byte(i >> 8)})
			case 1:
				out.Write([]byte{3, 5, 6, 0, byte(i), byte(i >> 8)})
			default:
				hd := append([]byte{4, 1, 42, 0}, append(word(i, 0), word(i, 1)[:6]...)...)
				hd[4+36], hd[4+37] = 2, 2
				out.Write(hd)
			}
		}
		out.Write([]byte{0x7f, 0xff, 4, 0})
	case "utf16":
		for i := 0; i < n; i++ {
			out.Write([]byte{byte(0x41 + i%26), 0})
		}
		out.Write([]byte{0, 0})
	case "long-loadoption":
		// a load option whose FilePathList is "size" bytes long (FilePathListLength says so): PCI, USB and
		// hard-drive nodes in turn up to the last "per" bytes of the list, which are ONE node (a vendor-defined
		// hardware node: header and per-4 data bytes) whose Length field declares "entries" bytes - its own
		// size, less, or so much that it reaches past the end of the list and past offset 65535; behind the
		// list "split" bytes of optional data (an end node first when there is room). "var" = 1: the variable
		// file (four attribute bytes in front).
		if cs.I("var") == 1 {
			out.Write([]byte{7, 0, 0, 0})
		}
		out.Write([]byte{1, 0, 0, 0, byte(size), byte(size >> 8), 'L', 0, 0, 0})
		if per < 4 {
			per = 4
		}
		used := 0
		for i := 0; ; i++ {
			var node []byte
			switch i % 3 {
			case 0:
				node = []byte{1, 1, 6, 0, byte(i), byte(i >> 8)}
			case 1:
				node = []byte{3, 5, 6, 0, byte(i), byte(i >> 8)}
			default:
				node = append([]byte{4, 1, 42, 0}, append(word(i, 0), word(i, 1)[:6]...)...)
				node[4+36], node[4+37] = 2, 2
			}
			if used+len(node)+per > size {
				break
			}
			out.Write(node)
			used += len(node)
		}
		// what is left between the regular nodes and the last node: PCI nodes, then (fewer than 6 bytes) it
		// goes to the last node's data
		for size-used-per >= 6 {
			out.Write([]byte{1, 1, 6, 0, 0, 0})
			used += 6
		}
		last := size - used
		if last >= 4 {
			sub := byte(4) // vendor-defined hardware node
			if last == 6 {
				sub = 1 // a PCI node (two data bytes) whose Length field says something else
			}
			out.Write([]byte{1, sub, byte(n), byte(n >> 8)})
			for k := 4; k < last; k++ {
				out.WriteByte(byte(0xa0 + k))
			}
		}
		opt := int(cs.I("split"))
		if opt >= 4 {
			out.Write([]byte{0x7f, 0xff, 4, 0})
			opt -= 4
		}
		for k := 0; k < opt; k++ {
			out.WriteByte(byte(k))
		}
	}
	return out.Bytes()
}

// timeBudgetUs is the absolute time allowed for an n-byte input: 1 µs per byte + 0.5 s (as in C13).
func timeBudgetUs(n int) int64 { return 500000 + int64(n) }

// c14ScaleEval decodes one large regular input and checks that time and memory stay proportional to
// its size: against the absolute budgets, and - for a signature database - against the time the same
// entries take when they are split over many short lists (same entry count, practically the same
// byte count; a decoder whose cost depends on anything but the input size shows as a ratio). Each
// measurement is the best of up to three runs, so a busy machine does not raise a false alarm.
func c14ScaleEval(c *Ctx, cs Case) {
	ep := cs.S("ep")
	b := c14Synth(cs)
	run := func(in []byte, goodUs int64) (wRes, int64) {
		var best wRes
		bestUs := int64(-1)
		for try := 0; try < 3; try++ {
			w := c14Worker
			if cs.S("gen") == "long-loadoption" {
				// a worker process of their own: what the shared worker has mapped when the later classes
				// (lifetime, concurrency) run stays what it was
				if c14LongWorker == nil {
					c14LongWorker = c.NewWorker(3<<20, "GOMEMLIMIT=2GiB")
					c14LongWorker.MaxTimeouts = 3
				}
				w = c14LongWorker
			}
			res := w.Do(ep, map[string]string{"b": hx(in)}, 20*time.Second)
			us := res.Us
			if us == 0 {
				us = res.Ms * 1000
			}
			if res.Class != "ok" && res.Class != "err" {
				return res, us
			}
			if bestUs < 0 || us < bestUs {
				best, bestUs = res, us
			}
			if bestUs <= goodUs {
				break
			}
		}
		return best, bestUs
	}
	res, us := run(b, 20000)
	c.Count(cs.Key(), true, "scale/"+ep+"/"+cs.S("gen")+"/"+res.Class)
	c.Sample(cs)
	fail := func(what string) {
		c.Fail(Failure{Kind: "property", What: ep + ": " + what, Case: cs, Go: fmt.Sprintf("%s alloc=%d us=%d %s%s", res.Class, res.Alloc, us, res.Panic, res.Out)})
	}
	switch res.Class {
	case "ok", "err":
	case "timeout":
		fail(fmt.Sprintf("decoding a %d-byte input did not finish in 20 s", len(b)))
		return
	default:
		fail(fmt.Sprintf("decoding a %d-byte input ended as %s", len(b), res.Class))
		return
	}
	if want := cs.S("want"); want != "" && res.Class != want {
		// the generator's own inputs are well-formed: an error here means the timing compares nothing
		fail(fmt.Sprintf("a well-formed %d-byte input was not decoded (%s)", len(b), res.Class))
	}
	if res.Alloc > allocBudget(len(b)) {
		fail(fmt.Sprintf("allocated %d bytes for a %d-byte input", res.Alloc, len(b)))
	}
	if us > timeBudgetUs(len(b)) {
		fail(fmt.Sprintf("took %d µs for a %d-byte input (limit %d µs: time must be proportional to the input size)", us, len(b), timeBudgetUs(len(b))))
	}
	if split := cs.I("split"); split > 0 && strings.HasSuffix(cs.S("gen"), "-lists") {
		twin := Case{}
		for k, v := range cs {
			twin[k] = v
		}
		twin["per"] = split
		tb := c14Synth(twin)
		_, tus := run(tb, us/4)
		c.Note("scale/"+ep+"/"+cs.S("gen")+fmt.Sprintf("/%d", cs.I("entries")), fmt.Sprintf("one list: %d bytes %d µs; lists of %d: %d bytes %d µs", len(b), us, split, len(tb), tus))
		if tus >= 0 && us > 8*tus+100000 {
			fail(fmt.Sprintf("took %d µs for %d entries in one list (%d bytes) but %d µs for the same entries in lists of %d (%d bytes): decoding time depends on more than the input size", us, cs.I("entries"), len(b), tus, split, len(tb)))
		}
	}
}

func c14Eval(c *Ctx, cs Case) {
	ep := cs.S("ep")
	b := unhx(cs.S("b"))
	if c14Worker == nil {
		c14Worker = c.NewWorker(3<<20, "GOMEMLIMIT=2GiB")
		c14Worker.MaxTimeouts = 3 // a library that hangs on every input costs 3 timeouts, not one per input
	}
	if cs.S("gen") != "" {
		c14ScaleEval(c, cs)
		return
	}
	if op := cs.S("op"); op == "retain" || op == "concurrent" {
		c14ManyEval(c, cs)
		return
	}
	args14 := map[string]string{"b": hx(b), "reader": cs.S("reader")}
	res := c14Worker.Do(ep, args14, 10*time.Second)
	// a verdict about time is re-measured before it is judged (see c13Eval): the best of up to three runs counts
	for try := 0; try < 2 && (res.Class == "timeout" || ((res.Class == "ok" || res.Class == "err") && res.Ms > 3000)); try++ {
		c.Class("decode/" + ep + "/time-verdict-remeasured")
		r2 := c14Worker.Do(ep, args14, 10*time.Second)
		if r2.Class == "not-run" {
			break
		}
		if r2.Class != "timeout" && (res.Class == "timeout" || r2.Ms < res.Ms) {
			res = r2
		}
	}
	if res.Class == "not-run" { // the worker gave up after repeated timeouts, which are reported
		c.Class("decode/" + ep + "/not-run-after-timeouts")
		return
	}
	c.Count(cs.Key(), len(b) > 0, "decode/"+ep+"/"+cs.S("class")+"/"+res.Class)
	if len(b) < 80 {
		c.Sample(cs)
	}
	fail := func(what, matcher string) {
		c.Fail(Failure{Kind: "property", Matcher: matcher, What: ep + ": " + what, Case: cs, Go: fmt.Sprintf("%s alloc=%d ms=%d %s%s", res.Class, res.Alloc, res.Ms, res.Panic, res.Out)})
	}
	site := cs.S("site")
	switch res.Class {
	case "ok", "err":
		if res.Alloc > allocBudget(len(b)) {
			fail(fmt.Sprintf("allocated %d bytes for a %d-byte input", res.Alloc, len(b)), "c14.alloc/"+ep)
		}
		if res.Ms > 3000 {
			fail(fmt.Sprintf("took %d ms for a %d-byte input", res.Ms, len(b)), "")
		}
	case "panic":
		fail("decoding panicked", "c14.panic/"+ep+"/"+site)
	case "exit":
		m := "c14.exit/" + ep + "/" + site
		if ep == "node.wrapper" {
			m = "c14.static/device-wrappers"
		}
		fail("decoding terminated the process (log.Fatal / os.Exit)", m)
	case "oom":
		fail(fmt.Sprintf("decoding a %d-byte input ran out of memory (allocation unrelated to the input size)", len(b)), "c14.alloc/"+ep)
	case "timeout":
		fail(fmt.Sprintf("decoding did not finish: no answer %d ms after a %d-byte input was handed over, the worker was killed", res.Ms, len(b)), "c14.hang/"+ep)
	}
	if m := c14ModelClass(c, ep, b); m != "" {
		c.Trace()
		got := res.Class
		if got == "oom" {
			got = "err" // the model charges the allocation to its cost, not to its outcome class
		}
		if m != got && !(res.Class == "oom") {
			c.Fail(Failure{Kind: "tie", What: ep + ": outcome class differs from the Lean model", Case: cs, Model: m, Go: res.Class})
		}
	}
}

// loadOptionNodeOffsets walks a well-formed load option (attributes, path-list length, NUL-terminated
// UTF-16 description, device-path nodes chained by their Length fields) and returns where each node starts.
func loadOptionNodeOffsets(lo []byte) []int {
	p := 6
	for p+1 < len(lo) && !(lo[p] == 0 && lo[p+1] == 0) {
		p += 2
	}
	p += 2
	var offs []int
	for p+4 <= len(lo) {
		offs = append(offs, p)
		l := int(binary.LittleEndian.Uint16(lo[p+2:]))
		if l < 4 || lo[p] == 0x7f {
			break
		}
		p += l
	}
	return offs
}

func bootOrderDecode(b []byte) string {
	// the unexported bootorder type is reached through GetBootOrder on an in-memory store
	return bootOrderVia(b)
}

func c14Gen(c *Ctx) {
	defer func() {
		if c14Worker != nil {
			c14Worker.Close()
			c14Worker = nil
		}
		if c14LongWorker != nil {
			c14LongWorker.Close()
			c14LongWorker = nil
		}
	}()
	emit := func(ep, class, site string, b []byte) {
		if c.NFailures() < 40 {
			cs := Case{"op": "decode", "ep": ep, "class": class, "site": site, "b": hx(b)}
			if c14StreamEps[ep] {
				// the decoders that take an io.Reader get the input through one of the reader kinds callers
				// use; the kind is a function of the case, so that replays are exact, and the size-field
				// sweeps (same length, different values) spread over all kinds
				cs["reader"] = streamKinds[int(crc32.ChecksumIEEE([]byte(ep+class+cs.S("b")))%uint32(len(streamKinds)))]
			}
			c14Eval(c, cs)
		}
	}
	u := newC09Universe(c)
	sha := encodeList(tSHA256, nil, 48, [][2][]byte{{u.owners[0], u.data[0]}, {u.owners[1], u.data[1]}})
	x5 := encodeList(tX509, nil, len(u.data[4])+16, [][2][]byte{{u.owners[0], u.data[4]}})
	// --- signature lists / databases: every size field, truncations ---
	for _, seed := range [][]byte{sha, x5, append(append([]byte{}, sha...), x5...)} {
		for _, ep := range []string{"sigdb.read", "siglist.read", "sigdb.unmarshal"} {
			emit(ep, "valid", "", seed)
			for _, off := range []int{16, 20, 24} {
				for _, v := range []uint32{0, 1, 15, 16, 17, 27, 28, 29, 47, 48, 49, 1 << 16, 1 << 24, 1 << 31, 0xffffffff, 0xfffffff0, 0x80000010} {
					emit(ep, fmt.Sprintf("field@%d", off), "", putU32(seed, off, v))
				}
			}
			// a consistent header that promises a huge signature
			big := append([]byte{}, seed[:28]...)
			binary.LittleEndian.PutUint32(big[16:], 28+0x7ffffff0)
			binary.LittleEndian.PutUint32(big[24:], 0x7ffffff0)
			emit(ep, "huge-consistent", "", big)
			// a consistent header that promises many signatures of the list's own size (ListSize =
			// 28 + n * SignatureSize) over an input that holds one or two: any allocation sized by the
			// declared count is unrelated to the input size
			sz := binary.LittleEndian.Uint32(seed[24:])
			for _, n := range []uint32{1 << 12, 1 << 16, 1 << 21, (0xffffffff - 28) / sz} {
				if uint64(28)+uint64(n)*uint64(sz) > 0xffffffff {
					continue
				}
				many := append([]byte{}, seed...)
				binary.LittleEndian.PutUint32(many[16:], 28+n*sz)
				emit(ep, "many-consistent", "", many)
				emit(ep, "many-consistent", "", many[:28+int(sz)])
			}
			for cut := 0; cut < len(seed); cut += 1 + len(seed)/40 {
				emit(ep, "truncated", "", seed[:cut])
			}
		}
	}
	// --- size scaling: one LONG regular input per repetitive format (a revocation list of tens of
	// thousands of hashes in ONE list, the same entries in lists of 64, certificates-sized entries, a
	// long boot order / GUID list / device path / string); time and memory must follow the byte count
	scale := func(ep, gen, want string, entries, size, split int) {
		if c.NFailures() < 40 {
			c14Eval(c, Case{"op": "scale", "ep": ep, "gen": gen, "want": want, "entries": entries, "size": size, "per": 0, "split": split})
		}
	}
	for _, n := range []int{c.P(4096, 16384), c.P(20000, 80000)} {
		scale("sigdb.read", "sha256-lists", "ok", n, 32, 64)
		scale("siglist.read", "sha256-lists", "ok", n, 32, 0) // reads one list only: no split twin
		scale("sigdb.read", "x509-lists", "ok", n/4, 600, 16)
	}
	scale("bootorder", "bootorder", "", c.P(30000, 32767), 0, 0)
	scale("supportedsigs", "guids", "", c.P(20000, 100000), 0, 0)
	scale("devicepath", "nodes", "ok", c.P(20000, 100000), 0, 0)
	scale("utf16", "utf16", "ok", c.P(200000, 2000000), 0, 0)
	// load options whose FilePathList is as long as the 16-bit FilePathListLength allows (and half, and a quarter
	// of that): the list is filled with regular nodes and ends in ONE node whose Length field is exact, too small,
	// or reaches past the end of the list - by one byte, by a few, up to offset 65535, just past it (where 16-bit
	// offset arithmetic wraps) and as far as a Length can say -, with nothing, an end node or more optional data
	// behind the list; through Unmarshal, the two exported parsers and the two boot-entry getters. Built from
	// the description (the case holds six numbers). Time and memory must follow the ~64 KiB of input.
	{
		type ll struct{ size, last, length, behind int }
		var lls []ll
		sizes := []int{65535, 65532, 65529, 32768}
		if c.Thorough {
			sizes = []int{65535, 65534, 65533, 65532, 65531, 65530, 65529, 65528, 65520, 49152, 32768, 32767, 16384}
		}
		for _, size := range sizes {
			for _, last := range []int{4, 6, 9} {
				for _, length := range []int{last, 4, last + 1, last + 7, 65535 - (size - last), 65536 - (size - last), 65536 - (size - last) + 6, 65536 - (size - last) + 48, 0xffff} {
					if length < 0 || length > 0xffff {
						continue
					}
					for _, behind := range []int{0, 4, 64} {
						if !c.Thorough && behind == 4 && size != 65535 {
							continue
						}
						lls = append(lls, ll{size, last, length, behind})
					}
				}
			}
		}
		eps := []string{"loadoption", "loadoption.parsers", "store.get/Boot0001", "legacy.get/Boot0001"}
		for i, x := range lls {
			// quick tier: every description on one entry point in turn; thorough: on all
			for j, ep := range eps {
				if !c.Thorough && (i+j)%len(eps) != 0 && !(j == 0 && x.size >= 65529 && x.behind == 0) {
					continue
				}
				if c.NFailures() < 6 { // a decoder that hangs on these costs seconds per case
					v := 0
					if strings.Contains(ep, ".get/") {
						v = 1
					}
					c14Eval(c, Case{"op": "scale", "ep": ep, "gen": "long-loadoption", "want": "", "entries": x.length, "size": x.size, "per": x.last, "split": x.behind, "var": v})
				}
			}
		}
	}
	scale("efistring", "utf16", "ok", c.P(200000, 2000000), 0, 0)
	for _, sz := range []uint32{0, 1, 15, 16, 17, 48, 1 << 20, 1 << 31, 0xffffffff} {
		for _, n := range []int{0, 8, 16, 17, 48, 100} {
			b := make([]byte, 4)
			binary.LittleEndian.PutUint32(b, sz)
			emit("sigdata.read", fmt.Sprintf("size=%d", sz), "", append(b, randBytes(c, n)...))
		}
	}
	// --- descriptors / WIN_CERTIFICATEs: short input, dwLength < 8 and huge, wrong type ---
	pk7 := wireGUID(signature.EFI_CERT_TYPE_PKCS7_GUID)
	desc := mkAuth(randBytes(c, 16), 24+10, 0x0200, 0x0EF1, pk7, randBytes(c, 10), []byte("payload"))
	for _, ep := range []string{"auth.read", "auth.unmarshal"} {
		emit(ep, "valid", "", desc)
		for cut := 0; cut <= len(desc); cut++ {
			site := "short-body"
			if cut < 16 {
				site = "short-time"
			}
			emit(ep, "truncated", site, desc[:cut])
		}
		for _, v := range []uint32{0, 1, 7, 8, 9, 23, 24, 25, 1 << 20, 1 << 31, 0xffffffff} {
			site := ""
			if v >= 8 && v < 24 {
				site = "short-body"
			}
			emit(ep, "dwLength", site, putU32(desc, 16, v))
		}
		for _, t := range []uint16{0, 2, 0x0EF0, 0xffff} {
			m := append([]byte{}, desc...)
			binary.LittleEndian.PutUint16(m[22:], t)
			emit(ep, "cert-type", "wrong-type", m)
		}
	}
	wc := desc[16:]
	for _, ep := range []string{"wincert.read", "wincertguid.read"} {
		emit(ep, "valid", "", wc)
		for cut := 0; cut <= len(wc); cut += 1 {
			site := ""
			if ep == "wincertguid.read" {
				site = "short-body"
			}
			emit(ep, "truncated", site, wc[:cut])
		}
		for _, v := range []uint32{0, 1, 7, 8, 9, 23, 24, 1 << 20, 1 << 31, 0xffffffff} {
			site := ""
			if ep == "wincertguid.read" && v >= 8 && v < 24 {
				site = "short-body"
			}
			emit(ep, "dwLength", site, putU32(wc, 0, v))
		}
	}
	// --- load options and device paths ---
	var los [][]byte
	ms, _ := filepath.Glob(filepath.Join(c.RepoDir, "tests/data/boot/Boot*"))
	for i, m := range ms {
		if b, err := os.ReadFile(m); err == nil && len(b) > 4 && i%4 == 0 {
			los = append(los, b[4:])
		}
	}
	for i := 0; i < 4; i++ {
		g := genOption(c)
		if r := c.Drv.Ask("boot.encode", fmt.Sprint(g.I("attrs")), fmt.Sprint(g.I("len")), g.S("desc"), g.S("nodes")); r != "bad-op" {
			los = append(los, unhx(r))
		}
	}
	for _, lo := range los {
		for _, ep := range []string{"loadoption", "loadoption.parsers", "store.get/Boot0001", "legacy.get/Boot0001"} {
			in := func(b []byte) []byte { // the getters take the variable file: attributes, then the load option
				if strings.Contains(ep, ".get/") {
					return append([]byte{7, 0, 0, 0}, b...)
				}
				return b
			}
			cuts, sets := 60, c.N(20, 300)
			if strings.Contains(ep, ".get/") { // the same decoder behind the file reader: a coarser sweep
				cuts, sets = c.P(12, 60), c.N(4, 100)
			}
			emit(ep, "valid", "", in(lo))
			for cut := 0; cut < len(lo); cut += 1 + len(lo)/cuts {
				emit(ep, "truncated", "devicepath", in(lo[:cut]))
			}
			// without the end node
			if len(lo) > 4 {
				emit(ep, "no-end-node", "devicepath", in(lo[:len(lo)-4]))
			}
			for i := 0; i < sets; i++ {
				m := append([]byte{}, lo...)
				m[c.Rng.Intn(len(m))] = byte(c.Rng.Intn(256))
				emit(ep, "byteset", "devicepath", in(m))
			}
		}
	}
	// every node's Length field set to each value below the 4-byte node header, to one less / one more
	// than it was and to the maximum: a decoder that sizes anything by the declared node length must
	// cope with a length that does not even cover the header
	for _, lo := range los {
		for _, off := range loadOptionNodeOffsets(lo) {
			orig := int(binary.LittleEndian.Uint16(lo[off+2:]))
			for _, l := range []int{0, 1, 2, 3, orig - 1, orig + 1, 0xffff} {
				if l < 0 || l > 0xffff {
					continue
				}
				m := append([]byte{}, lo...)
				binary.LittleEndian.PutUint16(m[off+2:], uint16(l))
				emit("loadoption", "node-length", "devicepath", m)
			}
		}
	}
	// every node type / subtype with too little data, and every partition-format byte
	for ty := 0; ty < 6; ty++ {
		for sub := 0; sub < 12; sub++ {
			for _, n := range []int{0, 1, 3, 7, 15, 37, 38} {
				emit("devicepath", fmt.Sprintf("node-%d-%d", ty, sub), "devicepath", append([]byte{byte(ty), byte(sub), 4, 0}, randBytes(c, n)...))
				emit("devicepath", fmt.Sprintf("node-%d-%d+end", ty, sub), "devicepath", append(append([]byte{byte(ty), byte(sub), 4, 0}, randBytes(c, n)...), 0x7f, 0xff, 4, 0))
			}
			// the same node kinds with a declared Length of 0..3 (smaller than the node header itself),
			// of exactly header + data, and of 0xffff, over no data / a NUL-terminated body / a full body
			for _, body := range [][]byte{nil, {0x41, 0, 0, 0}, randBytes(c, 38)} {
				for _, l := range []int{0, 1, 2, 3, 4 + len(body), 0xffff} {
					node := append([]byte{byte(ty), byte(sub), byte(l), byte(l >> 8)}, body...)
					emit("devicepath", fmt.Sprintf("node-%d-%d/length", ty, sub), "devicepath", node)
					emit("devicepath", fmt.Sprintf("node-%d-%d/length+end", ty, sub), "devicepath", append(node, 0x7f, 0xff, 4, 0))
				}
			}
		}
	}
	// the exported media node parser: every subtype with too little, exact and too much data, every declared length class
	for sub := 0; sub < 12; sub++ {
		for _, n := range []int{0, 1, 2, 3, 15, 16, 17, 37, 38, 39} {
			for _, l := range []int{0, 3, 4, 4 + n, 0xffff} {
				emit("node.media", fmt.Sprintf("node-4-%d", sub), "devicepath", append([]byte{4, byte(sub), byte(l), byte(l >> 8)}, randBytes(c, n)...))
			}
		}
		emit("node.media", fmt.Sprintf("node-4-%d/string", sub), "devicepath", []byte{4, byte(sub), 10, 0, 0x41, 0, 0x42, 0, 0, 0})
		emit("node.media", fmt.Sprintf("node-4-%d/string-noterm", sub), "devicepath", []byte{4, byte(sub), 9, 0, 0x41, 0, 0x42, 0, 0})
	}
	for f := 0; f < 256; f += 1 {
		hd := append([]byte{4, 1, 42, 0}, randBytes(c, 38)...)
		hd[4+36] = byte(f)
		hd[4+37] = byte(c.Rng.Intn(4))
		emit("devicepath", "partition-format", "hd-format", append(hd, 0x7f, 0xff, 4, 0))
	}
	// the exported node parsers (no error result): truncated nodes — re-confirms the known finding
	for _, hdr := range [][]byte{{1, 1, 6, 0}, {2, 1, 12, 0}, {2, 2, 12, 0}, {3, 5, 6, 0}, {3, 10, 20, 0}} {
		emit("node.wrapper", "truncated-node", "device-wrappers", append(append([]byte{}, hdr...), 0x01))
		emit("node.wrapper", "complete-node", "", append(append([]byte{}, hdr...), randBytes(c, 16)...))
	}
	// --- strings, boot order, GUID lists, attribute-prefixed files, GUID text ---
	for _, b := range [][]byte{nil, {0}, {0, 0}, {0x41}, {0x41, 0}, {0x41, 0, 0, 0}, {0, 0xd8}, {0, 0xd8, 0, 0}, bytes.Repeat([]byte{0x41, 0}, 5000)} {
		emit("utf16", "edge", "", b)
		emit("efistring", "edge", "", b)
		emit("nullstring", "edge", "", b)
		for _, ep := range []string{"store.get/LoaderEntrySelected", "legacy.get/LoaderEntrySelected"} {
			emit(ep, "edge", "", append([]byte{6, 0, 0, 0}, b...))
		}
	}
	for i := 0; i < c.N(100, 5000); i++ {
		b := randBytes(c, c.Rng.Intn(40))
		emit("utf16", "random", "", b)
		emit("efistring", "random", "", b)
		emit("bootorder", "random", "", b)
		emit("supportedsigs", "random", "", b)
		emit("efivars.parse", "random", "", b)
		emit("guid.parse", "random", "", b)
		emit("guid.bytes", "random", "", b)
		emit("nullstring", "random", "", b)
		emit("teststore.write", "random", "", b)
	}
	// --- the variable getters of the store object and of the package-level API: the input is the variable FILE ---
	// files of 0..3 bytes (no room for the attributes) and attributes alone, for every getter; then per kind of value
	getterNames := make([]string, 0, len(c14GetterVars))
	for name := range c14GetterVars {
		getterNames = append(getterNames, name)
	}
	sort.Strings(getterNames)
	attrs := []byte{0x27, 0, 0, 0} // NV|BS|RT|AT: satisfies the attribute check of every getter
	for _, name := range getterNames {
		for _, api := range []string{"store.get/", "legacy.get/"} {
			for n := 0; n <= 4; n++ {
				emit(api+name, "short-file", "", attrs[:n])
			}
			for i := 0; i < c.N(12, 200); i++ {
				emit(api+name, "random-value", "", append(append([]byte{}, attrs...), randBytes(c, c.Rng.Intn(40))...))
			}
			emit(api+name, "other-attributes", "", append([]byte{0, 0, 0, 0}, randBytes(c, 8)...))
			switch name {
			case "PK", "KEK", "db", "dbx":
				emit(api+name, "valid", "", append(append([]byte{}, attrs...), sha...))
				emit(api+name, "valid", "", append(append([]byte{}, attrs...), x5...))
				for _, off := range []int{16, 20, 24} {
					for _, v := range []uint32{0, 1, 15, 16, 17, 28, 47, 48, 49, 1 << 24, 1 << 31, 0xffffffff, 0x80000010} {
						emit(api+name, fmt.Sprintf("field@%d", off), "", append(append([]byte{}, attrs...), putU32(sha, off, v)...))
					}
				}
				for cut := 0; cut < len(sha); cut += 1 + len(sha)/(3*c.P(4, 13)) {
					emit(api+name, "truncated", "", append(append([]byte{}, attrs...), sha[:cut]...))
				}
			case "SetupMode", "SecureBoot":
				for _, v := range [][]byte{nil, {0}, {1}, {2}, {1, 0}, {0xff, 0xff, 0xff}} {
					emit(api+name, "value", "", append(append([]byte{}, attrs...), v...))
				}
			case "BootOrder":
				for n := 0; n < 8; n++ {
					emit(api+name, "length", "", append(append([]byte{}, attrs...), randBytes(c, n)...))
				}
			}
		}
	}
	// a value written to a secure-boot variable of the in-memory test store (it looks for a descriptor in front of it)
	for _, v := range [][]byte{nil, {0}, sha, x5, desc, append(append([]byte{}, desc...), sha...)} {
		emit("teststore.write", "value", "", v)
	}
	for cut := 0; cut <= len(desc); cut += 1 {
		emit("teststore.write", "descriptor-truncated", "", desc[:cut])
	}
	for _, v := range []uint32{0, 1, 7, 8, 9, 23, 24, 25, 1 << 20, 1 << 31, 0xffffffff} {
		emit("teststore.write", "descriptor-dwLength", "", putU32(desc, 16, v))
	}
	for size := -3; size <= 12; size++ {
		for _, n := range []int{0, 1, 3, 4, 5, 8, 11, 12, 13} {
			emit("efivars.declared", "declared-size", "", append([]byte{byte(int8(size))}, randBytes(c, n)...))
		}
	}
	for n := 0; n < 70; n++ {
		emit("supportedsigs", "length", "", randBytes(c, n))
		emit("efivars.parse", "length", "", randBytes(c, n%9))
		emit("bootorder", "length", "", randBytes(c, n%7))
	}
	// --- PEM keys and certificates ---
	pemCert := pemOf(u.data[4])
	for _, ep := range []string{"readkey", "readcert"} {
		emit(ep, "valid-cert-pem", "", pemCert)
		emit(ep, "empty", "", nil)
		emit(ep, "not-pem", "", []byte("hello"))
		for cut := 0; cut < len(pemCert); cut += 1 + len(pemCert)/30 {
			emit(ep, "truncated", "", pemCert[:cut])
		}
		for i := 0; i < c.N(30, 500); i++ {
			m := append([]byte{}, pemCert...)
			m[c.Rng.Intn(len(m))] = byte(c.Rng.Intn(256))
			emit(ep, "byteset", "", m)
		}
	}
	// files with several PEM blocks, other block types, text between and around the blocks
	blk := func(typ string, body []byte) []byte { return pem.EncodeToMemory(&pem.Block{Type: typ, Bytes: body}) }
	keyBlk := blk("PRIVATE KEY", randBytes(c, 120))
	bundles := map[string][]byte{
		"key+cert":         append(append([]byte{}, keyBlk...), pemCert...),
		"cert+key":         append(append([]byte{}, pemCert...), keyBlk...),
		"cert+cert":        append(append([]byte{}, pemCert...), pemOf(u.data[7])...),
		"unknown+cert":     append(blk("X509 CRL", randBytes(c, 40)), pemCert...),
		"unknown+unknown":  append(blk("FOO", []byte{1}), blk("BAR", []byte{2})...),
		"three-keys":       append(append(append([]byte{}, keyBlk...), keyBlk...), keyBlk...),
		"text+cert+text":   append(append([]byte("Bag Attributes\n  friendlyName: x\n"), pemCert...), []byte("\ntrailing text\n")...),
		"key+garbage":      append(append([]byte{}, keyBlk...), []byte("-----BEGIN CERTIFICATE-----\nnot base64 at all\n")...),
		"empty-block+cert": append(blk("CERTIFICATE", nil), pemCert...),
		"headers+cert":     append(pem.EncodeToMemory(&pem.Block{Type: "RSA PRIVATE KEY", Headers: map[string]string{"Proc-Type": "4,ENCRYPTED"}, Bytes: randBytes(c, 64)}), pemCert...),
	}
	for name, b := range bundles {
		for _, ep := range []string{"readkey", "readcert"} {
			emit(ep, "bundle/"+name, "", b)
			emit(ep, "bundle/"+name+"/cut", "", b[:len(b)-1-c.Rng.Intn(len(b)/2)])
		}
	}
	if kb, err := os.ReadFile(filepath.Join(c.RepoDir, "authenticode/testdata/db.key")); err == nil {
		emit("readkey", "valid-key", "", kb)
		emit("readkey", "bundle/cert+real-key", "", append(append([]byte{}, pemCert...), kb...))
		emit("readcert", "bundle/real-key+cert", "", append(append([]byte{}, kb...), pemCert...))
		for cut := 0; cut < len(kb); cut += 1 + len(kb)/30 {
			emit("readkey", "truncated", "", kb[:cut])
		}
	}
	// WELL-FORMED key and certificate files of every kind a key file can hold, not only RSA in PKCS #8:
	// every file goes to the key AND the certificate decoder, in memory and as a file on disk, whole,
	// cut, and next to a certificate
	km := c14KeyMaterial(c)
	names := make([]string, 0, len(km))
	for name := range km {
		names = append(names, name)
	}
	sort.Strings(names)
	for _, name := range names {
		b := km[name]
		for _, ep := range []string{"readkey", "readcert", "readkey.file", "readcert.file"} {
			emit(ep, "keyfile/"+name, "", b)
		}
		for _, ep := range []string{"readkey", "readcert"} {
			emit(ep, "keyfile/"+name+"+cert", "", append(append([]byte{}, b...), pemCert...))
			emit(ep, "keyfile/cert+"+name, "", append(append([]byte{}, pemCert...), b...))
			emit(ep, "keyfile/text+"+name, "", append([]byte("Bag Attributes\n    localKeyID: 01 02\nKey Attributes: <No Attributes>\n"), b...))
			for cut := 1; cut < len(b); cut += 1 + len(b)/c.P(12, 60) {
				emit(ep, "keyfile/"+name+"/cut", "", b[:cut])
			}
		}
	}
	for _, ep := range []string{"readkey.file", "readcert.file"} {
		emit(ep, "empty", "", nil)
		emit(ep, "not-pem", "", []byte("hello"))
		emit(ep, "valid-cert-pem", "", pemCert)
	}
	// --- the decoders over the lifetime of a process: MANY calls on different inputs of one shape ---
	// (a) one after the other: the memory the process keeps afterwards (live heap after a garbage
	// collection) must not grow with the number of different inputs decoded before;
	// (b) on several goroutines at once: the process must survive (a fatal runtime error such as
	// "concurrent map writes" cannot be recovered and is seen as the death of the worker).
	hdOpt := append(append([]byte{1, 0, 0, 0, 46, 0, 'x', 0, 0, 0, 4, 1, 42, 0}, make([]byte, 38)...), 0x7f, 0xff, 4, 0)
	hdOpt[14], hdOpt[14+36], hdOpt[14+37] = 1, 2, 2
	descOpt := append(append([]byte{1, 0, 0, 0, 4, 0}, bytes.Repeat([]byte{0x41, 0}, 8)...), 0, 0, 0x7f, 0xff, 4, 0)
	sd := append([]byte{48, 0, 0, 0}, make([]byte, 48)...)
	text := []byte("file 0000000000000000\n")
	type family struct {
		ep, name   string
		base       []byte
		at, w      int
		mode       string
		concurrent bool
	}
	fams := []family{
		{"guid.parse", "guid-text/first-group", []byte("00000000-93ca-11d2-aa0d-00e098032b8c"), 0, 8, "hex", true},
		{"guid.parse", "guid-text/last-group", []byte("8be4df61-93ca-11d2-aa0d-000000000000"), 24, 12, "hex", true},
		{"guid.parse", "guid-text/no-dashes", []byte("00000000000000000000000000000000"), 0, 32, "hex", true},
		{"guid.parse", "guid-text/not-hex", []byte("zzzzzzzz-0000-0000-0000-000000000000"), 9, 12, "bin", true},
		{"guid.bytes", "guid-bytes", make([]byte, 16), 0, 16, "bin", true},
		{"sigdb.read", "sha256-list/data", sha, 28 + 16, 32, "bin", true},
		{"sigdb.read", "sha256-list/owner", sha, 28, 16, "bin", true},
		{"siglist.read", "sha256-list/data", sha, 28 + 16, 32, "bin", true},
		{"sigdb.read", "x509-list/owner", x5, 28, 16, "bin", true},
		{"sigdata.read", "sigdata", sd, 4, 48, "bin", true},
		{"auth.read", "descriptor/payload", desc, len(desc) - 7, 7, "bin", true},
		{"auth.read", "descriptor/time", desc, 0, 7, "bin", true},
		{"wincert.read", "wincert/data", wc, 24, 10, "bin", true},
		{"wincertguid.read", "wincert/data", wc, 24, 10, "bin", true},
		{"loadoption", "hd-option/signature", hdOpt, 14 + 20, 16, "bin", true},
		{"loadoption", "option/description", descOpt, 6, 16, "hex", true},
		{"devicepath", "hd-path/signature", hdOpt[10:], 4 + 20, 16, "bin", true},
		{"utf16", "string", append(bytes.Repeat([]byte{0x41, 0}, 12), 0, 0), 0, 24, "hex", true},
		{"efistring", "string", append(bytes.Repeat([]byte{0x41, 0}, 12), 0, 0), 0, 24, "hex", true},
		{"bootorder", "order", make([]byte, 16), 0, 16, "bin", false}, // (through the in-memory test store, one per call)
		{"supportedsigs", "guid-list", make([]byte, 48), 0, 48, "bin", true},
		{"efivars.parse", "attribute-file", append([]byte{7, 0, 0, 0}, make([]byte, 12)...), 4, 12, "bin", true},
		{"readcert", "pem/text-before", append(append([]byte{}, text...), pemCert...), 5, 16, "hex", true},
		{"readcert", "pem/body", pemCert, len(pemCert) / 2, 8, "hex", true},
		{"readkey", "pem/text-before", append(append([]byte{}, text...), km["pkcs8/ecdsa-p256"]...), 5, 16, "hex", true},
		{"readkey", "pem/body", km["pkcs8/ed25519"], len(km["pkcs8/ed25519"]) / 2, 8, "hex", true},
	}
	if kb, err := os.ReadFile(filepath.Join(c.RepoDir, "authenticode/testdata/db.key")); err == nil {
		fams = append(fams, family{"readkey", "pem/rsa/text-before", append(append([]byte{}, text...), kb...), 5, 16, "hex", true})
	}
	for _, f := range fams {
		if c.NFailures() >= 40 {
			break
		}
		n := c.P(2500, 25000)
		if strings.HasPrefix(f.ep, "read") || f.ep == "bootorder" {
			n /= 5 // an X.509 / PKCS #8 parse or a file-system walk per call
		}
		cs := Case{"op": "retain", "ep": f.ep, "family": f.name, "b": hx(f.base), "at": f.at, "w": f.w, "mode": f.mode, "n": n, "g": 0}
		c14Eval(c, cs)
		if f.concurrent {
			c14Eval(c, Case{"op": "concurrent", "ep": f.ep, "family": f.name, "b": hx(f.base), "at": f.at, "w": f.w, "mode": f.mode, "n": n / 2, "g": c.P(8, 16)})
		}
	}
}

// c14KeyMaterial: well-formed PEM files as key tools write them. Private keys: RSA, ECDSA (P-224, P-256,
// P-384, P-521), Ed25519 and X25519 (a key that cannot sign) in PKCS #8 "PRIVATE KEY"; RSA in PKCS #1 "RSA
// PRIVATE KEY"; ECDSA in SEC 1 "EC PRIVATE KEY"; each encoding also under the label of another one; the
// legacy encrypted form (Proc-Type / DEK-Info headers) and a PKCS #8 "ENCRYPTED PRIVATE KEY"; public keys;
// self-signed certificates of every signing key kind; a certificate request. The keys are made for the
// run (the case carries the file, so a replay is exact).
func c14KeyMaterial(c *Ctx) map[string][]byte {
	out := map[string][]byte{}
	blk := func(typ string, body []byte) []byte { return pem.EncodeToMemory(&pem.Block{Type: typ, Bytes: body}) }
	signers := map[string]crypto.Signer{"rsa": poolKey(c, 2048, 0)}
	for name, curve := range map[string]elliptic.Curve{"ecdsa-p224": elliptic.P224(), "ecdsa-p256": elliptic.P256(), "ecdsa-p384": elliptic.P384(), "ecdsa-p521": elliptic.P521()} {
		if k, err := ecdsa.GenerateKey(curve, crand.Reader); err == nil {
			signers[name] = k
			if der, err := x509.MarshalECPrivateKey(k); err == nil {
				out["sec1/"+name] = blk("EC PRIVATE KEY", der)
				out["sec1-labelled-pkcs8/"+name] = blk("PRIVATE KEY", der)
				if name == "ecdsa-p256" {
					// as written by `openssl ecparam -genkey`: the curve parameters in a block of their own first
					out["sec1-after-ecparams/"+name] = append(blk("EC PARAMETERS", []byte{0x06, 0x08, 0x2a, 0x86, 0x48, 0xce, 0x3d, 0x03, 0x01, 0x07}), blk("EC PRIVATE KEY", der)...)
					if enc, err := x509.EncryptPEMBlock(crand.Reader, "EC PRIVATE KEY", der, []byte("password"), x509.PEMCipherAES256); err == nil { //nolint:staticcheck
						out["legacy-encrypted/"+name] = pem.EncodeToMemory(enc)
					}
				}
			}
		}
	}
	if _, k, err := ed25519.GenerateKey(crand.Reader); err == nil {
		signers["ed25519"] = k
	}
	for name, k := range signers {
		if der, err := x509.MarshalPKCS8PrivateKey(k); err == nil {
			out["pkcs8/"+name] = blk("PRIVATE KEY", der)
			if name != "rsa" {
				out["pkcs8-labelled-pkcs1/"+name] = blk("RSA PRIVATE KEY", der)
				out["pkcs8-labelled-sec1/"+name] = blk("EC PRIVATE KEY", der)
			}
			// PKCS #8 EncryptedPrivateKeyInfo (PBES2: PBKDF2-HMAC-SHA256 + AES-256-CBC) around it; the
			// decoders have no password, the file is well-formed all the same
			if name == "rsa" || name == "ecdsa-p256" || name == "ed25519" {
				out["pkcs8-encrypted/"+name] = blk("ENCRYPTED PRIVATE KEY", encryptedPKCS8Shape(c, len(der)))
			}
		}
		if der, err := x509.MarshalPKIXPublicKey(k.Public()); err == nil {
			out["public/"+name] = blk("PUBLIC KEY", der)
		}
		tmpl := &x509.Certificate{SerialNumber: big.NewInt(int64(len(out) + 1)), Subject: pkix.Name{CommonName: "key file " + name},
			NotBefore: time.Unix(1700000000, 0), NotAfter: time.Unix(2000000000, 0), KeyUsage: x509.KeyUsageDigitalSignature, BasicConstraintsValid: true}
		if der, err := x509.CreateCertificate(crand.Reader, tmpl, tmpl, k.Public(), k); err == nil {
			out["certificate/"+name] = blk("CERTIFICATE", der)
			out["certificate-labelled-key/"+name] = blk("PRIVATE KEY", der)
			if p8, err := x509.MarshalPKCS8PrivateKey(k); err == nil {
				out["key-labelled-certificate/"+name] = blk("CERTIFICATE", p8)
			}
		}
		if name == "ecdsa-p384" {
			if der, err := x509.CreateCertificateRequest(crand.Reader, &x509.CertificateRequest{Subject: pkix.Name{CommonName: "request"}}, k); err == nil {
				out["request/"+name] = blk("CERTIFICATE REQUEST", der)
			}
		}
	}
	rk := poolKey(c, 2048, 0)
	p1 := x509.MarshalPKCS1PrivateKey(rk)
	out["pkcs1/rsa"] = blk("RSA PRIVATE KEY", p1)
	out["pkcs1-labelled-pkcs8/rsa"] = blk("PRIVATE KEY", p1)
	out["public-pkcs1/rsa"] = blk("RSA PUBLIC KEY", x509.MarshalPKCS1PublicKey(&rk.PublicKey))
	if enc, err := x509.EncryptPEMBlock(crand.Reader, "RSA PRIVATE KEY", p1, []byte("password"), x509.PEMCipherAES128); err == nil { //nolint:staticcheck
		out["legacy-encrypted/rsa"] = pem.EncodeToMemory(enc)
	}
	if xk, err := ecdh.X25519().GenerateKey(crand.Reader); err == nil {
		if der, err := x509.MarshalPKCS8PrivateKey(xk); err == nil {
			out["pkcs8/x25519"] = blk("PRIVATE KEY", der)
		}
	}
	if ek, err := ecdh.P256().GenerateKey(crand.Reader); err == nil {
		if der, err := x509.MarshalPKCS8PrivateKey(ek); err == nil {
			out["pkcs8/ecdh-p256"] = blk("PRIVATE KEY", der)
		}
	}
	return out
}

// encryptedPKCS8Shape: the DER of a PKCS #8 EncryptedPrivateKeyInfo with PBES2 parameters around n bytes
// (rounded up to the cipher block) of ciphertext
func encryptedPKCS8Shape(c *Ctx, n int) []byte {
	type algID struct {
		Algorithm  asn1.ObjectIdentifier
		Parameters asn1.RawValue `asn1:"optional"`
	}
	raw := func(v interface{}) asn1.RawValue {
		b, err := asn1.Marshal(v)
		if err != nil {
			panic(err)
		}
		return asn1.RawValue{FullBytes: b}
	}
	kdf := struct {
		Salt []byte
		Iter int
		PRF  algID
	}{randBytes(c, 8), 2048, algID{asn1.ObjectIdentifier{1, 2, 840, 113549, 2, 9}, asn1.NullRawValue}}
	params := struct{ KDF, Enc algID }{
		algID{asn1.ObjectIdentifier{1, 2, 840, 113549, 1, 5, 12}, raw(kdf)},
		algID{asn1.ObjectIdentifier{2, 16, 840, 1, 101, 3, 4, 1, 42}, raw(randBytes(c, 16))},
	}
	b, err := asn1.Marshal(struct {
		Alg  algID
		Data []byte
	}{algID{asn1.ObjectIdentifier{1, 2, 840, 113549, 1, 5, 13}, raw(params)}, randBytes(c, (n/16+1)*16)})
	if err != nil {
		panic(err)
	}
	return b
}

func init() {
	register("C14", &PropDef{
		Rule:   "19 decoder entry points (ReadSignatureDatabase/List/Data, ReadEFIVariableAuthencation2, ReadWinCertificate(UEFIGUID), EFILoadOption.Unmarshal + Format, ParseDevicePath + Format, ParseUtf16Var, Efistring, boot order, GetSupportedSignatures, ParseEfivars, StringToGUID, BytesToGUID, ReadKey, ReadCert, ReadKeyFromFile, ReadCertFromFile) and the other public entry points that decode the same contents - SignatureDatabase.Unmarshal and EFIVariableAuthentication2.Unmarshal (same sweeps as the Read* functions), ParseEFILoadOption followed by ParseDevicePath (same sweeps as EFILoadOption.Unmarshal), the exported ParseMediaDevicePath (every subtype x body lengths 0..39 x declared lengths 0/3/4/exact/0xffff), ReadNullString, the 9 variable getters of the store object (Efivarfs.GetPK/GetKEK/Getdb/Getdbx/GetSetupMode/GetSecureBoot/GetBootOrder/GetBootEntry/GetLoaderEntrySelected over the in-memory test store) and their 9 package-level twins (efi.GetPK ... efi.GetBootEntry, efi.GetCurrentlyBootedEntry over fs.SetFS), whose input is the variable FILE (files of 0..4 bytes, attributes that do not match, random values, and per kind: lists with every size field swept and cut, boolean values of 0..3 bytes, boot orders of 0..7 bytes, load options cut / without end node / byte-mutated, UTF-16 edge cases), and a value written to a secure-boot variable of the in-memory test store (TestFS.WriteVar looks for a descriptor in front of it: descriptors cut everywhere, every dwLength class, lists, random bytes) - run in a sandboxed worker process (address-space limit, per-input timeout, runtime.MemStats.TotalAlloc delta). The 11 entry points that take an io.Reader get every input through one of 8 reader kinds chosen by a hash of the case (bytes.Reader, bytes.Buffer, bufio.Reader, io.SectionReader, an open os.File, io.Pipe, a reader with no method but Read, a one-byte reader). Inputs: every size field of lists / descriptors / certificates swept over {0,1,7,8,15,16,17,23,24,27,28,29,2^16,2^24,2^31,2^32-1,...}, consistent headers promising one 2 GiB signature or 2^12..2^26 signatures of the list's own size, every truncation point, captured and generated load options cut everywhere / without end node / byte-mutated, every device-path (type, subtype) with 0..38 bytes of data and with a declared node Length of 0..3 (below the 4-byte node header) / exact / 0xffff, every node Length of the captured and generated load options set to 0..3, +-1 and 0xffff, every partition-format byte, size scaling (one signature list of 4096 and of 20000 SHA-256 entries [thorough: 16384 / 80000], 1000 / 5000 certificate-sized entries in one list, each also split into lists of 64 / 16 entries of the same total size; a boot order of 30000 entries, 20000 GUIDs, a device path of 20000 nodes, a string of 200000 characters: time <= 0.5 s + 1 µs/byte, memory budget, and one-list time <= 8 x split time + 0.1 s, best of 3 runs), UTF-16 edge cases, random short inputs, PEM material cut and mutated, files with several PEM blocks (key+certificate in both orders, unknown block types, headers, text around the blocks, empty blocks); WELL-FORMED key files of every kind made for the run - RSA, ECDSA P-224/P-256/P-384/P-521, Ed25519, X25519 and ECDH keys in PKCS #8, RSA in PKCS #1, ECDSA in SEC 1 (also after an EC PARAMETERS block), each encoding also under the PEM label of another one, legacy encrypted PEM (Proc-Type/DEK-Info headers), PKCS #8 ENCRYPTED PRIVATE KEY, public keys, a certificate request, self-signed certificates of every signing key kind - each given to the key AND the certificate decoder in memory and as a file on disk, whole, cut at 12 [thorough: 60] points, before and after a certificate and after text. Load options whose FilePathList is as long as the 16-bit FilePathListLength allows (65535, 65532, 65529 bytes, and 32768) [thorough: 13 lengths from 16384 to 65535], built from a description: regular PCI / USB / hard-drive nodes and ONE last node (vendor-defined, or a PCI node) whose Length field is exact, 4, too long by 1 or 7, reaches exactly to offset 65535, just past it (by 0, 6, 48: where 16-bit offset arithmetic wraps) or is 0xffff, with nothing, an end node or 64 bytes behind the list - through EFILoadOption.Unmarshal, ParseEFILoadOption+ParseDevicePath, Efivarfs.GetBootEntry and efi.GetBootEntry (quick: each description on one of the four in turn, the longest lists all on Unmarshal) - must come back within 1 us per byte + 0.5 s and 64 bytes allocated per input byte + 2 MiB. Lifetime of the process: for 26 input families (GUID text in four spellings, GUID bytes, signature lists / data, descriptors, WIN_CERTIFICATEs, hard-drive load options and paths, descriptions, strings, boot orders, GUID lists, attribute files, PEM certificates and keys with varying text before / inside the block) one worker process decodes 4 x 2500 DIFFERENT inputs of the family one after the other [X.509 / PKCS #8 / boot order: 4 x 500; thorough: x 10] and the live heap after garbage collection may gain at most 32 KiB + 4 bytes per call between the 2500th and the 10000th input (nothing may be kept per distinct input seen), and decodes 8 x 1250 inputs on 8 goroutines at once [thorough: 16 goroutines], half of them the goroutine's own and half common to all (normal build, no race detector): the worker must survive - a recovered panic, a fatal runtime error (concurrent map writes) or any other death of the worker is a violation reported with the family. Non-trivial: non-empty input; distinct = distinct (entry point, input). Static part: the call-graph certificate (see the Lean obligations).",
		Assume: []string{"allocation budget 64 bytes per input byte + 2 MiB; time limit 3 s per input; for the large regular inputs 0.5 s + 1 µs per byte and at most 8 x the time of the same entries split into short lists + 0.1 s", "wall-clock time and resident memory are runtime facts measured on the sampled inputs only"},
		Eval:   c14Eval, Gen: c14Gen,
	})
}
