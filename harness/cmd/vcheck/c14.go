package main

import (
	"bytes"
	"crypto/sha256"
	"encoding/binary"
	"encoding/pem"
	"fmt"
	"hash/crc32"
	"os"
	"path/filepath"
	"strings"
	"time"

	"github.com/foxboron/go-uefi/efi/device"
	"github.com/foxboron/go-uefi/efi/signature"
	"github.com/foxboron/go-uefi/efi/util"
	"github.com/foxboron/go-uefi/efivar"
	"github.com/foxboron/go-uefi/efivarfs/fswrapper"
)

func errCls(err error) string {
	if err != nil {
		return "err"
	}
	return "ok"
}

func init() {
	// decoder entry points for firmware-variable contents and key files (worker side)
	workerOps["sigdb.read"] = func(a map[string]string) (string, string) {
		r, done := streamOf(a["reader"], unhx(a["b"]))
		defer done()
		db, err := signature.ReadSignatureDatabase(r)
		if err == nil {
			db.Bytes()
		}
		return errCls(err), ""
	}
	workerOps["siglist.read"] = func(a map[string]string) (string, string) {
		r, done := streamOf(a["reader"], unhx(a["b"]))
		defer done()
		l, err := signature.ReadSignatureList(r)
		if err == nil && l != nil {
			l.Bytes()
		}
		return errCls(err), ""
	}
	workerOps["sigdata.read"] = func(a map[string]string) (string, string) {
		b := unhx(a["b"])
		var size uint32
		if len(b) >= 4 {
			size = binary.LittleEndian.Uint32(b)
			b = b[4:]
		}
		r, done := streamOf(a["reader"], b)
		defer done()
		_, err := signature.ReadSignatureData(r, size)
		return errCls(err), ""
	}
	workerOps["auth.read"] = func(a map[string]string) (string, string) {
		r, done := streamOf(a["reader"], unhx(a["b"]))
		defer done()
		d, err := signature.ReadEFIVariableAuthencation2(r)
		if err == nil {
			var m bytes.Buffer
			d.Marshal(&m)
		}
		return errCls(err), ""
	}
	workerOps["wincert.read"] = func(a map[string]string) (string, string) {
		r, done := streamOf(a["reader"], unhx(a["b"]))
		defer done()
		_, err := signature.ReadWinCertificate(r)
		return errCls(err), ""
	}
	workerOps["wincertguid.read"] = func(a map[string]string) (string, string) {
		r, done := streamOf(a["reader"], unhx(a["b"]))
		defer done()
		_, err := signature.ReadWinCertificateUEFIGUID(r)
		return errCls(err), ""
	}
	workerOps["loadoption"] = func(a map[string]string) (string, string) {
		var lo device.EFILoadOption
		err := lo.Unmarshal(bytes.NewBuffer(unhx(a["b"])))
		if err == nil {
			for _, p := range lo.FilePath {
				p.Format() // every decoded node renders: a nil entry in the list is a crash for the caller
			}
		}
		return errCls(err), ""
	}
	workerOps["devicepath"] = func(a map[string]string) (string, string) {
		r, done := streamOf(a["reader"], unhx(a["b"]))
		defer done()
		ps, err := device.ParseDevicePath(r)
		if err == nil {
			for _, p := range ps {
				p.Format()
			}
		}
		return errCls(err), ""
	}
	workerOps["utf16"] = func(a map[string]string) (string, string) {
		_, err := util.ParseUtf16Var(bytes.NewBuffer(unhx(a["b"])))
		return errCls(err), ""
	}
	workerOps["efistring"] = func(a map[string]string) (string, string) {
		var s efivar.Efistring
		return errCls(s.Unmarshal(bytes.NewBuffer(unhx(a["b"])))), ""
	}
	workerOps["bootorder"] = func(a map[string]string) (string, string) {
		return bootOrderDecode(unhx(a["b"])), ""
	}
	workerOps["supportedsigs"] = func(a map[string]string) (string, string) {
		r, done := streamOf(a["reader"], unhx(a["b"]))
		defer done()
		_, err := signature.GetSupportedSignatures(r)
		return errCls(err), ""
	}
	workerOps["efivars.parse"] = func(a map[string]string) (string, string) {
		b := unhx(a["b"])
		fw := fswrapper.NewMemoryWrapper()
		r, done := streamOf(a["reader"], b)
		defer done()
		_, _, err := fw.ParseEfivars(r, len(b))
		return errCls(err), ""
	}
	workerOps["guid.parse"] = func(a map[string]string) (string, string) {
		util.StringToGUID(string(unhx(a["b"])))
		return "ok", ""
	}
	workerOps["guid.bytes"] = func(a map[string]string) (string, string) {
		util.BytesToGUID(unhx(a["b"]))
		return "ok", ""
	}
	workerOps["readkey"] = func(a map[string]string) (string, string) {
		_, err := util.ReadKey(unhx(a["b"]))
		return errCls(err), ""
	}
	// the exported node parsers without an error result (known finding F12-wrappers)
	workerOps["node.wrapper"] = func(a map[string]string) (string, string) {
		b := unhx(a["b"])
		if len(b) < 4 {
			return "err", "short"
		}
		hdr := device.EFIDevicePath{Type: device.DevicePathType(b[0]), SubType: device.DevicePathSubType(b[1]), Length: [2]uint8{b[2], b[3]}}
		r := bytes.NewReader(b[4:])
		switch hdr.Type {
		case device.Hardware:
			device.ParseHardwareDevicePath(r, &hdr)
		case device.ACPI:
			device.ParseACPIDevicePath(r, &hdr)
		case device.MessagingDevicePath:
			device.ParseMessagingDevicePath(r, &hdr)
		}
		return "ok", ""
	}
	workerOps["readcert"] = func(a map[string]string) (string, string) {
		_, err := util.ReadCert(unhx(a["b"]))
		return errCls(err), ""
	}
}

// model class of an entry point where a Lean model exists ("" = oracle only)
func c14ModelClass(c *Ctx, ep string, b []byte) string {
	first := func(s string) string { return strings.SplitN(s, " ", 2)[0] }
	switch ep {
	case "sigdb.read":
		r := c.Drv.Ask("sigdb.read", hx(b))
		return first(strings.TrimPrefix(r, "model="))
	case "auth.read":
		r := c.Drv.Ask("auth.read", hx(b))
		return first(strings.TrimPrefix(r, "model="))
	case "wincert.read":
		return first(c.Drv.Ask("wincert.read", hx(b)))
	case "loadoption":
		return first(c.Drv.Ask("boot.option", hx(b)))
	case "utf16":
		return first(c.Drv.Ask("utf16.dec", hx(b)))
	case "efistring":
		return first(c.Drv.Ask("efistring", hx(b)))
	case "bootorder", "guid.parse", "guid.bytes":
		return "ok"
	}
	return ""
}

var c14Worker *Worker

// entry points that take an io.Reader (the others take a *bytes.Buffer, a []byte or a string)
var c14StreamEps = map[string]bool{"sigdb.read": true, "siglist.read": true, "sigdata.read": true, "auth.read": true, "wincert.read": true,
	"wincertguid.read": true, "devicepath": true, "supportedsigs": true, "efivars.parse": true}

// allocation budget: proportional to the input plus a constant for fixed-size buffers and the
// runtime's own bookkeeping (error values, reflection in encoding/binary)
func allocBudget(n int) uint64 { return 64*uint64(n) + (2 << 20) }

// c14Synth builds a large, regular input from its description (the case holds the description, not
// the megabytes): "entries" elements, for signature lists "per" entries in each list (0 = one list).
func c14Synth(cs Case) []byte {
	n, per, size := int(cs.I("entries")), int(cs.I("per")), int(cs.I("size"))
	var out bytes.Buffer
	word := func(i, j int) []byte {
		var k [8]byte
		binary.LittleEndian.PutUint32(k[:], uint32(i))
		binary.LittleEndian.PutUint32(k[4:], uint32(j))
		h := sha256.Sum256(k[:])
		return h[:]
	}
	switch cs.S("gen") {
	case "sha256-lists", "x509-lists":
		typ := tSHA256
		if cs.S("gen") == "x509-lists" {
			typ = tX509
		} else {
			size = 32
		}
		if per <= 0 {
			per = n
		}
		owner := unhx("bd9afa775903324dbd6028f4e78f784b") // one owner for all entries, as in a revocation list
		for i := 0; i < n; i += per {
			var sigs [][2][]byte
			for j := i; j < i+per && j < n; j++ {
				d := []byte{}
				for k := 0; len(d) < size; k++ {
					d = append(d, word(j, k)...)
				}
				sigs = append(sigs, [2][]byte{owner, d[:size]})
			}
			out.Write(encodeList(typ, nil, 16+size, sigs))
		}
	case "bootorder":
		for i := 0; i < n; i++ {
			out.Write([]byte{byte(i), byte(i >> 8)})
		}
	case "guids":
		for i := 0; i < n; i++ {
			out.Write(word(i, 0)[:16])
		}
	case "nodes": // PCI, USB and hard-drive nodes in turn, then the end node
		for i := 0; i < n; i++ {
			switch i % 3 {
			case 0:
				out.Write([]byte{1, 1, 6, 0, byte(i), byte(i >> 8)})
			case 1:
				out.Write([]byte{3, 5, 6, 0, byte(i), byte(i >> 8)})
			default:
				hd := append([]byte{4, 1, 42, 0}, append(word(i, 0), word(i, 1)[:6]...)...)
				hd[4+36], hd[4+37] = 2, 2
				out.Write(hd)
			}
		}
		out.Write([]byte{0x7f, 0xff, 4, 0})
	case "utf16":
		for i := 0; i < n; i++ {
			out.Write([]byte{byte(0x41 + i%26), 0})
		}
		out.Write([]byte{0, 0})
	}
	return out.Bytes()
}

// timeBudgetUs is the absolute time allowed for an n-byte input: 1 µs per byte + 0.5 s (as in C13).
func timeBudgetUs(n int) int64 { return 500000 + int64(n) }

// c14ScaleEval decodes one large regular input and checks that time and memory stay proportional to
// its size: against the absolute budgets, and - for a signature database - against the time the same
// entries take when they are split over many short lists (same entry count, practically the same
// byte count; a decoder whose cost depends on anything but the input size shows as a ratio). Each
// measurement is the best of up to three runs, so a busy machine does not raise a false alarm.
func c14ScaleEval(c *Ctx, cs Case) {
	ep := cs.S("ep")
	b := c14Synth(cs)
	run := func(in []byte, goodUs int64) (wRes, int64) {
		var best wRes
		bestUs := int64(-1)
		for try := 0; try < 3; try++ {
			res := c14Worker.Do(ep, map[string]string{"b": hx(in)}, 20*time.Second)
			us := res.Us
			if us == 0 {
				us = res.Ms * 1000
			}
			if res.Class != "ok" && res.Class != "err" {
				return res, us
			}
			if bestUs < 0 || us < bestUs {
				best, bestUs = res, us
			}
			if bestUs <= goodUs {
				break
			}
		}
		return best, bestUs
	}
	res, us := run(b, 20000)
	c.Count(cs.Key(), true, "scale/"+ep+"/"+cs.S("gen")+"/"+res.Class)
	c.Sample(cs)
	fail := func(what string) {
		c.Fail(Failure{Kind: "property", What: ep + ": " + what, Case: cs, Go: fmt.Sprintf("%s alloc=%d us=%d %s%s", res.Class, res.Alloc, us, res.Panic, res.Out)})
	}
	switch res.Class {
	case "ok", "err":
	case "timeout":
		fail(fmt.Sprintf("decoding a %d-byte input did not finish in 20 s", len(b)))
		return
	default:
		fail(fmt.Sprintf("decoding a %d-byte input ended as %s", len(b), res.Class))
		return
	}
	if want := cs.S("want"); want != "" && res.Class != want {
		// the generator's own inputs are well-formed: an error here means the timing compares nothing
		fail(fmt.Sprintf("a well-formed %d-byte input was not decoded (%s)", len(b), res.Class))
	}
	if res.Alloc > allocBudget(len(b)) {
		fail(fmt.Sprintf("allocated %d bytes for a %d-byte input", res.Alloc, len(b)))
	}
	if us > timeBudgetUs(len(b)) {
		fail(fmt.Sprintf("took %d µs for a %d-byte input (limit %d µs: time must be proportional to the input size)", us, len(b), timeBudgetUs(len(b))))
	}
	if split := cs.I("split"); split > 0 {
		twin := Case{}
		for k, v := range cs {
			twin[k] = v
		}
		twin["per"] = split
		tb := c14Synth(twin)
		_, tus := run(tb, us/4)
		c.Note("scale/"+ep+"/"+cs.S("gen")+fmt.Sprintf("/%d", cs.I("entries")), fmt.Sprintf("one list: %d bytes %d µs; lists of %d: %d bytes %d µs", len(b), us, split, len(tb), tus))
		if tus >= 0 && us > 8*tus+100000 {
			fail(fmt.Sprintf("took %d µs for %d entries in one list (%d bytes) but %d µs for the same entries in lists of %d (%d bytes): decoding time depends on more than the input size", us, cs.I("entries"), len(b), tus, split, len(tb)))
		}
	}
}

func c14Eval(c *Ctx, cs Case) {
	ep := cs.S("ep")
	b := unhx(cs.S("b"))
	if c14Worker == nil {
		c14Worker = c.NewWorker(3<<20, "GOMEMLIMIT=2GiB")
		c14Worker.MaxTimeouts = 3 // a library that hangs on every input costs 3 timeouts, not one per input
	}
	if cs.S("gen") != "" {
		c14ScaleEval(c, cs)
		return
	}
	res := c14Worker.Do(ep, map[string]string{"b": hx(b), "reader": cs.S("reader")}, 10*time.Second)
	if res.Class == "not-run" { // the worker gave up after repeated timeouts, which are reported
		c.Class("decode/" + ep + "/not-run-after-timeouts")
		return
	}
	c.Count(cs.Key(), len(b) > 0, "decode/"+ep+"/"+cs.S("class")+"/"+res.Class)
	if len(b) < 80 {
		c.Sample(cs)
	}
	fail := func(what, matcher string) {
		c.Fail(Failure{Kind: "property", Matcher: matcher, What: ep + ": " + what, Case: cs, Go: fmt.Sprintf("%s alloc=%d ms=%d %s%s", res.Class, res.Alloc, res.Ms, res.Panic, res.Out)})
	}
	site := cs.S("site")
	switch res.Class {
	case "ok", "err":
		if res.Alloc > allocBudget(len(b)) {
			fail(fmt.Sprintf("allocated %d bytes for a %d-byte input", res.Alloc, len(b)), "c14.alloc/"+ep)
		}
		if res.Ms > 3000 {
			fail(fmt.Sprintf("took %d ms for a %d-byte input", res.Ms, len(b)), "")
		}
	case "panic":
		fail("decoding panicked", "c14.panic/"+ep+"/"+site)
	case "exit":
		m := "c14.exit/" + ep + "/" + site
		if ep == "node.wrapper" {
			m = "c14.static/device-wrappers"
		}
		fail("decoding terminated the process (log.Fatal / os.Exit)", m)
	case "oom":
		fail(fmt.Sprintf("decoding a %d-byte input ran out of memory (allocation unrelated to the input size)", len(b)), "c14.alloc/"+ep)
	case "timeout":
		fail(fmt.Sprintf("decoding did not finish: no answer %d ms after a %d-byte input was handed over, the worker was killed", res.Ms, len(b)), "c14.hang/"+ep)
	}
	if m := c14ModelClass(c, ep, b); m != "" {
		c.Trace()
		got := res.Class
		if got == "oom" {
			got = "err" // the model charges the allocation to its cost, not to its outcome class
		}
		if m != got && !(res.Class == "oom") {
			c.Fail(Failure{Kind: "tie", What: ep + ": outcome class differs from the Lean model", Case: cs, Model: m, Go: res.Class})
		}
	}
}

// loadOptionNodeOffsets walks a well-formed load option (attributes, path-list length, NUL-terminated
// UTF-16 description, device-path nodes chained by their Length fields) and returns where each node starts.
func loadOptionNodeOffsets(lo []byte) []int {
	p := 6
	for p+1 < len(lo) && !(lo[p] == 0 && lo[p+1] == 0) {
		p += 2
	}
	p += 2
	var offs []int
	for p+4 <= len(lo) {
		offs = append(offs, p)
		l := int(binary.LittleEndian.Uint16(lo[p+2:]))
		if l < 4 || lo[p] == 0x7f {
			break
		}
		p += l
	}
	return offs
}

func bootOrderDecode(b []byte) string {
	// the unexported bootorder type is reached through GetBootOrder on an in-memory store
	return bootOrderVia(b)
}

func c14Gen(c *Ctx) {
	defer func() {
		if c14Worker != nil {
			c14Worker.Close()
			c14Worker = nil
		}
	}()
	emit := func(ep, class, site string, b []byte) {
		if c.NFailures() < 40 {
			cs := Case{"op": "decode", "ep": ep, "class": class, "site": site, "b": hx(b)}
			if c14StreamEps[ep] {
				// the decoders that take an io.Reader get the input through one of the reader kinds callers
				// use; the kind is a function of the case, so that replays are exact, and the size-field
				// sweeps (same length, different values) spread over all kinds
				cs["reader"] = streamKinds[int(crc32.ChecksumIEEE([]byte(ep+class+cs.S("b")))%uint32(len(streamKinds)))]
			}
			c14Eval(c, cs)
		}
	}
	u := newC09Universe(c)
	sha := encodeList(tSHA256, nil, 48, [][2][]byte{{u.owners[0], u.data[0]}, {u.owners[1], u.data[1]}})
	x5 := encodeList(tX509, nil, len(u.data[4])+16, [][2][]byte{{u.owners[0], u.data[4]}})
	// --- signature lists / databases: every size field, truncations ---
	for _, seed := range [][]byte{sha, x5, append(append([]byte{}, sha...), x5...)} {
		for _, ep := range []string{"sigdb.read", "siglist.read"} {
			emit(ep, "valid", "", seed)
			for _, off := range []int{16, 20, 24} {
				for _, v := range []uint32{0, 1, 15, 16, 17, 27, 28, 29, 47, 48, 49, 1 << 16, 1 << 24, 1 << 31, 0xffffffff, 0xfffffff0, 0x80000010} {
					emit(ep, fmt.Sprintf("field@%d", off), "", putU32(seed, off, v))
				}
			}
			// a consistent header that promises a huge signature
			big := append([]byte{}, seed[:28]...)
			binary.LittleEndian.PutUint32(big[16:], 28+0x7ffffff0)
			binary.LittleEndian.PutUint32(big[24:], 0x7ffffff0)
			emit(ep, "huge-consistent", "", big)
			// a consistent header that promises many signatures of the list's own size (ListSize =
			// 28 + n * SignatureSize) over an input that holds one or two: any allocation sized by the
			// declared count is unrelated to the input size
			sz := binary.LittleEndian.Uint32(seed[24:])
			for _, n := range []uint32{1 << 12, 1 << 16, 1 << 21, (0xffffffff - 28) / sz} {
				if uint64(28)+uint64(n)*uint64(sz) > 0xffffffff {
					continue
				}
				many := append([]byte{}, seed...)
				binary.LittleEndian.PutUint32(many[16:], 28+n*sz)
				emit(ep, "many-consistent", "", many)
				emit(ep, "many-consistent", "", many[:28+int(sz)])
			}
			for cut := 0; cut < len(seed); cut += 1 + len(seed)/40 {
				emit(ep, "truncated", "", seed[:cut])
			}
		}
	}
	// --- size scaling: one LONG regular input per repetitive format (a revocation list of tens of
	// thousands of hashes in ONE list, the same entries in lists of 64, certificates-sized entries, a
	// long boot order / GUID list / device path / string); time and memory must follow the byte count
	scale := func(ep, gen, want string, entries, size, split int) {
		if c.NFailures() < 40 {
			c14Eval(c, Case{"op": "scale", "ep": ep, "gen": gen, "want": want, "entries": entries, "size": size, "per": 0, "split": split})
		}
	}
	for _, n := range []int{c.P(4096, 16384), c.P(20000, 80000)} {
		scale("sigdb.read", "sha256-lists", "ok", n, 32, 64)
		scale("siglist.read", "sha256-lists", "ok", n, 32, 0) // reads one list only: no split twin
		scale("sigdb.read", "x509-lists", "ok", n/4, 600, 16)
	}
	scale("bootorder", "bootorder", "", c.P(30000, 32767), 0, 0)
	scale("supportedsigs", "guids", "", c.P(20000, 100000), 0, 0)
	scale("devicepath", "nodes", "ok", c.P(20000, 100000), 0, 0)
	scale("utf16", "utf16", "ok", c.P(200000, 2000000), 0, 0)
	scale("efistring", "utf16", "ok", c.P(200000, 2000000), 0, 0)
	for _, sz := range []uint32{0, 1, 15, 16, 17, 48, 1 << 20, 1 << 31, 0xffffffff} {
		for _, n := range []int{0, 8, 16, 17, 48, 100} {
			b := make([]byte, 4)
			binary.LittleEndian.PutUint32(b, sz)
			emit("sigdata.read", fmt.Sprintf("size=%d", sz), "", append(b, randBytes(c, n)...))
		}
	}
	// --- descriptors / WIN_CERTIFICATEs: short input, dwLength < 8 and huge, wrong type ---
	pk7 := wireGUID(signature.EFI_CERT_TYPE_PKCS7_GUID)
	desc := mkAuth(randBytes(c, 16), 24+10, 0x0200, 0x0EF1, pk7, randBytes(c, 10), []byte("payload"))
	for _, ep := range []string{"auth.read"} {
		emit(ep, "valid", "", desc)
		for cut := 0; cut <= len(desc); cut++ {
			site := "short-body"
			if cut < 16 {
				site = "short-time"
			}
			emit(ep, "truncated", site, desc[:cut])
		}
		for _, v := range []uint32{0, 1, 7, 8, 9, 23, 24, 25, 1 << 20, 1 << 31, 0xffffffff} {
			site := ""
			if v >= 8 && v < 24 {
				site = "short-body"
			}
			emit(ep, "dwLength", site, putU32(desc, 16, v))
		}
		for _, t := range []uint16{0, 2, 0x0EF0, 0xffff} {
			m := append([]byte{}, desc...)
			binary.LittleEndian.PutUint16(m[22:], t)
			emit(ep, "cert-type", "wrong-type", m)
		}
	}
	wc := desc[16:]
	for _, ep := range []string{"wincert.read", "wincertguid.read"} {
		emit(ep, "valid", "", wc)
		for cut := 0; cut <= len(wc); cut += 1 {
			site := ""
			if ep == "wincertguid.read" {
				site = "short-body"
			}
			emit(ep, "truncated", site, wc[:cut])
		}
		for _, v := range []uint32{0, 1, 7, 8, 9, 23, 24, 1 << 20, 1 << 31, 0xffffffff} {
			site := ""
			if ep == "wincertguid.read" && v >= 8 && v < 24 {
				site = "short-body"
			}
			emit(ep, "dwLength", site, putU32(wc, 0, v))
		}
	}
	// --- load options and device paths ---
	var los [][]byte
	ms, _ := filepath.Glob(filepath.Join(c.RepoDir, "tests/data/boot/Boot*"))
	for i, m := range ms {
		if b, err := os.ReadFile(m); err == nil && len(b) > 4 && i%4 == 0 {
			los = append(los, b[4:])
		}
	}
	for i := 0; i < 4; i++ {
		g := genOption(c)
		if r := c.Drv.Ask("boot.encode", fmt.Sprint(g.I("attrs")), fmt.Sprint(g.I("len")), g.S("desc"), g.S("nodes")); r != "bad-op" {
			los = append(los, unhx(r))
		}
	}
	for _, lo := range los {
		emit("loadoption", "valid", "", lo)
		for cut := 0; cut < len(lo); cut += 1 + len(lo)/60 {
			emit("loadoption", "truncated", "devicepath", lo[:cut])
		}
		// without the end node
		if len(lo) > 4 {
			emit("loadoption", "no-end-node", "devicepath", lo[:len(lo)-4])
		}
		for i := 0; i < c.N(20, 300); i++ {
			m := append([]byte{}, lo...)
			m[c.Rng.Intn(len(m))] = byte(c.Rng.Intn(256))
			emit("loadoption", "byteset", "devicepath", m)
		}
	}
	// every node's Length field set to each value below the 4-byte node header, to one less / one more
	// than it was and to the maximum: a decoder that sizes anything by the declared node length must
	// cope with a length that does not even cover the header
	for _, lo := range los {
		for _, off := range loadOptionNodeOffsets(lo) {
			orig := int(binary.LittleEndian.Uint16(lo[off+2:]))
			for _, l := range []int{0, 1, 2, 3, orig - 1, orig + 1, 0xffff} {
				if l < 0 || l > 0xffff {
					continue
				}
				m := append([]byte{}, lo...)
				binary.LittleEndian.PutUint16(m[off+2:], uint16(l))
				emit("loadoption", "node-length", "devicepath", m)
			}
		}
	}
	// every node type / subtype with too little data, and every partition-format byte
	for ty := 0; ty < 6; ty++ {
		for sub := 0; sub < 12; sub++ {
			for _, n := range []int{0, 1, 3, 7, 15, 37, 38} {
				emit("devicepath", fmt.Sprintf("node-%d-%d", ty, sub), "devicepath", append([]byte{byte(ty), byte(sub), 4, 0}, randBytes(c, n)...))
				emit("devicepath", fmt.Sprintf("node-%d-%d+end", ty, sub), "devicepath", append(append([]byte{byte(ty), byte(sub), 4, 0}, randBytes(c, n)...), 0x7f, 0xff, 4, 0))
			}
			// the same node kinds with a declared Length of 0..3 (smaller than the node header itself),
			// of exactly header + data, and of 0xffff, over no data / a NUL-terminated body / a full body
			for _, body := range [][]byte{nil, {0x41, 0, 0, 0}, randBytes(c, 38)} {
				for _, l := range []int{0, 1, 2, 3, 4 + len(body), 0xffff} {
					node := append([]byte{byte(ty), byte(sub), byte(l), byte(l >> 8)}, body...)
					emit("devicepath", fmt.Sprintf("node-%d-%d/length", ty, sub), "devicepath", node)
					emit("devicepath", fmt.Sprintf("node-%d-%d/length+end", ty, sub), "devicepath", append(node, 0x7f, 0xff, 4, 0))
				}
			}
		}
	}
	for f := 0; f < 256; f += 1 {
		hd := append([]byte{4, 1, 42, 0}, randBytes(c, 38)...)
		hd[4+36] = byte(f)
		hd[4+37] = byte(c.Rng.Intn(4))
		emit("devicepath", "partition-format", "hd-format", append(hd, 0x7f, 0xff, 4, 0))
	}
	// the exported node parsers (no error result): truncated nodes — re-confirms the known finding
	for _, hdr := range [][]byte{{1, 1, 6, 0}, {2, 1, 12, 0}, {2, 2, 12, 0}, {3, 5, 6, 0}, {3, 10, 20, 0}} {
		emit("node.wrapper", "truncated-node", "device-wrappers", append(append([]byte{}, hdr...), 0x01))
		emit("node.wrapper", "complete-node", "", append(append([]byte{}, hdr...), randBytes(c, 16)...))
	}
	// --- strings, boot order, GUID lists, attribute-prefixed files, GUID text ---
	for _, b := range [][]byte{nil, {0}, {0, 0}, {0x41}, {0x41, 0}, {0x41, 0, 0, 0}, {0, 0xd8}, {0, 0xd8, 0, 0}, bytes.Repeat([]byte{0x41, 0}, 5000)} {
		emit("utf16", "edge", "", b)
		emit("efistring", "edge", "", b)
	}
	for i := 0; i < c.N(100, 5000); i++ {
		b := randBytes(c, c.Rng.Intn(40))
		emit("utf16", "random", "", b)
		emit("efistring", "random", "", b)
		emit("bootorder", "random", "", b)
		emit("supportedsigs", "random", "", b)
		emit("efivars.parse", "random", "", b)
		emit("guid.parse", "random", "", b)
		emit("guid.bytes", "random", "", b)
	}
	for n := 0; n < 70; n++ {
		emit("supportedsigs", "length", "", randBytes(c, n))
		emit("efivars.parse", "length", "", randBytes(c, n%9))
		emit("bootorder", "length", "", randBytes(c, n%7))
	}
	// --- PEM keys and certificates ---
	pemCert := pemOf(u.data[4])
	for _, ep := range []string{"readkey", "readcert"} {
		emit(ep, "valid-cert-pem", "", pemCert)
		emit(ep, "empty", "", nil)
		emit(ep, "not-pem", "", []byte("hello"))
		for cut := 0; cut < len(pemCert); cut += 1 + len(pemCert)/30 {
			emit(ep, "truncated", "", pemCert[:cut])
		}
		for i := 0; i < c.N(30, 500); i++ {
			m := append([]byte{}, pemCert...)
			m[c.Rng.Intn(len(m))] = byte(c.Rng.Intn(256))
			emit(ep, "byteset", "", m)
		}
	}
	// files with several PEM blocks, other block types, text between and around the blocks
	blk := func(typ string, body []byte) []byte { return pem.EncodeToMemory(&pem.Block{Type: typ, Bytes: body}) }
	keyBlk := blk("PRIVATE KEY", randBytes(c, 120))
	bundles := map[string][]byte{
		"key+cert":         append(append([]byte{}, keyBlk...), pemCert...),
		"cert+key":         append(append([]byte{}, pemCert...), keyBlk...),
		"cert+cert":        append(append([]byte{}, pemCert...), pemOf(u.data[7])...),
		"unknown+cert":     append(blk("X509 CRL", randBytes(c, 40)), pemCert...),
		"unknown+unknown":  append(blk("FOO", []byte{1}), blk("BAR", []byte{2})...),
		"three-keys":       append(append(append([]byte{}, keyBlk...), keyBlk...), keyBlk...),
		"text+cert+text":   append(append([]byte("Bag Attributes\n  friendlyName: x\n"), pemCert...), []byte("\ntrailing text\n")...),
		"key+garbage":      append(append([]byte{}, keyBlk...), []byte("-----BEGIN CERTIFICATE-----\nnot base64 at all\n")...),
		"empty-block+cert": append(blk("CERTIFICATE", nil), pemCert...),
		"headers+cert":     append(pem.EncodeToMemory(&pem.Block{Type: "RSA PRIVATE KEY", Headers: map[string]string{"Proc-Type": "4,ENCRYPTED"}, Bytes: randBytes(c, 64)}), pemCert...),
	}
	for name, b := range bundles {
		for _, ep := range []string{"readkey", "readcert"} {
			emit(ep, "bundle/"+name, "", b)
			emit(ep, "bundle/"+name+"/cut", "", b[:len(b)-1-c.Rng.Intn(len(b)/2)])
		}
	}
	if kb, err := os.ReadFile(filepath.Join(c.RepoDir, "authenticode/testdata/db.key")); err == nil {
		emit("readkey", "valid-key", "", kb)
		emit("readkey", "bundle/cert+real-key", "", append(append([]byte{}, pemCert...), kb...))
		emit("readcert", "bundle/real-key+cert", "", append(append([]byte{}, kb...), pemCert...))
		for cut := 0; cut < len(kb); cut += 1 + len(kb)/30 {
			emit("readkey", "truncated", "", kb[:cut])
		}
	}
}

func init() {
	register("C14", &PropDef{
		Rule:   "17 decoder entry points (ReadSignatureDatabase/List/Data, ReadEFIVariableAuthencation2, ReadWinCertificate(UEFIGUID), EFILoadOption.Unmarshal + Format, ParseDevicePath + Format, ParseUtf16Var, Efistring, boot order, GetSupportedSignatures, ParseEfivars, StringToGUID, BytesToGUID, ReadKey, ReadCert) run in a sandboxed worker process (address-space limit, per-input timeout, runtime.MemStats.TotalAlloc delta). The 9 entry points that take an io.Reader get every input through one of 8 reader kinds chosen by a hash of the case (bytes.Reader, bytes.Buffer, bufio.Reader, io.SectionReader, an open os.File, io.Pipe, a reader with no method but Read, a one-byte reader). Inputs: every size field of lists / descriptors / certificates swept over {0,1,7,8,15,16,17,23,24,27,28,29,2^16,2^24,2^31,2^32-1,...}, consistent headers promising one 2 GiB signature or 2^12..2^26 signatures of the list's own size, every truncation point, captured and generated load options cut everywhere / without end node / byte-mutated, every device-path (type, subtype) with 0..38 bytes of data and with a declared node Length of 0..3 (below the 4-byte node header) / exact / 0xffff, every node Length of the captured and generated load options set to 0..3, +-1 and 0xffff, every partition-format byte, size scaling (one signature list of 4096 and of 20000 SHA-256 entries [thorough: 16384 / 80000], 1000 / 5000 certificate-sized entries in one list, each also split into lists of 64 / 16 entries of the same total size; a boot order of 30000 entries, 20000 GUIDs, a device path of 20000 nodes, a string of 200000 characters: time <= 0.5 s + 1 µs/byte, memory budget, and one-list time <= 8 x split time + 0.1 s, best of 3 runs), UTF-16 edge cases, random short inputs, PEM material cut and mutated, files with several PEM blocks (key+certificate in both orders, unknown block types, headers, text around the blocks, empty blocks). Non-trivial: non-empty input; distinct = distinct (entry point, input). Static part: the call-graph certificate (see the Lean obligations).",
		Assume: []string{"allocation budget 64 bytes per input byte + 2 MiB; time limit 3 s per input; for the large regular inputs 0.5 s + 1 µs per byte and at most 8 x the time of the same entries split into short lists + 0.1 s", "wall-clock time and resident memory are runtime facts measured on the sampled inputs only"},
		Eval:   c14Eval, Gen: c14Gen,
	})
}
