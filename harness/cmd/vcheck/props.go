package main

import (
	"encoding/json"
	"fmt"
	"os"
	"path/filepath"
	"sort"
)

// Case is one generated input / history / schedule. It always has an "op" field and is what is
// written into replay files and the corpus.
type Case map[string]interface{}

func (c Case) S(k string) string {
	if v, ok := c[k].(string); ok {
		return v
	}
	return ""
}
func (c Case) I(k string) int64 {
	switch v := c[k].(type) {
	case float64:
		return int64(v)
	case int:
		return int64(v)
	case int64:
		return v
	case uint32:
		return int64(v)
	case uint64:
		return int64(v)
	case json.Number:
		n, _ := v.Int64()
		return n
	}
	return 0
}
func (c Case) Key() string { b, _ := json.Marshal(c); return string(b) }

type PropDef struct {
	Rule   string
	Assume []string
	Eval   func(*Ctx, Case) // evaluate one case: Go observation, model, oracle; records into ctx
	Gen    func(*Ctx)       // generate cases and call Eval
}

var props = map[string]*PropDef{}

var replayCases []Case

func replayInto(c *Ctx, path string) {
	b, err := os.ReadFile(path)
	if err != nil {
		fmt.Fprintf(os.Stderr, "replay: %v\n", err)
		os.Exit(2)
	}
	var doc struct {
		Failures []struct {
			Case Case `json:"case"`
		} `json:"failures"`
		Tie []struct {
			Case Case `json:"case"`
		} `json:"tie_disagreements"`
		Cases []Case `json:"cases"`
	}
	if err := json.Unmarshal(b, &doc); err != nil {
		fmt.Fprintf(os.Stderr, "replay: %v\n", err)
		os.Exit(2)
	}
	for _, f := range doc.Failures {
		replayCases = append(replayCases, f.Case)
	}
	for _, f := range doc.Tie {
		replayCases = append(replayCases, f.Case)
	}
	replayCases = append(replayCases, doc.Cases...)
	// several failures of one case: the case is evaluated once
	seen := map[string]bool{}
	uniq := replayCases[:0]
	for _, cs := range replayCases {
		if k := cs.Key(); !seen[k] {
			seen[k] = true
			uniq = append(uniq, cs)
		}
	}
	replayCases = uniq
	if len(replayCases) == 0 {
		fmt.Fprintln(os.Stderr, "replay: file holds no cases (a no-failing-input-found replay names the broken obligation instead)")
	}
}

func loadCorpus(c *Ctx) []Case {
	dir := filepath.Join(c.VerifDir, "corpus", c.Prop)
	ents, _ := os.ReadDir(dir)
	names := []string{}
	for _, e := range ents {
		if filepath.Ext(e.Name()) == ".json" {
			names = append(names, e.Name())
		}
	}
	sort.Strings(names)
	var out []Case
	for _, n := range names {
		b, err := os.ReadFile(filepath.Join(dir, n))
		if err != nil {
			continue
		}
		// a corpus file is a list of cases, or a replay file kept as it was written (the cases of its failures and
		// model disagreements): both run
		var doc struct {
			Cases    []Case `json:"cases"`
			Failures []struct {
				Case Case `json:"case"`
			} `json:"failures"`
			Tie []struct {
				Case Case `json:"case"`
			} `json:"tie_disagreements"`
		}
		if json.Unmarshal(b, &doc) == nil {
			out = append(out, doc.Cases...)
			if len(doc.Cases) == 0 {
				for _, f := range doc.Failures {
					if f.Case != nil {
						out = append(out, f.Case)
					}
				}
				for _, f := range doc.Tie {
					if f.Case != nil {
						out = append(out, f.Case)
					}
				}
			}
		}
	}
	// one evaluation per distinct case
	seen := map[string]bool{}
	uniq := out[:0]
	for _, cs := range out {
		if k := cs.Key(); !seen[k] {
			seen[k] = true
			uniq = append(uniq, cs)
		}
	}
	return uniq
}

func init() {
	for id := range props {
		_ = id
	}
}

// runProp is the common runner: replay cases only, or corpus first and then the generator.
func runProp(id string) func(*Ctx) {
	return func(c *Ctx) {
		p := props[id]
		c.Rule = p.Rule
		c.Assume = p.Assume
		if len(replayCases) > 0 {
			for _, cs := range replayCases {
				p.Eval(c, cs)
			}
			return
		}
		if c.Shard == 0 { // the corpus of past failures runs first, in one shard only
			corpus := loadCorpus(c)
			for _, cs := range corpus {
				p.Eval(c, cs)
			}
			c.Note("corpus_cases", len(corpus))
		}
		p.Gen(c)
	}
}

func register(id string, p *PropDef) {
	props[id] = p
	runners[id] = runProp(id)
}

// safely runs f and reports whether it panicked.
func safely(f func()) (panicked bool, msg string) {
	defer func() {
		if r := recover(); r != nil {
			panicked = true
			msg = fmt.Sprint(r)
		}
	}()
	f()
	return
}
