package main

import (
	"io"
	"sync"
	"time"
)

// Deterministic interleavings of goroutines that use library objects at the same time.
//
// The library reads every image through an io.ReaderAt the caller supplies. A turnReader reports each ReadAt
// to a turnSched before it is served; the scheduler lets exactly ONE of the goroutines of a run proceed at a
// time and, at the reads named by a schedule, parks the running goroutine inside that read and hands the turn
// to the next one. A goroutine that is parked inside a read is in the middle of a library call (Hash, Sign,
// Verify, Signatures, Bytes ...), so the other goroutines' calls overlap with it in time - at a point that is
// a function of the schedule, not of the machine's timing. Every hand-over goes through a channel, so each
// run is one legal sequentially consistent execution of the concurrent program; it is the same on every run
// and is replayed exactly from the case (the schedule is part of it).
//
// A schedule is a list of quanta, used cyclically. The goroutine whose turn it is passes `quantum` reads and
// is parked on arriving at the next one (quantum 0: at the first read it reaches; the read it was parked in is
// served when it gets the turn back and is not counted again). Goroutine 0 starts, the others start when they
// get their first turn; when a goroutine's call returns the turn goes to the next unfinished one.
//
// The library takes no locks today. Should it come to take one, a goroutine could wait for a lock held by a
// parked one: then nobody arrives at a read, the parked goroutine's wait times out, and the run continues
// without parking (free = true; reported in the evidence). The oracles are about results, so that is never a
// false alarm, only a run that explored less.
type turnSched struct {
	mu      sync.Mutex
	armed   bool
	free    bool
	cur     int
	left    int
	quanta  []int
	qi      int
	wake    []chan struct{}
	done    []bool
	parks   int
	timeout time.Duration
}

type turnReader struct {
	inner io.ReaderAt
	s     *turnSched
}

func (r turnReader) ReadAt(p []byte, off int64) (int, error) {
	r.s.arrive()
	return r.inner.ReadAt(p, off)
}

func newTurnSched() *turnSched { return &turnSched{timeout: 10 * time.Second} }

func (s *turnSched) nextQuantum() int {
	if len(s.quanta) == 0 {
		return 0
	}
	q := s.quanta[s.qi%len(s.quanta)]
	s.qi++
	if q < 0 {
		q = 0
	}
	return q
}

// nextLive: the next unfinished goroutine after me (round robin), me when there is no other
func (s *turnSched) nextLive(me int) int {
	for d := 1; d < len(s.done); d++ {
		if j := (me + d) % len(s.done); !s.done[j] {
			return j
		}
	}
	return me
}

func (s *turnSched) signal(i int) {
	select {
	case s.wake[i] <- struct{}{}:
	default:
	}
}

func (s *turnSched) await(ch chan struct{}) {
	t := time.NewTimer(s.timeout)
	defer t.Stop()
	select {
	case <-ch:
	case <-t.C:
		s.mu.Lock()
		s.free = true
		s.mu.Unlock()
	}
}

// arrive is called by the running goroutine at the entry of a read
func (s *turnSched) arrive() {
	s.mu.Lock()
	if !s.armed || s.free {
		s.mu.Unlock()
		return
	}
	if s.left > 0 {
		s.left--
		s.mu.Unlock()
		return
	}
	me := s.cur
	next := s.nextLive(me)
	if next == me { // the last one running
		s.left = 1 << 30
		s.mu.Unlock()
		return
	}
	s.cur, s.left = next, s.nextQuantum()
	s.parks++
	mine := s.wake[me]
	s.mu.Unlock()
	s.signal(next)
	s.await(mine)
}

func (s *turnSched) finish(i int) {
	s.mu.Lock()
	s.done[i] = true
	if s.free || s.cur != i {
		s.mu.Unlock()
		return
	}
	next := s.nextLive(i)
	if next == i {
		s.mu.Unlock()
		return
	}
	s.cur, s.left = next, s.nextQuantum()
	s.mu.Unlock()
	s.signal(next)
}

// run executes the calls concurrently under the schedule and returns how often a goroutine was parked inside a
// read (0: the calls did not overlap - none of them reads, or the first finished within its first quantum) and
// whether the schedule had to be abandoned.
func (s *turnSched) run(quanta []int, calls ...func()) (parks int, free bool) {
	n := len(calls)
	s.mu.Lock()
	s.armed, s.free, s.cur, s.qi, s.quanta, s.parks = true, false, 0, 0, quanta, 0
	s.left = s.nextQuantum()
	s.wake, s.done = make([]chan struct{}, n), make([]bool, n)
	for i := range s.wake {
		s.wake[i] = make(chan struct{}, 1)
	}
	s.mu.Unlock()
	var wg sync.WaitGroup
	for i := range calls {
		wg.Add(1)
		go func(i int) {
			defer wg.Done()
			if i != 0 {
				s.await(s.wake[i])
			}
			defer s.finish(i)
			calls[i]()
		}(i)
	}
	wg.Wait()
	s.mu.Lock()
	defer s.mu.Unlock()
	s.armed = false
	return s.parks, s.free
}
