package main

import (
	"bytes"
	"encoding/binary"
	"fmt"
	"io"
	"regexp"
	"strconv"
	"strings"
	"testing/iotest"
	"unicode/utf16"
	"unicode/utf8"

	"github.com/foxboron/go-uefi/efi"
	"github.com/foxboron/go-uefi/efi/attributes"
	efs "github.com/foxboron/go-uefi/efi/fs"
	"github.com/foxboron/go-uefi/efi/signature"
	"github.com/foxboron/go-uefi/efi/util"
	"github.com/foxboron/go-uefi/efivar"
	"github.com/foxboron/go-uefi/efivarfs"
	"github.com/foxboron/go-uefi/efivarfs/fswrapper"
	"github.com/spf13/afero"
)

const efivarsDir = "/sys/firmware/efi/efivars"

// withLegacyFs runs f with the package-level API (efi.*, attributes.*) reading and writing mem
func withLegacyFs(mem afero.Fs, f func()) {
	oldDir, oldFs := attributes.Efivars, efs.Fs
	attributes.Efivars = efivarsDir
	efs.SetFS(mem)
	defer func() {
		attributes.Efivars = oldDir
		efs.SetFS(oldFs)
	}()
	f()
}

// c17GuidStructures: "inside encoded structures a GUID is Data1, Data2, Data3 little-endian followed by Data4" and
// "parsing the 16 bytes returns the same GUID", through the library's own structure encoders and decoders (the
// expected bytes are put together here, from the statement): the owner of an EFI_SIGNATURE_DATA, the type and the owner
// in an EFI_SIGNATURE_LIST, the SignatureSupport array, the CertType of a WIN_CERTIFICATE_UEFI_GUID alone and inside an
// EFI_VARIABLE_AUTHENTICATION_2; the other spellings of the big-endian byte form (g.Bytes, WriteGUID); and the text as
// the name of the variable file (a variable stored under <name>-<canonical text> is the one read and written by GUID,
// through the filesystem wrapper and through the package-level API).
func c17GuidStructures(c *Ctx, cs Case, g util.EFIGUID, wantBE, wantWire []byte, fail func(what, goObs, spec string)) {
	if b := g.Bytes(); !bytes.Equal(b, wantBE) {
		fail("g.Bytes() is not the big-endian byte form", hx(b), hx(wantBE))
	}
	wb := bytes.NewBuffer([]byte{0xee})
	util.WriteGUID(wb, &g)
	if want := append([]byte{0xee}, wantBE...); !bytes.Equal(wb.Bytes(), want) {
		fail("WriteGUID does not append the big-endian byte form to the buffer", hx(wb.Bytes()), hx(want))
	}
	data := bytes.Repeat([]byte{0x5a}, 32)
	le32 := func(v uint32) []byte { return []byte{byte(v), byte(v >> 8), byte(v >> 16), byte(v >> 24)} }
	cat := func(parts ...[]byte) []byte { return bytes.Join(parts, nil) }
	guard := func(what string, f func()) {
		if p, msg := safely(f); p {
			fail(what+" panicked", msg, "")
		}
	}
	guard("signature data", func() {
		want := cat(wantWire, data)
		sd := signature.SignatureData{Owner: g, Data: data}
		if b := sd.Bytes(); !bytes.Equal(b, want) {
			fail("SignatureData.Bytes: the owner GUID is not Data1,Data2,Data3 little-endian then Data4", hx(b), hx(want))
		}
		if back, err := signature.ReadSignatureData(bytes.NewReader(want), 48); err != nil || back.Owner != g {
			fail("ReadSignatureData does not return the owner GUID that is encoded", fmt.Sprint(err, " ", guidStr(back.Owner)), guidStr(g))
		}
	})
	guard("signature list", func() {
		if b := signature.NewSignatureList(g).Bytes(); len(b) < 16 || !bytes.Equal(b[:16], wantWire) {
			fail("SignatureList.Bytes: the SignatureType GUID is not Data1,Data2,Data3 little-endian then Data4", hx(b), hx(wantWire))
		}
		want := cat(tSHA256, le32(28+48), le32(0), le32(48), wantWire, data)
		sl := signature.NewSignatureList(signature.CERT_SHA256_GUID)
		if err := sl.AppendBytes(g, data); err != nil {
			fail("AppendBytes of a SHA-256 entry to an empty SHA-256 list failed", err.Error(), "")
		} else if b := sl.Bytes(); !bytes.Equal(b, want) {
			fail("SignatureList.Bytes: a SHA-256 list with one entry owned by g is not header ++ wire(g) ++ data", hx(b), hx(want))
		}
		rl, err := signature.ReadSignatureList(bytes.NewReader(want))
		if err != nil || rl == nil || len(rl.Signatures) != 1 || rl.Signatures[0].Owner != g || rl.SignatureType != signature.CERT_SHA256_GUID {
			fail("ReadSignatureList does not return the type and owner GUIDs that are encoded", fmt.Sprint(err), guidStr(g))
		}
	})
	guard("supported signatures", func() {
		gs, err := signature.GetSupportedSignatures(bytes.NewReader(cat(wantWire, tSHA256, wantWire)))
		if err != nil || len(gs) != 3 || gs[0] != g || gs[1] != signature.CERT_SHA256_GUID || gs[2] != g {
			fail("GetSupportedSignatures does not return the GUIDs that are encoded", fmt.Sprint(err, " ", len(gs)), guidStr(g))
		}
	})
	guard("certificate", func() {
		body := []byte{1, 2, 3, 4}
		want := cat(le32(24+4), []byte{0x00, 0x02, 0xf1, 0x0e}, wantWire, body)
		w := signature.WinCertificateUEFIGUID{Header: signature.WINCertificate{Length: 24 + 4, Revision: 0x0200, CertType: signature.WIN_CERT_TYPE_EFI_GUID}, CertType: g, CertData: body}
		var b bytes.Buffer
		signature.WriteWinCertificateUEFIGUID(&b, &w)
		if !bytes.Equal(b.Bytes(), want) {
			fail("WriteWinCertificateUEFIGUID: the CertType GUID is not Data1,Data2,Data3 little-endian then Data4", hx(b.Bytes()), hx(want))
		}
		if back, err := signature.ReadWinCertificateUEFIGUID(bytes.NewReader(want)); err != nil || back.CertType != g {
			fail("ReadWinCertificateUEFIGUID does not return the CertType GUID that is encoded", fmt.Sprint(err, " ", guidStr(back.CertType)), guidStr(g))
		}
		desc := cat(make([]byte, 16), want)
		if back, err := signature.ReadEFIVariableAuthencation2(bytes.NewReader(desc)); err != nil || back.AuthInfo.CertType != g {
			fail("ReadEFIVariableAuthencation2 does not return the CertType GUID that is encoded", fmt.Sprint(err), guidStr(g))
		} else {
			var m bytes.Buffer
			back.Marshal(&m)
			if !bytes.Equal(m.Bytes(), desc) {
				fail("EFIVariableAuthentication2.Marshal: the CertType GUID is not Data1,Data2,Data3 little-endian then Data4", hx(m.Bytes()), hx(desc))
			}
		}
	})
	// the same decoders behind readers that hand out LESS than is asked for. The structure decoders take an
	// io.Reader, and one Read call may return fewer bytes than the 16 of a GUID without that being an error or the
	// end (a pipe, a network stream, a decompressor, a bufio.Reader at its buffer boundary): "inside encoded
	// structures a GUID is Data1, Data2, Data3 little-endian followed by Data4" holds for the 16 bytes of the
	// structure however the reader cuts them up - the same GUID back, the fields behind it intact, and exactly the
	// bytes of the structure consumed.
	guard("structures behind short-read readers", func() {
		body := []byte{1, 2, 3, 4}
		tail := []byte{0xc3, 0x3c, 0x99}
		sigData := cat(wantWire, data)
		sigList := cat(tSHA256, le32(28+2*48), le32(0), le32(48), wantWire, data, wireGUID(signature.CERT_X509_GUID), data)
		support := cat(wantWire, tSHA256, wantWire)
		cert := cat(le32(24+4), []byte{0x00, 0x02, 0xf1, 0x0e}, wantWire, body)
		desc := cat(bytes.Repeat([]byte{0x07}, 16), cert)
		for _, kind := range []string{"one-byte", "half", "data-err", "bytes.Buffer"} {
			c.Class("guid-structures/reader=" + kind)
			in := func(b []byte) *srcReader { return newSrcReader(kind, cat(b, tail)) }
			left := func(r *srcReader, what string) {
				if r.clobber(); r.rest != len(tail) {
					fail(fmt.Sprintf("%s through a %s reader does not consume exactly the bytes of the structure", what, kind), fmt.Sprintf("%d bytes left", r.rest), fmt.Sprintf("%d bytes left", len(tail)))
				}
			}
			r := in(sigData)
			if back, err := signature.ReadSignatureData(r.r, 48); err != nil || back == nil || back.Owner != g || !bytes.Equal(back.Data, data) {
				o := util.EFIGUID{}
				if back != nil {
					o = back.Owner
				}
				fail("ReadSignatureData through a "+kind+" reader does not return the owner GUID (Data1, Data2, Data3 little-endian, then Data4) and the data that are encoded", fmt.Sprint(err, " ", guidStr(o)), guidStr(g))
			} else {
				left(r, "ReadSignatureData")
			}
			r = in(sigList)
			if rl, err := signature.ReadSignatureList(r.r); err != nil || rl == nil || rl.SignatureType != signature.CERT_SHA256_GUID || len(rl.Signatures) != 2 ||
				rl.Signatures[0].Owner != g || rl.Signatures[1].Owner != signature.CERT_X509_GUID || !bytes.Equal(rl.Signatures[0].Data, data) || !bytes.Equal(rl.Signatures[1].Data, data) {
				got := fmt.Sprint(err)
				if err == nil && rl != nil {
					got = goListStr(rl)
				}
				fail("ReadSignatureList through a "+kind+" reader does not return the type GUID and the owner GUIDs that are encoded", clip(got), "type "+hx(tSHA256)+", owners "+hx(wantWire)+" and "+hx(wireGUID(signature.CERT_X509_GUID)))
			} else {
				left(r, "ReadSignatureList")
			}
			r = newSrcReader(kind, support) // reads to the end of its input
			if gs, err := signature.GetSupportedSignatures(r.r); err != nil || len(gs) != 3 || gs[0] != g || gs[1] != signature.CERT_SHA256_GUID || gs[2] != g {
				fail("GetSupportedSignatures through a "+kind+" reader does not return the GUIDs that are encoded", fmt.Sprint(err, " ", len(gs)), guidStr(g))
			}
			r = in(cert)
			if back, err := signature.ReadWinCertificateUEFIGUID(r.r); err != nil || back.CertType != g || !bytes.Equal(back.CertData, body) {
				fail("ReadWinCertificateUEFIGUID through a "+kind+" reader does not return the CertType GUID and the data that are encoded", fmt.Sprint(err, " ", guidStr(back.CertType)), guidStr(g))
			} else {
				left(r, "ReadWinCertificateUEFIGUID")
			}
			r = in(desc)
			if back, err := signature.ReadEFIVariableAuthencation2(r.r); err != nil || back == nil || back.AuthInfo.CertType != g || !bytes.Equal(back.AuthInfo.CertData, body) {
				fail("ReadEFIVariableAuthencation2 through a "+kind+" reader does not return the CertType GUID and the data that are encoded", fmt.Sprint(err), guidStr(g))
			} else {
				left(r, "ReadEFIVariableAuthencation2")
			}
		}
	})
	guard("variable file name", func() {
		text := canonGUIDText(g) // put together from the fields, not by the library
		mem := afero.NewMemMapFs()
		afero.WriteFile(mem, efivarsDir+"/Held-"+text, []byte{7, 0, 0, 0, 0x2a}, 0o644)
		fw := fswrapper.NewMemoryWrapper()
		fw.SetFS(mem)
		if _, buf, err := fw.ReadEfivarsWithGuid("Held", g); err != nil || buf == nil || !bytes.Equal(buf.Bytes(), []byte{0x2a}) {
			fail("FSWrapper.ReadEfivarsWithGuid does not find the variable stored under <name>-<canonical GUID text>", fmt.Sprint(err), "Held-"+text)
		}
		if err := fw.WriteEfivarsWithGuid("Put", 7, []byte{0x2b}, g); err != nil {
			fail("FSWrapper.WriteEfivarsWithGuid failed on an in-memory filesystem", err.Error(), "")
		} else if b, err := afero.ReadFile(mem, efivarsDir+"/Put-"+text); err != nil || !bytes.Equal(b, []byte{7, 0, 0, 0, 0x2b}) {
			fail("FSWrapper.WriteEfivarsWithGuid does not write the variable file <name>-<canonical GUID text>", fmt.Sprint(err, " ", hx(b)), "Put-"+text)
		}
		withLegacyFs(mem, func() {
			if _, buf, err := attributes.ReadEfivarsWithGuid("Held", g); err != nil || buf == nil || !bytes.Equal(buf.Bytes(), []byte{0x2a}) {
				fail("attributes.ReadEfivarsWithGuid does not find the variable stored under <name>-<canonical GUID text>", fmt.Sprint(err), "Held-"+text)
			}
			if err := attributes.WriteEfivarsWithGuid("Put2", 7, []byte{0x2c}, g); err != nil {
				fail("attributes.WriteEfivarsWithGuid failed on an in-memory filesystem", err.Error(), "")
			} else if b, err := afero.ReadFile(mem, efivarsDir+"/Put2-"+text); err != nil || !bytes.Equal(b, []byte{7, 0, 0, 0, 0x2c}) {
				fail("attributes.WriteEfivarsWithGuid does not write the variable file <name>-<canonical GUID text>", fmt.Sprint(err, " ", hx(b)), "Put2-"+text)
			}
		})
	})
}

var canonGUID = regexp.MustCompile(`^[0-9a-f]{8}-[0-9a-f]{4}-[0-9a-f]{4}-[0-9a-f]{4}-[0-9a-f]{12}$`)

func guidArgs(g util.EFIGUID) []string {
	return []string{fmt.Sprint(g.Data1), fmt.Sprint(g.Data2), fmt.Sprint(g.Data3), hx(g.Data4[:])}
}
func guidStr(g util.EFIGUID) string { return strings.Join(guidArgs(g), " ") }

func c17EvalGuid(c *Ctx, cs Case) {
	var g util.EFIGUID
	g.Data1 = uint32(cs.I("d1"))
	g.Data2 = uint16(cs.I("d2"))
	g.Data3 = uint16(cs.I("d3"))
	copy(g.Data4[:], unhx(cs.S("d4")))
	nontrivial := !(g.Data1 == 0 && g.Data2 == 0 && g.Data3 == 0 && g.Data4 == [8]byte{})
	c.Count(cs.Key(), nontrivial, "guid")
	c.Sample(cs)

	text := g.Format()
	back := util.StringToGUID(text)
	backUp := util.StringToGUID(strings.ToUpper(text))
	be := util.GUIDToBytes(&g)
	fromBE := util.BytesToGUID(be)
	var wire bytes.Buffer
	binary.Write(&wire, binary.LittleEndian, g)

	// --- property oracle, written from the statement (independent of the model) ---
	fail := func(what, goObs, spec string) {
		c.Fail(Failure{Kind: "property", What: what, Case: cs, Go: goObs, Spec: spec})
	}
	// "without loss" also means: a result the caller still holds keeps its value while the library
	// converts other GUIDs, and what the caller does to a result does not leak into later conversions
	beHeld, backHeld, backUpHeld, fromBEHeld := append([]byte{}, be...), *back, *backUp, *fromBE
	others := []util.EFIGUID{
		{Data1: ^g.Data1, Data2: ^g.Data2, Data3: ^g.Data3},
		{Data1: g.Data1<<8 | g.Data1>>24, Data2: g.Data3, Data3: g.Data2, Data4: [8]byte{g.Data4[7], g.Data4[0], g.Data4[1], g.Data4[2], g.Data4[3], g.Data4[4], g.Data4[5], g.Data4[6]}},
	}
	for i := range g.Data4 {
		others[0].Data4[i] = ^g.Data4[i]
	}
	for rep := 0; rep < 2; rep++ {
		for i := range others {
			h := others[i]
			hb := util.GUIDToBytes(&h)
			hb2 := h.Bytes()
			ht := h.Format()
			util.StringToGUID(ht)
			util.StringToGUID(strings.ToUpper(ht))
			util.BytesToGUID(hb)
			util.BytesToGUID(hb2)
		}
	}
	if !bytes.Equal(be, beHeld) {
		fail("the byte form returned for a GUID changed while other GUIDs were converted (the result shares memory with later calls)", hx(be), hx(beHeld))
	}
	if *back != backHeld || *backUp != backUpHeld {
		fail("the GUID returned by StringToGUID changed while other GUIDs were converted", guidStr(*back)+" / "+guidStr(*backUp), guidStr(backHeld))
	}
	if *fromBE != fromBEHeld {
		fail("the GUID returned by BytesToGUID changed while other GUIDs were converted", guidStr(*fromBE), guidStr(fromBEHeld))
	}
	for i := range be { // the caller overwrites what it was given ...
		be[i] ^= 0xa5
	}
	*back, *backUp, *fromBE = others[0], others[1], others[0]
	if again := util.GUIDToBytes(&g); !bytes.Equal(again, beHeld) { // ... and converts the same GUID again
		fail("GUIDToBytes(g) returns something else after the caller overwrote the result of an earlier call", hx(again), hx(beHeld))
	}
	if again := g.Bytes(); !bytes.Equal(again, beHeld) {
		fail("g.Bytes() returns something else after the caller overwrote the result of an earlier call", hx(again), hx(beHeld))
	}
	if again := util.StringToGUID(text); *again != backHeld {
		fail("StringToGUID(text) returns something else after the caller overwrote the result of an earlier call", guidStr(*again), guidStr(backHeld))
	}
	if again := util.BytesToGUID(beHeld); *again != fromBEHeld {
		fail("BytesToGUID(bytes) returns something else after the caller overwrote the result of an earlier call", guidStr(*again), guidStr(fromBEHeld))
	}
	if again := g.Format(); again != text {
		fail("Format(g) is not repeatable", again, text)
	}
	be, back, backUp, fromBE = beHeld, &backHeld, &backUpHeld, &fromBEHeld // judged below as they were returned
	if !canonGUID.MatchString(text) {
		fail("Format is not the canonical 36-character lower-case text", text, canonGUID.String())
	} else {
		f := strings.Split(text, "-")
		v1, _ := strconv.ParseUint(f[0], 16, 32)
		v2, _ := strconv.ParseUint(f[1], 16, 16)
		v3, _ := strconv.ParseUint(f[2], 16, 16)
		v4, _ := strconv.ParseUint(f[3]+f[4], 16, 64)
		if uint32(v1) != g.Data1 || uint16(v2) != g.Data2 || uint16(v3) != g.Data3 || v4 != binary.BigEndian.Uint64(g.Data4[:]) {
			fail("Format does not spell the GUID's fields", text, guidStr(g))
		}
	}
	if *back != g {
		fail("StringToGUID(Format(g)) != g", guidStr(*back), guidStr(g))
	}
	if *backUp != g {
		fail("StringToGUID(upper(Format(g))) != g", guidStr(*backUp), guidStr(g))
	}
	if *fromBE != g {
		fail("BytesToGUID(GUIDToBytes(g)) != g", guidStr(*fromBE), guidStr(g))
	}
	wantBE := make([]byte, 16)
	binary.BigEndian.PutUint32(wantBE, g.Data1)
	binary.BigEndian.PutUint16(wantBE[4:], g.Data2)
	binary.BigEndian.PutUint16(wantBE[6:], g.Data3)
	copy(wantBE[8:], g.Data4[:])
	if !bytes.Equal(be, wantBE) {
		fail("GUIDToBytes is not the big-endian byte form", hx(be), hx(wantBE))
	}
	wantWire := make([]byte, 16)
	binary.LittleEndian.PutUint32(wantWire, g.Data1)
	binary.LittleEndian.PutUint16(wantWire[4:], g.Data2)
	binary.LittleEndian.PutUint16(wantWire[6:], g.Data3)
	copy(wantWire[8:], g.Data4[:])
	if !bytes.Equal(wire.Bytes(), wantWire) {
		fail("in-structure encoding is not Data1,Data2,Data3 little-endian then Data4", hx(wire.Bytes()), hx(wantWire))
	}
	c17GuidStructures(c, cs, g, wantBE, wantWire, fail)
	if !util.CmpEFIGUID(g, g) {
		fail("CmpEFIGUID(g,g) is false", "false", "true")
	}
	// equality is field-wise: perturb one field at a time
	for i := 0; i < 4; i++ {
		h := g
		switch i {
		case 0:
			h.Data1 ^= 1 << uint(c.Rng.Intn(32))
		case 1:
			h.Data2 ^= 1 << uint(c.Rng.Intn(16))
		case 2:
			h.Data3 ^= 1 << uint(c.Rng.Intn(16))
		case 3:
			h.Data4[c.Rng.Intn(8)] ^= 1 << uint(c.Rng.Intn(8))
		}
		if util.CmpEFIGUID(g, h) || util.CmpEFIGUID(h, g) {
			fail("CmpEFIGUID is true for GUIDs that differ in one field", "true", guidStr(h))
		}
		if m := c.Drv.Ask("guid.cmp", append(guidArgs(g), guidArgs(h)...)...); m != "false" {
			c.Fail(Failure{Kind: "tie", What: "model cmpGuid", Case: cs, Model: m, Go: "false"})
		}
	}

	// --- correspondence with the Lean model ---
	tie := func(what, model, goObs string) {
		c.Trace()
		if model != goObs {
			c.Fail(Failure{Kind: "tie", What: what, Case: cs, Model: model, Go: goObs})
		}
	}
	tie("guid.format", c.Drv.Ask("guid.format", guidArgs(g)...), text)
	tie("guid.tobytes", c.Drv.Ask("guid.tobytes", guidArgs(g)...), hx(be))
	tie("guid.wire", c.Drv.Ask("guid.wire", guidArgs(g)...), hx(wire.Bytes()))
	tie("guid.parse", c.Drv.Ask("guid.parse", hx([]byte(text))), guidStr(*back))
	tie("guid.parse upper", c.Drv.Ask("guid.parse", hx([]byte(strings.ToUpper(text)))), guidStr(*backUp))
	tie("guid.frombytes", c.Drv.Ask("guid.frombytes", hx(be)), guidStr(*fromBE))
}

// arbitrary text handed to StringToGUID: correspondence only (the property speaks about canonical text)
func c17EvalText(c *Ctx, cs Case) {
	text := string(unhx(cs.S("text")))
	c.Count(cs.Key(), len(text) > 0, "guidtext")
	var got *util.EFIGUID
	if p, msg := safely(func() { got = util.StringToGUID(text) }); p {
		c.Fail(Failure{Kind: "property", What: "StringToGUID panicked", Case: cs, Go: msg})
		return
	}
	c.Trace()
	if m := c.Drv.Ask("guid.parse", hx([]byte(text))); m != guidStr(*got) {
		c.Fail(Failure{Kind: "tie", What: "guid.parse on arbitrary text", Case: cs, Model: m, Go: guidStr(*got)})
	}
}

func specUtf16(s string) []byte {
	var out []byte
	for _, u := range utf16.Encode([]rune(s)) {
		out = append(out, byte(u), byte(u>>8))
	}
	return append(out, 0, 0)
}

// loaderEntryStores: the two getters of a UTF-16 string variable - Efivarfs.GetLoaderEntrySelected (Efistring through
// GetVar) and the package-level efi.GetCurrentlyBootedEntry (ParseUtf16Var on the whole value) - on a store whose
// LoaderEntrySelected variable holds value
func loaderEntryStores(value []byte) (obj, legacy string) {
	v := efivar.LoaderEntrySelected
	mem := afero.NewMemMapFs()
	afero.WriteFile(mem, efivarsDir+"/"+v.Name+"-"+canonGUIDText(*v.GUID), append([]byte{6, 0, 0, 0}, value...), 0o644)
	fw := fswrapper.NewMemoryWrapper()
	fw.SetFS(mem)
	var str string
	var err error
	p, _ := safely(func() { str, err = efivarfs.Open(&efivarfs.EFIFS{FSWrapper: fw}).GetLoaderEntrySelected() })
	obj = outcomeOfString(p, str, err)
	withLegacyFs(mem, func() {
		p, _ = safely(func() { str, err = efi.GetCurrentlyBootedEntry() })
	})
	return obj, outcomeOfString(p, str, err)
}

// nullStringOracle: util.ReadNullString is the scan that delimits a string inside a larger structure. From any
// reader it returns the bytes up to and including the first terminator code unit (00 00 at an even offset) and
// leaves the rest unread; without a terminator it returns the bytes that are there - never more, so that no
// terminator appears that the input does not hold.
func nullStringOracle(c *Ctx, cs Case, b []byte) {
	want, rest := b, []byte{}
	for i := 0; i+1 < len(b); i += 2 {
		if b[i] == 0 && b[i+1] == 0 {
			want, rest = b[:i+2], b[i+2:]
			break
		}
	}
	for _, kind := range []string{"bytes.Buffer", "one-byte", "half"} {
		src := bytes.NewBuffer(append([]byte{}, b...))
		var rd io.Reader = src
		switch kind {
		case "one-byte":
			rd = iotest.OneByteReader(src)
		case "half":
			rd = iotest.HalfReader(src)
		}
		var got []byte
		if p, msg := safely(func() { got = util.ReadNullString(rd) }); p {
			c.Fail(Failure{Kind: "property", What: "ReadNullString panicked (" + kind + " reader)", Case: cs, Go: msg})
			continue
		}
		if !bytes.Equal(got, want) {
			c.Fail(Failure{Kind: "property", What: "ReadNullString (" + kind + " reader) does not return the input up to and including its first terminator code unit (all of it when there is none)", Case: cs, Go: hx(got), Spec: hx(want)})
		} else if !bytes.Equal(src.Bytes(), rest) {
			c.Fail(Failure{Kind: "property", What: "ReadNullString (" + kind + " reader) does not leave what follows the terminator unread", Case: cs, Go: hx(src.Bytes()), Spec: hx(rest)})
		}
	}
}

func c17EvalString(c *Ctx, cs Case) {
	s := string(unhx(cs.S("s")))
	if !utf8.ValidString(s) || strings.ContainsRune(s, 0) {
		return
	}
	nonBMP := false
	for _, r := range s {
		if r > 0xffff {
			nonBMP = true
		}
	}
	cls := "ascii"
	if nonBMP {
		cls = "nonbmp"
	} else if len(s) != len([]rune(s)) {
		cls = "bmp"
	}
	if len(s) == 0 {
		cls = "empty"
	}
	if len(s) > 2000 {
		cls += "-long"
	}
	c.Count(cs.Key(), len(s) > 0, "string/"+cls)
	if len(s) < 200 {
		c.Sample(cs)
	}
	enc := util.MarshalUtf16Var(s)
	if want := specUtf16(s); !bytes.Equal(enc, want) {
		c.Fail(Failure{Kind: "property", What: "MarshalUtf16Var is not UTF-16LE plus one NUL terminator", Case: cs, Go: hx(enc), Spec: hx(want)})
	}
	// the encoding that was returned keeps its value while other strings are encoded and decoded, and
	// overwriting it does not change what encoding the same string returns next time
	encHeld := append([]byte{}, enc...)
	for _, o := range []string{"x" + s, strings.ToUpper(s) + "\u00e9\U0001F600", s} {
		oe := util.MarshalUtf16Var(o)
		safely(func() { util.ParseUtf16Var(bytes.NewBuffer(oe)) })
	}
	if !bytes.Equal(enc, encHeld) {
		c.Fail(Failure{Kind: "property", What: "the encoding returned for a string changed while other strings were converted (the result shares memory with later calls)", Case: cs, Go: hx(enc), Spec: hx(encHeld)})
	}
	for i := range enc {
		enc[i] ^= 0xa5
	}
	if again := util.MarshalUtf16Var(s); !bytes.Equal(again, encHeld) {
		c.Fail(Failure{Kind: "property", What: "MarshalUtf16Var(s) returns something else after the caller overwrote the result of an earlier call", Case: cs, Go: hx(again), Spec: hx(encHeld)})
	}
	enc = encHeld
	var dec string
	var err error
	if p, msg := safely(func() { dec, err = util.ParseUtf16Var(bytes.NewBuffer(append([]byte{}, enc...))) }); p {
		c.Fail(Failure{Kind: "property", What: "ParseUtf16Var panicked", Case: cs, Go: msg})
	} else if err != nil || dec != s {
		c.Fail(Failure{Kind: "property", What: "ParseUtf16Var(MarshalUtf16Var(s)) != s", Case: cs, Go: fmt.Sprintf("%q err=%v", dec, err), Spec: fmt.Sprintf("%q", s)})
	}
	var es efivar.Efistring
	// followed by unrelated bytes: the terminator delimits the string
	tail := append(append([]byte{}, enc...), 0x41, 0x00, 0x42, 0x00)
	if p, msg := safely(func() { err = es.Unmarshal(bytes.NewBuffer(tail)) }); p {
		c.Fail(Failure{Kind: "property", What: "Efistring.Unmarshal panicked", Case: cs, Go: msg})
	} else if err != nil || string(es) != s {
		c.Fail(Failure{Kind: "property", What: "Efistring.Unmarshal(encoding of s ++ tail) != s", Case: cs, Go: fmt.Sprintf("%q err=%v", string(es), err), Spec: fmt.Sprintf("%q", s)})
	}
	// the encoding alone (nothing follows the terminator)
	var es2 efivar.Efistring
	if p, msg := safely(func() { err = es2.Unmarshal(bytes.NewBuffer(append([]byte{}, enc...))) }); p {
		c.Fail(Failure{Kind: "property", What: "Efistring.Unmarshal panicked", Case: cs, Go: msg})
	} else if err != nil || string(es2) != s {
		c.Fail(Failure{Kind: "property", What: "Efistring.Unmarshal(encoding of s) != s", Case: cs, Go: fmt.Sprintf("%q err=%v", string(es2), err), Spec: fmt.Sprintf("%q", s)})
	}
	if len(s) < 200 {
		// the scan that delimits the string inside a larger structure, and the two variable getters that decode a string
		nullStringOracle(c, cs, tail)
		obj, legacy := loaderEntryStores(enc)
		if want := "ok " + hx([]byte(s)); obj != want || legacy != want {
			c.Fail(Failure{Kind: "property", What: "a variable that holds the encoding of s does not read back as s (Efivarfs.GetLoaderEntrySelected / efi.GetCurrentlyBootedEntry)", Case: cs, Go: obj + " / " + legacy, Spec: want})
		}
	}
	c.Trace()
	if m := c.Drv.Ask("utf16.enc", hx([]byte(s))); m != hx(enc) {
		c.Fail(Failure{Kind: "tie", What: "utf16.enc", Case: cs, Model: m, Go: hx(enc)})
	}
	c.Trace()
	if m := c.Drv.Ask("utf16.dec", hx(enc)); m != "ok "+hx([]byte(dec)) {
		c.Fail(Failure{Kind: "tie", What: "utf16.dec", Case: cs, Model: m, Go: "ok " + hx([]byte(dec))})
	}
}

func outcomeOfString(p bool, s string, err error) string {
	switch {
	case p:
		return "panic"
	case err != nil:
		return "err"
	}
	return "ok " + hx([]byte(s))
}

// arbitrary bytes handed to the decoder
func c17EvalBytes(c *Ctx, cs Case) {
	b := unhx(cs.S("bytes"))
	hasTerm := len(b) >= 2 && b[len(b)-1] == 0 && b[len(b)-2] == 0 && len(b)%2 == 0
	cls := "noterm"
	if hasTerm {
		cls = "term"
	}
	if len(b) == 0 {
		cls = "empty"
	}
	c.Count(cs.Key(), len(b) > 0, "bytes/"+cls)
	var dec string
	var err error
	p, _ := safely(func() { dec, err = util.ParseUtf16Var(bytes.NewBuffer(append([]byte{}, b...))) })
	obs := outcomeOfString(p, dec, err)
	if !hasTerm && !strings.HasPrefix(obs, "err") {
		m := ""
		if len(b) == 0 {
			m = "c17.empty_input_panics"
		}
		c.Fail(Failure{Kind: "property", Matcher: m, What: "decoding input without the NUL terminator is not an error", Case: cs, Go: obs, Spec: "err"})
	}
	c.Trace()
	if m := c.Drv.Ask("utf16.dec", hx(b)); m != obs {
		c.Fail(Failure{Kind: "tie", What: "utf16.dec on arbitrary bytes", Case: cs, Model: m, Go: obs})
	}
	var es efivar.Efistring
	p, _ = safely(func() { err = es.Unmarshal(bytes.NewBuffer(append([]byte{}, b...))) })
	obs = outcomeOfString(p, string(es), err)
	// the reader-based decoder scans for the terminator code unit: input that holds no 00 00 at an even offset (it ends
	// inside a code unit, or simply ends) has no terminator, and decoding it is an error
	unit := false
	for i := 0; i+1 < len(b); i += 2 {
		if b[i] == 0 && b[i+1] == 0 {
			unit = true
			break
		}
	}
	if !unit && !strings.HasPrefix(obs, "err") {
		c.Fail(Failure{Kind: "property", Matcher: "c17.efistring_noterm", What: "Efistring.Unmarshal: decoding input without the NUL terminator code unit is not an error", Case: cs, Go: obs, Spec: "err"})
	}
	c.Trace()
	if m := c.Drv.Ask("efistring", hx(b)); m != obs {
		c.Fail(Failure{Kind: "tie", What: "efistring on arbitrary bytes", Case: cs, Model: m, Go: obs})
	}
	// the same two decoders reached through the variable getters, and the terminator scan itself
	objObs, legacyObs := loaderEntryStores(b)
	if !unit && !strings.HasPrefix(objObs, "err") {
		c.Fail(Failure{Kind: "property", What: "Efivarfs.GetLoaderEntrySelected: a value without the NUL terminator code unit is not an error", Case: cs, Go: objObs, Spec: "err"})
	}
	if !hasTerm && !strings.HasPrefix(legacyObs, "err") {
		c.Fail(Failure{Kind: "property", What: "efi.GetCurrentlyBootedEntry: a value without the NUL terminator is not an error", Case: cs, Go: legacyObs, Spec: "err"})
	}
	if objObs != obs {
		c.Fail(Failure{Kind: "property", What: "Efivarfs.GetLoaderEntrySelected decodes the value differently than Efistring.Unmarshal decodes the same bytes", Case: cs, Go: objObs, Spec: obs})
	}
	nullStringOracle(c, cs, b)
	// util.ReadNullString itself: the code TRANSLATED from it (Gen.lean; theorems C17g_readNullString*) against the
	// real function on a reader over the same bytes: the bytes returned and how many the reader has left
	{
		r := bytes.NewReader(append([]byte{}, b...))
		var got []byte
		goObs := ""
		if pan, _ := safely(func() { got = util.ReadNullString(r) }); pan {
			goObs = "panic"
		} else {
			goObs = fmt.Sprintf("%s rest=%d", hx(got), r.Len())
		}
		c.GenTieGo(cs, "util.ReadNullString", goObs, "gen.readnull", hx(b))
	}
}

func c17Eval(c *Ctx, cs Case) {
	switch cs.S("op") {
	case "guid":
		c17EvalGuid(c, cs)
	case "guidtext":
		c17EvalText(c, cs)
	case "string":
		c17EvalString(c, cs)
	case "bytes":
		c17EvalBytes(c, cs)
	}
}

func guidCase(g util.EFIGUID) Case {
	return Case{"op": "guid", "d1": int64(g.Data1), "d2": int64(g.Data2), "d3": int64(g.Data3), "d4": hx(g.Data4[:])}
}

func c17Gen(c *Ctx) {
	// boundary GUIDs: each field 0, 1, all-ones, single bits; a zero nibble in every text position
	var gs []util.EFIGUID
	gs = append(gs, util.EFIGUID{}, util.EFIGUID{Data1: 0xffffffff, Data2: 0xffff, Data3: 0xffff, Data4: [8]byte{255, 255, 255, 255, 255, 255, 255, 255}})
	for i := 0; i < 32; i++ {
		gs = append(gs, util.EFIGUID{Data1: 1 << uint(i)})
	}
	for i := 0; i < 16; i++ {
		gs = append(gs, util.EFIGUID{Data2: 1 << uint(i)}, util.EFIGUID{Data3: 1 << uint(i)})
	}
	for i := 0; i < 8; i++ {
		for b := 0; b < 8; b++ {
			var g util.EFIGUID
			g.Data4[i] = 1 << uint(b)
			gs = append(gs, g)
		}
	}
	for nib := 0; nib < 32; nib++ { // all-f except one zero nibble
		raw := bytes.Repeat([]byte{0xff}, 16)
		if nib%2 == 0 {
			raw[nib/2] &= 0x0f
		} else {
			raw[nib/2] &= 0xf0
		}
		gs = append(gs, *util.BytesToGUID(raw))
	}
	for i := 0; i < c.N(2000, 200000); i++ {
		raw := make([]byte, 16)
		c.Rng.Read(raw)
		if c.Rng.Intn(4) == 0 { // sparse bytes: many leading zeros
			for j := range raw {
				if c.Rng.Intn(2) == 0 {
					raw[j] = 0
				}
			}
		}
		gs = append(gs, *util.BytesToGUID(raw))
	}
	for _, g := range gs {
		c17EvalGuid(c, guidCase(g))
	}
	// arbitrary texts
	texts := []string{"", "-", "8be4df61-93ca-11d2-aa0d-00e098032b8c", "8BE4DF61-93CA-11D2-AA0D-00E098032B8C", "8be4df6193ca11d2aa0d00e098032b8c",
		"8be4df61-93ca-11d2-aa0d-00e098032b8", "8be4df61-93ca-11d2-aa0d-00e098032b8c00", "zz", "8be4df61-93ca-11d2-aa0d-00e098032bzz", "0x8be4df61", "{8be4df61-93ca-11d2-aa0d-00e098032b8c}"}
	for i := 0; i < c.N(300, 20000); i++ {
		raw := make([]byte, 16)
		c.Rng.Read(raw)
		t := util.BytesToGUID(raw).Format()
		bs := []byte(t)
		switch c.Rng.Intn(5) {
		case 0:
			bs = bs[:c.Rng.Intn(len(bs))]
		case 1:
			bs[c.Rng.Intn(len(bs))] = byte(c.Rng.Intn(128))
		case 2:
			bs = append(bs, bs[:c.Rng.Intn(8)]...)
		case 3:
			bs = bytes.ToUpper(bs)
		case 4:
			p := c.Rng.Intn(len(bs))
			bs = append(bs[:p], append([]byte{'-'}, bs[p:]...)...)
		}
		texts = append(texts, string(bs))
	}
	for _, t := range texts {
		c17EvalText(c, Case{"op": "guidtext", "text": hx([]byte(t))})
	}
	// strings
	strs := []string{"", "a", "Linux Boot Manager", "\u007f", "\u0080", "\u07ff", "\u0800", "\ud7ff", "\ue000", "\ufffd", "\uffff", "\U00010000", "\U0010ffff",
		"\ufeffabc", "abc\ufeff", "\U0001F600\U0001F600", "\u00e9\U0001F600x"}
	for _, off := range []int{4090, 4094, 4095, 4096, 4097, 8190, 8191, 8192, 8193} {
		for _, ch := range []string{"\u00e9", "\u20ac", "\U0001F600"} {
			strs = append(strs, strings.Repeat("a", off)+ch+strings.Repeat("b", 7))
		}
	}
	pool := []rune{'a', 'Z', '0', ' ', '\\', 0x7f, 0x80, 0x7ff, 0x800, 0xd7ff, 0xe000, 0xfeff, 0xfffd, 0xffff, 0x10000, 0x1f600, 0x10ffff}
	for i := 0; i < c.N(1000, 50000); i++ {
		n := c.Rng.Intn(40)
		if c.Rng.Intn(50) == 0 {
			n = 3000 + c.Rng.Intn(c.P(3000, 13000))
		}
		rs := make([]rune, n)
		for j := range rs {
			if c.Rng.Intn(3) == 0 {
				rs[j] = pool[c.Rng.Intn(len(pool))]
			} else {
				for {
					r := rune(1 + c.Rng.Intn(0x10ffff))
					if c.Rng.Intn(2) == 0 {
						r = rune(1 + c.Rng.Intn(0x7f))
					}
					if utf8.ValidRune(r) {
						rs[j] = r
						break
					}
				}
			}
		}
		strs = append(strs, string(rs))
	}
	for _, s := range strs {
		c17EvalString(c, Case{"op": "string", "s": hx([]byte(s))})
	}
	// arbitrary bytes for the decoder
	bss := [][]byte{nil, {0}, {0, 0}, {0x41}, {0x41, 0}, {0x41, 0, 0}, {0x41, 0, 0, 0}, {0, 0, 0x41, 0}, {0x00, 0xd8}, {0x00, 0xd8, 0, 0}, {0x00, 0xdc, 0x00, 0xdc, 0, 0}, {0x00, 0xd8, 0x00, 0xdc, 0, 0}, {0x00, 0xdc, 0x00, 0xd8, 0, 0}, {0x3d, 0xd8, 0x41, 0, 0, 0}}
	for i := 0; i < c.N(500, 20000); i++ {
		n := c.Rng.Intn(24)
		b := make([]byte, n)
		for j := range b {
			switch c.Rng.Intn(4) {
			case 0:
				b[j] = 0
			case 1:
				b[j] = byte(0xd8 + c.Rng.Intn(8))
			default:
				b[j] = byte(c.Rng.Intn(256))
			}
		}
		if c.Rng.Intn(2) == 0 {
			b = append(b, 0, 0)
		}
		bss = append(bss, b)
	}
	for _, b := range bss {
		c17EvalBytes(c, Case{"op": "bytes", "bytes": hx(b)})
	}
}

func init() {
	register("C17", &PropDef{
		Rule:   "GUIDs: boundary patterns (each field 0/1/all-ones/single bits, a zero nibble at every text position) then random 128-bit values; strings: edge code points, BOM, transformer-buffer-straddling lengths, then random NUL-free scalar sequences; arbitrary texts and byte strings for the decoders. Every GUID / string case is a two-step sequence: the results of the first conversions are held while two other GUIDs (the complement and a rotation) / three other strings go through every conversion twice, must then still have their value, are then overwritten by the caller, and the same conversions are repeated and must return what they returned first. Every GUID also goes through the other spellings of the byte form (g.Bytes, WriteGUID into a non-empty buffer), through the library's structure encoders and decoders against bytes put together from the statement (SignatureData owner, SignatureList type and owner, the SignatureSupport array, the CertType of WIN_CERTIFICATE_UEFI_GUID alone and inside an authentication descriptor: little-endian Data1..3 then Data4 out, the same GUID back), through the same structure decoders (ReadSignatureData, ReadSignatureList with the GUID as the owner of the first of two entries, GetSupportedSignatures, ReadWinCertificateUEFIGUID, ReadEFIVariableAuthencation2) BEHIND READERS THAT HAND OUT LESS THAN IS ASKED FOR - one byte per Read, half of the request, the last data together with io.EOF, and a bytes.Buffer - with three unrelated bytes following the structure (the same GUID and the fields behind it back, exactly the structure's bytes consumed: the 16 bytes of a GUID are the GUID however the reader cuts them up), and through the variable file name (a file stored under <name>-<canonical text> is the one FSWrapper.Read/WriteEfivarsWithGuid and attributes.Read/WriteEfivarsWithGuid read and write). Every string shorter than 200 bytes is also decoded by Efistring.Unmarshal without a tail, delimited by ReadNullString through three reader kinds (the encoding comes back, the tail stays unread) and read back from a store whose LoaderEntrySelected variable holds its encoding (Efivarfs.GetLoaderEntrySelected, efi.GetCurrentlyBootedEntry); every arbitrary byte string is also handed to those two getters (no terminator: an error) and to ReadNullString (the input up to and including its first terminator code unit, all of it when there is none). A case is non-trivial if it is not the all-zero GUID / the empty string; distinct = distinct case encodings.",
		Assume: []string{"Go strings handed to MarshalUtf16Var are valid UTF-8 (the property quantifies over valid Unicode strings)"},
		Eval:   c17Eval,
		Gen:    c17Gen,
	})
}
