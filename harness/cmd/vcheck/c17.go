package main

import (
	"bytes"
	"encoding/binary"
	"fmt"
	"regexp"
	"strconv"
	"strings"
	"unicode/utf16"
	"unicode/utf8"

	"github.com/foxboron/go-uefi/efi/util"
	"github.com/foxboron/go-uefi/efivar"
)

var canonGUID = regexp.MustCompile(`^[0-9a-f]{8}-[0-9a-f]{4}-[0-9a-f]{4}-[0-9a-f]{4}-[0-9a-f]{12}$`)

func guidArgs(g util.EFIGUID) []string {
	return []string{fmt.Sprint(g.Data1), fmt.Sprint(g.Data2), fmt.Sprint(g.Data3), hx(g.Data4[:])}
}
func guidStr(g util.EFIGUID) string { return strings.Join(guidArgs(g), " ") }

func c17EvalGuid(c *Ctx, cs Case) {
	var g util.EFIGUID
	g.Data1 = uint32(cs.I("d1"))
	g.Data2 = uint16(cs.I("d2"))
	g.Data3 = uint16(cs.I("d3"))
	copy(g.Data4[:], unhx(cs.S("d4")))
	nontrivial := !(g.Data1 == 0 && g.Data2 == 0 && g.Data3 == 0 && g.Data4 == [8]byte{})
	c.Count(cs.Key(), nontrivial, "guid")
	c.Sample(cs)

	text := g.Format()
	back := util.StringToGUID(text)
	backUp := util.StringToGUID(strings.ToUpper(text))
	be := util.GUIDToBytes(&g)
	fromBE := util.BytesToGUID(be)
	var wire bytes.Buffer
	binary.Write(&wire, binary.LittleEndian, g)

	// --- property oracle, written from the statement (independent of the model) ---
	fail := func(what, goObs, spec string) {
		c.Fail(Failure{Kind: "property", What: what, Case: cs, Go: goObs, Spec: spec})
	}
	// "without loss" also means: a result the caller still holds keeps its value while the library
	// converts other GUIDs, and what the caller does to a result does not leak into later conversions
	beHeld, backHeld, backUpHeld, fromBEHeld := append([]byte{}, be...), *back, *backUp, *fromBE
	others := []util.EFIGUID{
		{Data1: ^g.Data1, Data2: ^g.Data2, Data3: ^g.Data3},
		{Data1: g.Data1<<8 | g.Data1>>24, Data2: g.Data3, Data3: g.Data2, Data4: [8]byte{g.Data4[7], g.Data4[0], g.Data4[1], g.Data4[2], g.Data4[3], g.Data4[4], g.Data4[5], g.Data4[6]}},
	}
	for i := range g.Data4 {
		others[0].Data4[i] = ^g.Data4[i]
	}
	for rep := 0; rep < 2; rep++ {
		for i := range others {
			h := others[i]
			hb := util.GUIDToBytes(&h)
			hb2 := h.Bytes()
			ht := h.Format()
			util.StringToGUID(ht)
			util.StringToGUID(strings.ToUpper(ht))
			util.BytesToGUID(hb)
			util.BytesToGUID(hb2)
		}
	}
	if !bytes.Equal(be, beHeld) {
		fail("the byte form returned for a GUID changed while other GUIDs were converted (the result shares memory with later calls)", hx(be), hx(beHeld))
	}
	if *back != backHeld || *backUp != backUpHeld {
		fail("the GUID returned by StringToGUID changed while other GUIDs were converted", guidStr(*back)+" / "+guidStr(*backUp), guidStr(backHeld))
	}
	if *fromBE != fromBEHeld {
		fail("the GUID returned by BytesToGUID changed while other GUIDs were converted", guidStr(*fromBE), guidStr(fromBEHeld))
	}
	for i := range be { // the caller overwrites what it was given ...
		be[i] ^= 0xa5
	}
	*back, *backUp, *fromBE = others[0], others[1], others[0]
	if again := util.GUIDToBytes(&g); !bytes.Equal(again, beHeld) { // ... and converts the same GUID again
		fail("GUIDToBytes(g) returns something else after the caller overwrote the result of an earlier call", hx(again), hx(beHeld))
	}
	if again := g.Bytes(); !bytes.Equal(again, beHeld) {
		fail("g.Bytes() returns something else after the caller overwrote the result of an earlier call", hx(again), hx(beHeld))
	}
	if again := util.StringToGUID(text); *again != backHeld {
		fail("StringToGUID(text) returns something else after the caller overwrote the result of an earlier call", guidStr(*again), guidStr(backHeld))
	}
	if again := util.BytesToGUID(beHeld); *again != fromBEHeld {
		fail("BytesToGUID(bytes) returns something else after the caller overwrote the result of an earlier call", guidStr(*again), guidStr(fromBEHeld))
	}
	if again := g.Format(); again != text {
		fail("Format(g) is not repeatable", again, text)
	}
	be, back, backUp, fromBE = beHeld, &backHeld, &backUpHeld, &fromBEHeld // judged below as they were returned
	if !canonGUID.MatchString(text) {
		fail("Format is not the canonical 36-character lower-case text", text, canonGUID.String())
	} else {
		f := strings.Split(text, "-")
		v1, _ := strconv.ParseUint(f[0], 16, 32)
		v2, _ := strconv.ParseUint(f[1], 16, 16)
		v3, _ := strconv.ParseUint(f[2], 16, 16)
		v4, _ := strconv.ParseUint(f[3]+f[4], 16, 64)
		if uint32(v1) != g.Data1 || uint16(v2) != g.Data2 || uint16(v3) != g.Data3 || v4 != binary.BigEndian.Uint64(g.Data4[:]) {
			fail("Format does not spell the GUID's fields", text, guidStr(g))
		}
	}
	if *back != g {
		fail("StringToGUID(Format(g)) != g", guidStr(*back), guidStr(g))
	}
	if *backUp != g {
		fail("StringToGUID(upper(Format(g))) != g", guidStr(*backUp), guidStr(g))
	}
	if *fromBE != g {
		fail("BytesToGUID(GUIDToBytes(g)) != g", guidStr(*fromBE), guidStr(g))
	}
	wantBE := make([]byte, 16)
	binary.BigEndian.PutUint32(wantBE, g.Data1)
	binary.BigEndian.PutUint16(wantBE[4:], g.Data2)
	binary.BigEndian.PutUint16(wantBE[6:], g.Data3)
	copy(wantBE[8:], g.Data4[:])
	if !bytes.Equal(be, wantBE) {
		fail("GUIDToBytes is not the big-endian byte form", hx(be), hx(wantBE))
	}
	wantWire := make([]byte, 16)
	binary.LittleEndian.PutUint32(wantWire, g.Data1)
	binary.LittleEndian.PutUint16(wantWire[4:], g.Data2)
	binary.LittleEndian.PutUint16(wantWire[6:], g.Data3)
	copy(wantWire[8:], g.Data4[:])
	if !bytes.Equal(wire.Bytes(), wantWire) {
		fail("in-structure encoding is not Data1,Data2,Data3 little-endian then Data4", hx(wire.Bytes()), hx(wantWire))
	}
	if !util.CmpEFIGUID(g, g) {
		fail("CmpEFIGUID(g,g) is false", "false", "true")
	}
	// equality is field-wise: perturb one field at a time
	for i := 0; i < 4; i++ {
		h := g
		switch i {
		case 0:
			h.Data1 ^= 1 << uint(c.Rng.Intn(32))
		case 1:
			h.Data2 ^= 1 << uint(c.Rng.Intn(16))
		case 2:
			h.Data3 ^= 1 << uint(c.Rng.Intn(16))
		case 3:
			h.Data4[c.Rng.Intn(8)] ^= 1 << uint(c.Rng.Intn(8))
		}
		if util.CmpEFIGUID(g, h) || util.CmpEFIGUID(h, g) {
			fail("CmpEFIGUID is true for GUIDs that differ in one field", "true", guidStr(h))
		}
		if m := c.Drv.Ask("guid.cmp", append(guidArgs(g), guidArgs(h)...)...); m != "false" {
			c.Fail(Failure{Kind: "tie", What: "model cmpGuid", Case: cs, Model: m, Go: "false"})
		}
	}

	// --- correspondence with the Lean model ---
	tie := func(what, model, goObs string) {
		c.Trace()
		if model != goObs {
			c.Fail(Failure{Kind: "tie", What: what, Case: cs, Model: model, Go: goObs})
		}
	}
	tie("guid.format", c.Drv.Ask("guid.format", guidArgs(g)...), text)
	tie("guid.tobytes", c.Drv.Ask("guid.tobytes", guidArgs(g)...), hx(be))
	tie("guid.wire", c.Drv.Ask("guid.wire", guidArgs(g)...), hx(wire.Bytes()))
	tie("guid.parse", c.Drv.Ask("guid.parse", hx([]byte(text))), guidStr(*back))
	tie("guid.parse upper", c.Drv.Ask("guid.parse", hx([]byte(strings.ToUpper(text)))), guidStr(*backUp))
	tie("guid.frombytes", c.Drv.Ask("guid.frombytes", hx(be)), guidStr(*fromBE))
}

// arbitrary text handed to StringToGUID: correspondence only (the property speaks about canonical text)
func c17EvalText(c *Ctx, cs Case) {
	text := string(unhx(cs.S("text")))
	c.Count(cs.Key(), len(text) > 0, "guidtext")
	var got *util.EFIGUID
	if p, msg := safely(func() { got = util.StringToGUID(text) }); p {
		c.Fail(Failure{Kind: "property", What: "StringToGUID panicked", Case: cs, Go: msg})
		return
	}
	c.Trace()
	if m := c.Drv.Ask("guid.parse", hx([]byte(text))); m != guidStr(*got) {
		c.Fail(Failure{Kind: "tie", What: "guid.parse on arbitrary text", Case: cs, Model: m, Go: guidStr(*got)})
	}
}

func specUtf16(s string) []byte {
	var out []byte
	for _, u := range utf16.Encode([]rune(s)) {
		out = append(out, byte(u), byte(u>>8))
	}
	return append(out, 0, 0)
}

func c17EvalString(c *Ctx, cs Case) {
	s := string(unhx(cs.S("s")))
	if !utf8.ValidString(s) || strings.ContainsRune(s, 0) {
		return
	}
	nonBMP := false
	for _, r := range s {
		if r > 0xffff {
			nonBMP = true
		}
	}
	cls := "ascii"
	if nonBMP {
		cls = "nonbmp"
	} else if len(s) != len([]rune(s)) {
		cls = "bmp"
	}
	if len(s) == 0 {
		cls = "empty"
	}
	if len(s) > 2000 {
		cls += "-long"
	}
	c.Count(cs.Key(), len(s) > 0, "string/"+cls)
	if len(s) < 200 {
		c.Sample(cs)
	}
	enc := util.MarshalUtf16Var(s)
	if want := specUtf16(s); !bytes.Equal(enc, want) {
		c.Fail(Failure{Kind: "property", What: "MarshalUtf16Var is not UTF-16LE plus one NUL terminator", Case: cs, Go: hx(enc), Spec: hx(want)})
	}
	// the encoding that was returned keeps its value while other strings are encoded and decoded, and
	// overwriting it does not change what encoding the same string returns next time
	encHeld := append([]byte{}, enc...)
	for _, o := range []string{"x" + s, strings.ToUpper(s) + "\u00e9\U0001F600", s} {
		oe := util.MarshalUtf16Var(o)
		safely(func() { util.ParseUtf16Var(bytes.NewBuffer(oe)) })
	}
	if !bytes.Equal(enc, encHeld) {
		c.Fail(Failure{Kind: "property", What: "the encoding returned for a string changed while other strings were converted (the result shares memory with later calls)", Case: cs, Go: hx(enc), Spec: hx(encHeld)})
	}
	for i := range enc {
		enc[i] ^= 0xa5
	}
	if again := util.MarshalUtf16Var(s); !bytes.Equal(again, encHeld) {
		c.Fail(Failure{Kind: "property", What: "MarshalUtf16Var(s) returns something else after the caller overwrote the result of an earlier call", Case: cs, Go: hx(again), Spec: hx(encHeld)})
	}
	enc = encHeld
	var dec string
	var err error
	if p, msg := safely(func() { dec, err = util.ParseUtf16Var(bytes.NewBuffer(append([]byte{}, enc...))) }); p {
		c.Fail(Failure{Kind: "property", What: "ParseUtf16Var panicked", Case: cs, Go: msg})
	} else if err != nil || dec != s {
		c.Fail(Failure{Kind: "property", What: "ParseUtf16Var(MarshalUtf16Var(s)) != s", Case: cs, Go: fmt.Sprintf("%q err=%v", dec, err), Spec: fmt.Sprintf("%q", s)})
	}
	var es efivar.Efistring
	// followed by unrelated bytes: the terminator delimits the string
	tail := append(append([]byte{}, enc...), 0x41, 0x00, 0x42, 0x00)
	if p, msg := safely(func() { err = es.Unmarshal(bytes.NewBuffer(tail)) }); p {
		c.Fail(Failure{Kind: "property", What: "Efistring.Unmarshal panicked", Case: cs, Go: msg})
	} else if err != nil || string(es) != s {
		c.Fail(Failure{Kind: "property", What: "Efistring.Unmarshal(encoding of s ++ tail) != s", Case: cs, Go: fmt.Sprintf("%q err=%v", string(es), err), Spec: fmt.Sprintf("%q", s)})
	}
	c.Trace()
	if m := c.Drv.Ask("utf16.enc", hx([]byte(s))); m != hx(enc) {
		c.Fail(Failure{Kind: "tie", What: "utf16.enc", Case: cs, Model: m, Go: hx(enc)})
	}
	c.Trace()
	if m := c.Drv.Ask("utf16.dec", hx(enc)); m != "ok "+hx([]byte(dec)) {
		c.Fail(Failure{Kind: "tie", What: "utf16.dec", Case: cs, Model: m, Go: "ok " + hx([]byte(dec))})
	}
}

func outcomeOfString(p bool, s string, err error) string {
	switch {
	case p:
		return "panic"
	case err != nil:
		return "err"
	}
	return "ok " + hx([]byte(s))
}

// arbitrary bytes handed to the decoder
func c17EvalBytes(c *Ctx, cs Case) {
	b := unhx(cs.S("bytes"))
	hasTerm := len(b) >= 2 && b[len(b)-1] == 0 && b[len(b)-2] == 0 && len(b)%2 == 0
	cls := "noterm"
	if hasTerm {
		cls = "term"
	}
	if len(b) == 0 {
		cls = "empty"
	}
	c.Count(cs.Key(), len(b) > 0, "bytes/"+cls)
	var dec string
	var err error
	p, _ := safely(func() { dec, err = util.ParseUtf16Var(bytes.NewBuffer(append([]byte{}, b...))) })
	obs := outcomeOfString(p, dec, err)
	if !hasTerm && !strings.HasPrefix(obs, "err") {
		m := ""
		if len(b) == 0 {
			m = "c17.empty_input_panics"
		}
		c.Fail(Failure{Kind: "property", Matcher: m, What: "decoding input without the NUL terminator is not an error", Case: cs, Go: obs, Spec: "err"})
	}
	c.Trace()
	if m := c.Drv.Ask("utf16.dec", hx(b)); m != obs {
		c.Fail(Failure{Kind: "tie", What: "utf16.dec on arbitrary bytes", Case: cs, Model: m, Go: obs})
	}
	var es efivar.Efistring
	p, _ = safely(func() { err = es.Unmarshal(bytes.NewBuffer(append([]byte{}, b...))) })
	obs = outcomeOfString(p, string(es), err)
	// the reader-based decoder scans for the terminator code unit: input that holds no 00 00 at an even offset (it ends
	// inside a code unit, or simply ends) has no terminator, and decoding it is an error
	unit := false
	for i := 0; i+1 < len(b); i += 2 {
		if b[i] == 0 && b[i+1] == 0 {
			unit = true
			break
		}
	}
	if !unit && !strings.HasPrefix(obs, "err") {
		c.Fail(Failure{Kind: "property", Matcher: "c17.efistring_noterm", What: "Efistring.Unmarshal: decoding input without the NUL terminator code unit is not an error", Case: cs, Go: obs, Spec: "err"})
	}
	c.Trace()
	if m := c.Drv.Ask("efistring", hx(b)); m != obs {
		c.Fail(Failure{Kind: "tie", What: "efistring on arbitrary bytes", Case: cs, Model: m, Go: obs})
	}
}

func c17Eval(c *Ctx, cs Case) {
	switch cs.S("op") {
	case "guid":
		c17EvalGuid(c, cs)
	case "guidtext":
		c17EvalText(c, cs)
	case "string":
		c17EvalString(c, cs)
	case "bytes":
		c17EvalBytes(c, cs)
	}
}

func guidCase(g util.EFIGUID) Case {
	return Case{"op": "guid", "d1": int64(g.Data1), "d2": int64(g.Data2), "d3": int64(g.Data3), "d4": hx(g.Data4[:])}
}

func c17Gen(c *Ctx) {
	// boundary GUIDs: each field 0, 1, all-ones, single bits; a zero nibble in every text position
	var gs []util.EFIGUID
	gs = append(gs, util.EFIGUID{}, util.EFIGUID{Data1: 0xffffffff, Data2: 0xffff, Data3: 0xffff, Data4: [8]byte{255, 255, 255, 255, 255, 255, 255, 255}})
	for i := 0; i < 32; i++ {
		gs = append(gs, util.EFIGUID{Data1: 1 << uint(i)})
	}
	for i := 0; i < 16; i++ {
		gs = append(gs, util.EFIGUID{Data2: 1 << uint(i)}, util.EFIGUID{Data3: 1 << uint(i)})
	}
	for i := 0; i < 8; i++ {
		for b := 0; b < 8; b++ {
			var g util.EFIGUID
			g.Data4[i] = 1 << uint(b)
			gs = append(gs, g)
		}
	}
	for nib := 0; nib < 32; nib++ { // all-f except one zero nibble
		raw := bytes.Repeat([]byte{0xff}, 16)
		if nib%2 == 0 {
			raw[nib/2] &= 0x0f
		} else {
			raw[nib/2] &= 0xf0
		}
		gs = append(gs, *util.BytesToGUID(raw))
	}
	for i := 0; i < c.N(2000, 200000); i++ {
		raw := make([]byte, 16)
		c.Rng.Read(raw)
		if c.Rng.Intn(4) == 0 { // sparse bytes: many leading zeros
			for j := range raw {
				if c.Rng.Intn(2) == 0 {
					raw[j] = 0
				}
			}
		}
		gs = append(gs, *util.BytesToGUID(raw))
	}
	for _, g := range gs {
		c17EvalGuid(c, guidCase(g))
	}
	// arbitrary texts
	texts := []string{"", "-", "8be4df61-93ca-11d2-aa0d-00e098032b8c", "8BE4DF61-93CA-11D2-AA0D-00E098032B8C", "8be4df6193ca11d2aa0d00e098032b8c",
		"8be4df61-93ca-11d2-aa0d-00e098032b8", "8be4df61-93ca-11d2-aa0d-00e098032b8c00", "zz", "8be4df61-93ca-11d2-aa0d-00e098032bzz", "0x8be4df61", "{8be4df61-93ca-11d2-aa0d-00e098032b8c}"}
	for i := 0; i < c.N(300, 20000); i++ {
		raw := make([]byte, 16)
		c.Rng.Read(raw)
		t := util.BytesToGUID(raw).Format()
		bs := []byte(t)
		switch c.Rng.Intn(5) {
		case 0:
			bs = bs[:c.Rng.Intn(len(bs))]
		case 1:
			bs[c.Rng.Intn(len(bs))] = byte(c.Rng.Intn(128))
		case 2:
			bs = append(bs, bs[:c.Rng.Intn(8)]...)
		case 3:
			bs = bytes.ToUpper(bs)
		case 4:
			p := c.Rng.Intn(len(bs))
			bs = append(bs[:p], append([]byte{'-'}, bs[p:]...)...)
		}
		texts = append(texts, string(bs))
	}
	for _, t := range texts {
		c17EvalText(c, Case{"op": "guidtext", "text": hx([]byte(t))})
	}
	// strings
	strs := []string{"", "a", "Linux Boot Manager", "\u007f", "\u0080", "\u07ff", "\u0800", "\ud7ff", "\ue000", "\ufffd", "\uffff", "\U00010000", "\U0010ffff",
		"\ufeffabc", "abc\ufeff", "\U0001F600\U0001F600", "\u00e9\U0001F600x"}
	for _, off := range []int{4090, 4094, 4095, 4096, 4097, 8190, 8191, 8192, 8193} {
		for _, ch := range []string{"\u00e9", "\u20ac", "\U0001F600"} {
			strs = append(strs, strings.Repeat("a", off)+ch+strings.Repeat("b", 7))
		}
	}
	pool := []rune{'a', 'Z', '0', ' ', '\\', 0x7f, 0x80, 0x7ff, 0x800, 0xd7ff, 0xe000, 0xfeff, 0xfffd, 0xffff, 0x10000, 0x1f600, 0x10ffff}
	for i := 0; i < c.N(1000, 50000); i++ {
		n := c.Rng.Intn(40)
		if c.Rng.Intn(50) == 0 {
			n = 3000 + c.Rng.Intn(c.P(3000, 13000))
		}
		rs := make([]rune, n)
		for j := range rs {
			if c.Rng.Intn(3) == 0 {
				rs[j] = pool[c.Rng.Intn(len(pool))]
			} else {
				for {
					r := rune(1 + c.Rng.Intn(0x10ffff))
					if c.Rng.Intn(2) == 0 {
						r = rune(1 + c.Rng.Intn(0x7f))
					}
					if utf8.ValidRune(r) {
						rs[j] = r
						break
					}
				}
			}
		}
		strs = append(strs, string(rs))
	}
	for _, s := range strs {
		c17EvalString(c, Case{"op": "string", "s": hx([]byte(s))})
	}
	// arbitrary bytes for the decoder
	bss := [][]byte{nil, {0}, {0, 0}, {0x41}, {0x41, 0}, {0x41, 0, 0}, {0x41, 0, 0, 0}, {0, 0, 0x41, 0}, {0x00, 0xd8}, {0x00, 0xd8, 0, 0}, {0x00, 0xdc, 0x00, 0xdc, 0, 0}, {0x00, 0xd8, 0x00, 0xdc, 0, 0}, {0x00, 0xdc, 0x00, 0xd8, 0, 0}, {0x3d, 0xd8, 0x41, 0, 0, 0}}
	for i := 0; i < c.N(500, 20000); i++ {
		n := c.Rng.Intn(24)
		b := make([]byte, n)
		for j := range b {
			switch c.Rng.Intn(4) {
			case 0:
				b[j] = 0
			case 1:
				b[j] = byte(0xd8 + c.Rng.Intn(8))
			default:
				b[j] = byte(c.Rng.Intn(256))
			}
		}
		if c.Rng.Intn(2) == 0 {
			b = append(b, 0, 0)
		}
		bss = append(bss, b)
	}
	for _, b := range bss {
		c17EvalBytes(c, Case{"op": "bytes", "bytes": hx(b)})
	}
}

func init() {
	register("C17", &PropDef{
		Rule:   "GUIDs: boundary patterns (each field 0/1/all-ones/single bits, a zero nibble at every text position) then random 128-bit values; strings: edge code points, BOM, transformer-buffer-straddling lengths, then random NUL-free scalar sequences; arbitrary texts and byte strings for the decoders. Every GUID / string case is a two-step sequence: the results of the first conversions are held while two other GUIDs (the complement and a rotation) / three other strings go through every conversion twice, must then still have their value, are then overwritten by the caller, and the same conversions are repeated and must return what they returned first. A case is non-trivial if it is not the all-zero GUID / the empty string; distinct = distinct case encodings.",
		Assume: []string{"Go strings handed to MarshalUtf16Var are valid UTF-8 (the property quantifies over valid Unicode strings)"},
		Eval:   c17Eval,
		Gen:    c17Gen,
	})
}
