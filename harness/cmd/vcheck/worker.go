package main

func workerMain(args []string) {}
