package main

import (
	"bufio"
	"encoding/json"
	"fmt"
	"io"
	"os"
	"os/exec"
	"runtime"
	"strings"
	"sync"
	"time"
)

// ---- worker side: one JSON request per line in, one JSON answer per line out; the real Go code is
// called here, so a log.Fatal / os.Exit / runtime crash kills only this process ----

type wReq struct {
	ID   int               `json:"id"`
	Op   string            `json:"op"`
	Args map[string]string `json:"args"`
}

type wRes struct {
	ID    int    `json:"id"`
	Class string `json:"class"` // ok | err | panic (recovered) ; exit / oom / timeout are assigned by the parent
	Out   string `json:"out"`
	Alloc uint64 `json:"alloc"` // runtime.MemStats.TotalAlloc delta
	Ms    int64  `json:"ms"`
	Us    int64  `json:"us"` // the same duration in microseconds (0 when the parent measured it)
	Panic string `json:"panic,omitempty"`
}

var workerOps = map[string]func(args map[string]string) (class, out string){}

func workerMain(args []string) {
	in := bufio.NewReaderSize(os.Stdin, 1<<22)
	out := bufio.NewWriter(os.Stdout)
	for {
		line, err := in.ReadBytes('\n')
		if len(line) > 0 {
			var req wReq
			if json.Unmarshal(line, &req) == nil {
				res := runWorkerOp(req)
				b, _ := json.Marshal(res)
				out.Write(b)
				out.WriteByte('\n')
				out.Flush()
			}
		}
		if err != nil {
			return
		}
	}
}

func runWorkerOp(req wReq) (res wRes) {
	res.ID = req.ID
	f, ok := workerOps[req.Op]
	if !ok {
		res.Class, res.Out = "bad-op", req.Op
		return
	}
	var m0, m1 runtime.MemStats
	runtime.ReadMemStats(&m0)
	t0 := time.Now()
	func() {
		defer func() {
			if r := recover(); r != nil {
				res.Class, res.Panic = "panic", fmt.Sprint(r)
			}
		}()
		res.Class, res.Out = f(req.Args)
	}()
	el := time.Since(t0)
	res.Ms, res.Us = el.Milliseconds(), el.Microseconds()
	runtime.ReadMemStats(&m1)
	res.Alloc = m1.TotalAlloc - m0.TotalAlloc
	return
}

// ---- parent side ----

type Worker struct {
	c        *Ctx
	env      []string
	memKB    int64
	cmd      *exec.Cmd
	in       io.WriteCloser
	out      *bufio.Reader
	stderr   *tailBuf
	n        int
	mu       sync.Mutex
	startCmd func() *exec.Cmd // overrides the default (this binary under ulimit -v)
}

type tailBuf struct {
	mu    sync.Mutex
	b     []byte
	oom   bool
	crash bool
	first string
}

func (t *tailBuf) Write(p []byte) (int, error) {
	t.mu.Lock()
	s := string(p)
	if t.first == "" {
		t.first = strings.SplitN(strings.TrimSpace(s), "\n", 2)[0]
	}
	if strings.Contains(s, "out of memory") || strings.Contains(s, "cannot allocate memory") {
		t.oom = true
	}
	if strings.Contains(s, "DATA RACE") {
		t.first = "DATA RACE " + t.first
	}
	if strings.Contains(s, "panic:") || strings.Contains(s, "fatal error:") || (strings.Contains(s, "goroutine ") && !strings.Contains(s, "DATA RACE")) {
		t.crash = true
	}
	t.b = append(t.b, p...)
	if len(t.b) > 8192 {
		t.b = t.b[len(t.b)-8192:]
	}
	t.mu.Unlock()
	return len(p), nil
}
func (t *tailBuf) String() string { t.mu.Lock(); defer t.mu.Unlock(); return string(t.b) }

// NewWorker starts a sandboxed worker: address-space limit (so that a 4 GiB allocation is an
// immediate out-of-memory instead of minutes of page zeroing), extra environment (e.g. TZ).
func (c *Ctx) NewWorker(memKB int64, env ...string) *Worker {
	w := &Worker{c: c, env: env, memKB: memKB}
	w.start()
	return w
}

func (w *Worker) start() {
	if w.startCmd != nil {
		w.cmd = w.startCmd()
	} else {
		self, _ := os.Executable()
		sh := fmt.Sprintf("ulimit -v %d 2>/dev/null; exec %q worker", w.memKB, self)
		w.cmd = exec.Command("/bin/sh", "-c", sh)
	}
	w.cmd.Env = append(os.Environ(), w.env...)
	w.in, _ = w.cmd.StdinPipe()
	o, _ := w.cmd.StdoutPipe()
	w.out = bufio.NewReaderSize(o, 1<<22)
	w.stderr = &tailBuf{}
	w.cmd.Stderr = w.stderr
	w.cmd.Start()
}

func (w *Worker) Close() {
	if w.in != nil {
		w.in.Close()
	}
	if w.cmd != nil {
		done := make(chan struct{})
		go func() { w.cmd.Wait(); close(done) }()
		select {
		case <-done:
		case <-time.After(2 * time.Second):
			w.cmd.Process.Kill()
		}
	}
}

// Do runs one operation; a dead or silent worker is classified and restarted.
func (w *Worker) Do(op string, args map[string]string, timeout time.Duration) wRes {
	w.mu.Lock()
	defer w.mu.Unlock()
	w.n++
	req := wReq{ID: w.n, Op: op, Args: args}
	b, _ := json.Marshal(req)
	type rr struct {
		line []byte
		err  error
	}
	ch := make(chan rr, 1)
	t0 := time.Now()
	go func() {
		if _, err := w.in.Write(append(b, '\n')); err != nil {
			ch <- rr{nil, err}
			return
		}
		line, err := w.out.ReadBytes('\n')
		ch <- rr{line, err}
	}()
	select {
	case r := <-ch:
		if r.err == nil {
			var res wRes
			if json.Unmarshal(r.line, &res) == nil && res.ID == req.ID {
				return res
			}
		}
		// the worker died while running this operation
		w.cmd.Wait()
		w.stderr.mu.Lock()
		oom, crash, first := w.stderr.oom, w.stderr.crash, w.stderr.first
		w.stderr.mu.Unlock()
		res := wRes{ID: req.ID, Ms: time.Since(t0).Milliseconds(), Out: first}
		switch {
		case oom:
			res.Class = "oom"
		case crash:
			res.Class = "panic"
		default:
			res.Class = "exit" // log.Fatal* / os.Exit: the process ended without a Go crash trace
		}
		w.start()
		return res
	case <-time.After(timeout):
		w.cmd.Process.Kill()
		w.cmd.Wait()
		w.start()
		return wRes{ID: req.ID, Class: "timeout", Ms: time.Since(t0).Milliseconds()}
	}
}

func lastLines(s string, n int) string {
	ls := strings.Split(strings.TrimSpace(s), "\n")
	if len(ls) > n {
		ls = ls[len(ls)-n:]
	}
	return strings.Join(ls, " | ")
}
