package main

import (
	"bufio"
	"encoding/json"
	"fmt"
	"io"
	"os"
	"os/exec"
	"os/signal"
	"runtime"
	"strings"
	"sync"
	"syscall"
	"time"
)

// ---- worker side: one JSON request per line in, one JSON answer per line out; the real Go code is
// called here, so a log.Fatal / os.Exit / runtime crash kills only this process ----

type wReq struct {
	ID   int               `json:"id"`
	Op   string            `json:"op"`
	Args map[string]string `json:"args"`
	Tmo  int64             `json:"tmo,omitempty"` // the parent's deadline for this request in ms (0 = none)
}

type wRes struct {
	ID    int    `json:"id"`
	Class string `json:"class"` // ok | err | panic (recovered) ; exit / oom / timeout / not-run are assigned by the parent
	Out   string `json:"out"`
	Alloc uint64 `json:"alloc"` // runtime.MemStats.TotalAlloc delta
	Ms    int64  `json:"ms"`
	Us    int64  `json:"us"` // the same duration in microseconds (0 when the parent measured it)
	Panic string `json:"panic,omitempty"`
}

var workerOps = map[string]func(args map[string]string) (class, out string){}

// workerGrace is how long a worker outlives the end of its input or the deadline of a request.
const workerGrace = 2 * time.Second

// workerMain never outlives its parent: requests are read by a goroutine of their own, so the end of
// stdin (the parent closed the pipe, exited or was killed - the kernel closes the pipe of a dead
// process) is seen even while an operation spins, and ends this process after a short grace period.
// A request that carries a deadline also arms a timer that ends the process should the parent not
// have killed it by then. Either way a hanging operation cannot leave an orphan that burns CPU.
func workerMain(args []string) {
	in := bufio.NewReaderSize(os.Stdin, 1<<22)
	out := bufio.NewWriter(os.Stdout)
	lines := make(chan []byte)
	go func() {
		for {
			line, err := in.ReadBytes('\n')
			if len(line) > 0 {
				lines <- line
			}
			if err != nil {
				close(lines)
				time.Sleep(workerGrace) // an idle worker has returned from workerMain long before
				os.Exit(0)
			}
		}
	}()
	for line := range lines {
		var req wReq
		if json.Unmarshal(line, &req) != nil {
			continue
		}
		var deadline *time.Timer
		if req.Tmo > 0 {
			deadline = time.AfterFunc(time.Duration(req.Tmo)*time.Millisecond+workerGrace, func() {
				fmt.Fprintf(os.Stderr, "worker: %s still running %v after its deadline of %d ms, giving up\n", req.Op, workerGrace, req.Tmo)
				os.Exit(4)
			})
		}
		res := runWorkerOp(req)
		if deadline != nil {
			deadline.Stop()
		}
		b, _ := json.Marshal(res)
		out.Write(b)
		out.WriteByte('\n')
		out.Flush()
	}
}

func runWorkerOp(req wReq) (res wRes) {
	res.ID = req.ID
	f, ok := workerOps[req.Op]
	if !ok {
		res.Class, res.Out = "bad-op", req.Op
		return
	}
	var m0, m1 runtime.MemStats
	runtime.ReadMemStats(&m0)
	t0 := time.Now()
	func() {
		defer func() {
			if r := recover(); r != nil {
				res.Class, res.Panic = "panic", fmt.Sprint(r)
			}
		}()
		res.Class, res.Out = f(req.Args)
	}()
	el := time.Since(t0)
	res.Ms, res.Us = el.Milliseconds(), el.Microseconds()
	runtime.ReadMemStats(&m1)
	res.Alloc = m1.TotalAlloc - m0.TotalAlloc
	return
}

// ---- parent side ----

type Worker struct {
	c        *Ctx
	env      []string
	memKB    int64
	cmd      *exec.Cmd
	in       io.WriteCloser
	out      *bufio.Reader
	stderr   *tailBuf
	n        int
	mu       sync.Mutex
	startCmd func() *exec.Cmd // overrides the default (this binary under ulimit -v)
	// MaxTimeouts > 0 bounds the time a run can lose to operations that hang: once that many requests
	// have timed out the worker is not started again and every further request is answered at once
	// with class "not-run". The timeouts themselves are reported by the caller; a run in which every
	// input hangs so ends after MaxTimeouts x timeout instead of (number of inputs) x timeout.
	MaxTimeouts int
	timeouts    int
}

// Tripped says whether the worker has stopped taking requests (see MaxTimeouts).
func (w *Worker) Tripped() bool {
	w.mu.Lock()
	defer w.mu.Unlock()
	return w.MaxTimeouts > 0 && w.timeouts >= w.MaxTimeouts
}

// every running worker process, so that they can be killed when this process is told to end
var liveWorkers = struct {
	sync.Mutex
	m map[*exec.Cmd]bool
}{m: map[*exec.Cmd]bool{}}

func killLiveWorkers() {
	liveWorkers.Lock()
	for cmd := range liveWorkers.m {
		if cmd.Process != nil {
			cmd.Process.Kill()
		}
	}
	liveWorkers.Unlock()
}

var guardOnce sync.Once

// guardWorkers makes sure no worker survives this process. A worker ends by itself when its stdin
// closes (which covers SIGKILL of this process); on SIGINT/SIGTERM/SIGHUP, and when the process that
// started this one goes away (the check script was killed: nobody is left to read the result), the
// workers are killed at once and this process ends abnormally.
func guardWorkers() {
	guardOnce.Do(func() {
		sig := make(chan os.Signal, 1)
		for _, sg := range []os.Signal{os.Interrupt, syscall.SIGTERM, syscall.SIGHUP} {
			if !signal.Ignored(sg) { // (a run under nohup keeps ignoring SIGHUP)
				signal.Notify(sig, sg)
			}
		}
		ppid := os.Getppid()
		go func() {
			tick := time.NewTicker(500 * time.Millisecond)
			for {
				select {
				case s := <-sig:
					killLiveWorkers()
					fmt.Fprintf(os.Stderr, "vcheck: %v: workers killed\n", s)
					os.Exit(3)
				case <-tick.C:
					if ppid > 1 && os.Getppid() != ppid {
						killLiveWorkers()
						fmt.Fprintln(os.Stderr, "vcheck: the parent process is gone: workers killed")
						os.Exit(3)
					}
				}
			}
		}()
	})
}

type tailBuf struct {
	mu    sync.Mutex
	b     []byte
	oom   bool
	crash bool
	first string
}

func (t *tailBuf) Write(p []byte) (int, error) {
	t.mu.Lock()
	s := string(p)
	if t.first == "" {
		t.first = strings.SplitN(strings.TrimSpace(s), "\n", 2)[0]
	}
	if strings.Contains(s, "out of memory") || strings.Contains(s, "cannot allocate memory") {
		t.oom = true
	}
	if strings.Contains(s, "DATA RACE") {
		t.first = "DATA RACE " + t.first
	}
	if strings.Contains(s, "panic:") || strings.Contains(s, "fatal error:") || (strings.Contains(s, "goroutine ") && !strings.Contains(s, "DATA RACE")) {
		t.crash = true
	}
	t.b = append(t.b, p...)
	if len(t.b) > 8192 {
		t.b = t.b[len(t.b)-8192:]
	}
	t.mu.Unlock()
	return len(p), nil
}
func (t *tailBuf) String() string { t.mu.Lock(); defer t.mu.Unlock(); return string(t.b) }

// NewWorker starts a sandboxed worker: address-space limit (so that a 4 GiB allocation is an
// immediate out-of-memory instead of minutes of page zeroing), extra environment (e.g. TZ).
func (c *Ctx) NewWorker(memKB int64, env ...string) *Worker {
	w := &Worker{c: c, env: env, memKB: memKB}
	w.start()
	return w
}

func (w *Worker) start() {
	guardWorkers()
	if w.startCmd != nil {
		w.cmd = w.startCmd()
	} else {
		self, _ := os.Executable()
		sh := fmt.Sprintf("ulimit -v %d 2>/dev/null; exec %q worker", w.memKB, self)
		w.cmd = exec.Command("/bin/sh", "-c", sh)
	}
	w.cmd.Env = append(os.Environ(), w.env...)
	w.in, _ = w.cmd.StdinPipe()
	o, _ := w.cmd.StdoutPipe()
	w.out = bufio.NewReaderSize(o, 1<<22)
	w.stderr = &tailBuf{}
	w.cmd.Stderr = w.stderr
	if w.cmd.Start() == nil {
		liveWorkers.Lock()
		liveWorkers.m[w.cmd] = true
		liveWorkers.Unlock()
	}
}

// reap waits for the (dead or killed) worker process and forgets it.
func (w *Worker) reap() {
	w.cmd.Wait()
	liveWorkers.Lock()
	delete(liveWorkers.m, w.cmd)
	liveWorkers.Unlock()
}

func (w *Worker) Close() {
	w.mu.Lock()
	defer w.mu.Unlock()
	if w.in != nil {
		w.in.Close()
		w.in = nil
	}
	if w.cmd != nil {
		done := make(chan struct{})
		cmd := w.cmd
		go func() { w.reap(); close(done) }()
		select {
		case <-done:
		case <-time.After(2 * time.Second):
			cmd.Process.Kill()
			<-done
		}
		w.cmd = nil
	}
}

// Do runs one operation; a dead or silent worker is classified and restarted.
func (w *Worker) Do(op string, args map[string]string, timeout time.Duration) wRes {
	w.mu.Lock()
	defer w.mu.Unlock()
	w.n++
	req := wReq{ID: w.n, Op: op, Args: args, Tmo: timeout.Milliseconds()}
	if w.MaxTimeouts > 0 && w.timeouts >= w.MaxTimeouts {
		return wRes{ID: req.ID, Class: "not-run"}
	}
	if w.cmd == nil { // closed, or not started again after the last timeout
		w.start()
	}
	b, _ := json.Marshal(req)
	type rr struct {
		line []byte
		err  error
	}
	ch := make(chan rr, 1)
	t0 := time.Now()
	in, out := w.in, w.out
	go func() {
		if _, err := in.Write(append(b, '\n')); err != nil {
			ch <- rr{nil, err}
			return
		}
		line, err := out.ReadBytes('\n')
		ch <- rr{line, err}
	}()
	timer := time.NewTimer(timeout)
	defer timer.Stop()
	select {
	case r := <-ch:
		if r.err == nil {
			var res wRes
			if json.Unmarshal(r.line, &res) == nil && res.ID == req.ID {
				return res
			}
		}
		// the worker died while running this operation
		w.cmd.Process.Kill() // (a no-op when it is dead already; never wait for a live one)
		w.reap()
		w.stderr.mu.Lock()
		oom, crash, first := w.stderr.oom, w.stderr.crash, w.stderr.first
		w.stderr.mu.Unlock()
		res := wRes{ID: req.ID, Ms: time.Since(t0).Milliseconds(), Out: first}
		switch {
		case oom:
			res.Class = "oom"
		case crash:
			res.Class = "panic"
		default:
			res.Class = "exit" // log.Fatal* / os.Exit: the process ended without a Go crash trace
		}
		w.start()
		return res
	case <-timer.C:
		w.cmd.Process.Kill()
		w.reap()
		w.in.Close()
		w.cmd, w.in = nil, nil
		w.timeouts++
		if !(w.MaxTimeouts > 0 && w.timeouts >= w.MaxTimeouts) {
			w.start()
		}
		return wRes{ID: req.ID, Class: "timeout", Ms: time.Since(t0).Milliseconds()}
	}
}

func lastLines(s string, n int) string {
	ls := strings.Split(strings.TrimSpace(s), "\n")
	if len(ls) > n {
		ls = ls[len(ls)-n:]
	}
	return strings.Join(ls, " | ")
}
