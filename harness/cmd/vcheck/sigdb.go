package main

import (
	"bytes"
	"crypto/ed25519"
	"crypto/rand"
	"crypto/x509"
	"crypto/x509/pkix"
	"encoding/binary"
	"encoding/pem"
	"fmt"
	"math/big"
	mrand "math/rand"
	"strings"
	"time"

	"github.com/foxboron/go-uefi/efi/signature"
	"github.com/foxboron/go-uefi/efi/util"
)

func wireGUID(g util.EFIGUID) []byte {
	var b bytes.Buffer
	binary.Write(&b, binary.LittleEndian, g)
	return b.Bytes()
}

func guidFromWire(b []byte) util.EFIGUID {
	var g util.EFIGUID
	binary.Read(bytes.NewReader(b), binary.LittleEndian, &g)
	return g
}

// canonical text of a Go database, same format as the driver's
func goListStr(l *signature.SignatureList) string {
	sigs := []string{}
	for _, s := range l.Signatures {
		sigs = append(sigs, hx(wireGUID(s.Owner))+":"+hx(s.Data))
	}
	return fmt.Sprintf("%s;%d;%d;%d;%s;%s", hx(wireGUID(l.SignatureType)), l.ListSize, l.HeaderSize, l.Size, hx(l.SignatureHeader), strings.Join(sigs, ","))
}

func goDbStr(db signature.SignatureDatabase) string {
	if len(db) == 0 {
		return "[]"
	}
	xs := []string{}
	for _, l := range db {
		xs = append(xs, goListStr(l))
	}
	return strings.Join(xs, "|")
}

// fieldEnc is the stream the layout in the statement defines for the lists a database object HOLDS - type, the three
// size fields, header and entries of every list, taken from the exported fields and written by the harness itself,
// without a call on the object
func fieldEnc(db signature.SignatureDatabase) []byte {
	var b bytes.Buffer
	for _, l := range db {
		b.Write(wireGUID(l.SignatureType))
		binary.Write(&b, binary.LittleEndian, l.ListSize)
		binary.Write(&b, binary.LittleEndian, l.HeaderSize)
		binary.Write(&b, binary.LittleEndian, l.Size)
		b.Write(l.SignatureHeader)
		for _, sd := range l.Signatures {
			b.Write(wireGUID(sd.Owner))
			b.Write(sd.Data)
		}
	}
	return b.Bytes()
}

type specList struct {
	typ      string
	listSize string
	hdrSize  string
	size     string
	hdr      string
	sigs     [][2]string
}

func parseLists(s string) []specList {
	if s == "[]" {
		return nil
	}
	var out []specList
	for _, ls := range strings.Split(s, "|") {
		f := strings.Split(ls, ";")
		if len(f) != 6 {
			continue
		}
		l := specList{typ: f[0], listSize: f[1], hdrSize: f[2], size: f[3], hdr: f[4]}
		if f[5] != "" {
			for _, e := range strings.Split(f[5], ",") {
				od := strings.Split(e, ":")
				if len(od) == 2 {
					l.sigs = append(l.sigs, [2]string{od[0], od[1]})
				}
			}
		}
		out = append(out, l)
	}
	return out
}

type triple struct{ t, o, d string }

func absOf(ls []specList) []triple {
	var out []triple
	for _, l := range ls {
		for _, s := range l.sigs {
			out = append(out, triple{l.typ, s[0], s[1]})
		}
	}
	return out
}

// one well-formed EFI_SIGNATURE_LIST, encoded independently of the library
func encodeList(typ []byte, hdr []byte, size int, sigs [][2][]byte) []byte {
	var b bytes.Buffer
	b.Write(typ)
	binary.Write(&b, binary.LittleEndian, uint32(28+len(hdr)+len(sigs)*size))
	binary.Write(&b, binary.LittleEndian, uint32(len(hdr)))
	binary.Write(&b, binary.LittleEndian, uint32(size))
	b.Write(hdr)
	for _, s := range sigs {
		b.Write(s[0])
		b.Write(s[1])
	}
	return b.Bytes()
}

var (
	// signature type GUIDs in wire form, written out from UEFI 2.8 section 32.4.1 (not taken from the code under test)
	tX509    = unhx("a159c0a5e494a74a87b5ab155c2bf072")
	tSHA256  = unhx("2616c4c14c509240aca941f936934328")
	tSHA1    = unhx("12a56c8210cfc94ab187be01496631bd")
	tSHA384  = unhx("07533effd09fc94885f18ad56c701e01")
	tEXT     = unhx("ed8c2e45ffdf8c4bae015118862e682c")
	tUnknown = []byte{0xde, 0xad, 0xbe, 0xef, 1, 2, 3, 4, 5, 6, 7, 8, 9, 10, 11, 12}
	// a second GUID that is no signature type: the X.509 type with its last byte changed
	tUnknown2 = unhx("a159c0a5e494a74a87b5ab155c2bf073")
)

// deterministic-length certificates (ed25519: fixed-size keys and signatures)
func makeCert(rng *mrand.Rand, cn string, extra int) []byte {
	seed := make([]byte, ed25519.SeedSize)
	rng.Read(seed)
	key := ed25519.NewKeyFromSeed(seed)
	tmpl := &x509.Certificate{
		SerialNumber: big.NewInt(0x40000000 + int64(rng.Intn(0x3fffffff))),
		Subject:      pkix.Name{CommonName: cn, Organization: []string{strings.Repeat("x", extra)}},
		NotBefore:    time.Unix(1700000000, 0), NotAfter: time.Unix(1900000000, 0),
	}
	der, err := x509.CreateCertificate(rand.Reader, tmpl, tmpl, key.Public(), key)
	if err != nil {
		panic(err)
	}
	return der
}

func pemOf(der []byte) []byte {
	return pem.EncodeToMemory(&pem.Block{Type: "CERTIFICATE", Bytes: der})
}
