package main

import (
	"bytes"
	"encoding/binary"
	"fmt"
	"io"
	mrand "math/rand"
	"os"
	"path/filepath"
	"strings"
	"sync"
	"testing/iotest"
	"time"

	"github.com/foxboron/go-uefi/efi/signature"
)

// srcReader hands the decoder one of the io.Reader kinds callers use, over a private copy of the
// input, and afterwards overwrites everything the decoder could still be pointing into
type srcReader struct {
	r       io.Reader
	kind    string
	rest    int // bytes left unread when clobber was called
	clobber func()
}

var readerKinds = []string{"bytes.Reader", "bytes.Buffer", "one-byte", "data-err", "half"}

type countReader struct {
	r io.Reader
	n int
}

func (c *countReader) Read(p []byte) (int, error) {
	n, err := c.r.Read(p)
	c.n += n
	return n, err
}

func newSrcReader(kind string, b []byte) *srcReader {
	src := append(make([]byte, 0, len(b)+64), b...)
	s := &srcReader{kind: kind}
	scribble := func() {
		full := src[:cap(src)]
		for i := range full {
			full[i] = 0xEE
		}
	}
	switch kind {
	case "bytes.Buffer":
		buf := bytes.NewBuffer(src)
		s.r = buf
		s.clobber = func() {
			s.rest = buf.Len()
			buf.Next(buf.Len()) // drain, as a caller reading the payload would
			buf.Reset()
			buf.Write(bytes.Repeat([]byte{0xEE}, len(b)+32)) // and reuse the buffer
			scribble()
		}
	case "one-byte":
		br := bytes.NewReader(src)
		s.r = iotest.OneByteReader(br)
		s.clobber = func() { s.rest = br.Len(); scribble() }
	case "data-err": // the final data are returned together with io.EOF (this reader reads ahead: count what it hands out)
		cr := &countReader{r: iotest.DataErrReader(bytes.NewReader(src))}
		s.r = cr
		s.clobber = func() { s.rest = len(b) - cr.n; scribble() }
	case "half": // every Read delivers half of what was asked for
		cr := &countReader{r: iotest.HalfReader(bytes.NewReader(src))}
		s.r = cr
		s.clobber = func() { s.rest = len(b) - cr.n; scribble() }
	default:
		s.kind = "bytes.Reader"
		br := bytes.NewReader(src)
		s.r = br
		s.clobber = func() { s.rest = br.Len(); scribble() }
	}
	return s
}

// ---- destinations that already hold content ----
//
// The encoders do not return bytes, they write into a destination the caller supplies (*bytes.Buffer,
// io.Writer), and a caller's buffer is rarely empty: the four attribute bytes of an efivarfs file are
// written first, a descriptor is appended behind another one, a buffer is reused after part of it was
// read. "Encoding a value reproduces the bytes" is then a statement about what the call ADDS: the
// unread content of the destination stays as it is and exactly the encoding follows it. dests gives, for
// one value, destinations of these classes (content derived from the encoding itself, so that replays are
// exact): the attribute word; 1, 15, 16, 17 and 40 bytes; a whole earlier encoding; each also with a
// part of the content already read.
type destCase struct {
	pre  []byte
	read int
}

func dests(enc []byte, salt int) []destCase {
	fill := func(n int) []byte {
		o := make([]byte, n)
		for i := range o {
			o[i] = byte(0xA0 + i)
			if len(enc) > 0 {
				o[i] ^= enc[(i*7+salt)%len(enc)]
			}
		}
		return o
	}
	all := []destCase{
		{[]byte{0x27, 0x00, 0x00, 0x00}, 0},
		{fill(1), 0}, {fill(15), 0}, {fill(16), 0}, {fill(17), 0}, {fill(40), 0},
		{append([]byte{}, enc...), 0},
		{append([]byte{0x27, 0, 0, 0}, enc...), 4},
		{fill(40), 7}, {fill(16), 16}, {fill(300), 0},
	}
	// three of them per value, rotating
	return []destCase{all[0], all[1+salt%5], all[6+salt%5]}
}

// appendsTo runs an encoder on destinations that already hold content; want is what it writes into an empty one
func appendsTo(c *Ctx, cs Case, name string, want []byte, salt int, enc func(b *bytes.Buffer)) {
	for _, d := range dests(want, salt) {
		buf := &bytes.Buffer{}
		buf.Write(d.pre)
		buf.Next(d.read)
		held := append([]byte{}, buf.Bytes()...)
		if p, msg := safely(func() { enc(buf) }); p {
			c.Fail(Failure{Kind: "property", What: fmt.Sprintf("%s into a destination that already holds %d unread bytes panicked: %s", name, len(held), msg), Case: cs})
			return
		}
		c.Class(fmt.Sprintf("dest-with-content/%s/%d-held-%d-read", name, len(held), d.read))
		if exp := append(append([]byte{}, held...), want...); !bytes.Equal(buf.Bytes(), exp) {
			c.Fail(Failure{Kind: "property", What: fmt.Sprintf("%s into a destination that already holds %d unread bytes: the destination does not read as that content followed by the %d bytes of the encoding (what the same call writes into an empty destination)", name, len(held), len(want)),
				Case: cs, Go: clip(hx(buf.Bytes())), Spec: clip(hx(held) + " || " + hx(want))})
			return
		}
	}
}

func c10EvalAuth(c *Ctx, cs Case) {
	b := unhx(cs.S("bytes"))
	cls := cs.S("class")
	r := newSrcReader(cs.S("reader"), b)
	var d *signature.EFIVariableAuthentication2
	var err error
	panicked, pmsg := safely(func() { d, err = signature.ReadEFIVariableAuthencation2(r.r) })
	r.clobber() // the decoded value must not depend on the source after the call
	goObs := "err"
	var reenc []byte
	if panicked {
		goObs = "panic"
	} else if err == nil {
		var tb bytes.Buffer
		binary.Write(&tb, binary.LittleEndian, d.Time)
		var mb bytes.Buffer
		d.Marshal(&mb)
		reenc = mb.Bytes()
		goObs = fmt.Sprintf("ok time=%s len=%d rev=%d type=%d guid=%s data=%s rest=%d reenc=%s", hx(tb.Bytes()), d.AuthInfo.Header.Length, d.AuthInfo.Header.Revision,
			uint16(d.AuthInfo.Header.CertType), hx(wireGUID(d.AuthInfo.CertType)), hx(d.AuthInfo.CertData), r.rest, hx(reenc))
	}
	c.Count(cs.Key(), len(b) > 40, "auth/"+cls+"/"+r.kind+"/"+strings.SplitN(goObs, " ", 2)[0])
	if len(b) < 120 {
		c.Sample(cs)
	}
	if !panicked && err == nil {
		snap := append([]byte{}, reenc...)
		appendsTo(c, cs, "Marshal", snap, len(b), func(buf *bytes.Buffer) { d.Marshal(buf) })
		appendsTo(c, cs, "WriteEFIVariableAuthencation2", snap, len(b)+1, func(buf *bytes.Buffer) { signature.WriteEFIVariableAuthencation2(buf, *d) })
	}
	ans := c.Drv.Ask("auth.read", hx(b))
	mi := strings.Index(ans, " spec=")
	if !strings.HasPrefix(ans, "model=") || mi < 0 {
		c.Fail(Failure{Kind: "tie", What: "driver answer malformed", Case: cs, Model: ans})
		return
	}
	model, spec := ans[len("model="):mi], ans[mi+len(" spec="):]
	c.Trace()
	c.GenTie(cs, "ReadEFIVariableAuthencation2 / Marshal", model, "gen.auth.read", hx(b))
	if model != goObs {
		c.Fail(Failure{Kind: "tie", What: "ReadEFIVariableAuthencation2: model and implementation disagree", Case: cs, Model: clip(model), Go: clip(goObs)})
	}
	fail := func(what, matcher string) {
		c.Fail(Failure{Kind: "property", Matcher: matcher, What: what, Case: cs, Go: clip(goObs), Spec: clip(spec)})
	}
	if panicked {
		fail("decoder panicked: "+pmsg, "")
		return
	}
	// a success says that the 16 + dwLength bytes of the descriptor were there and were consumed: an input that ends
	// before them can only be answered with an error
	if err == nil {
		if len(b) < 24 || 16+uint64(binary.LittleEndian.Uint32(b[16:20])) > uint64(len(b)) {
			fail(fmt.Sprintf("ReadEFIVariableAuthencation2 returned a value and no error although the input (%d bytes) ends before the 16 + dwLength bytes of the descriptor", len(b)), "")
			return
		}
		// ... and that timestamp, revision, certificate type, type GUID and certificate data were recovered from these
		// bytes (whatever the certificate type says): the declared bytes hold the 8-byte WIN_CERTIFICATE header and the
		// 16-byte type GUID only when dwLength is at least 24 - a descriptor that declares less has no type GUID to
		// recover - and the value must hold exactly the fields the declared bytes spell out, the source must be left
		// exactly behind them and the value must encode to them again. Written from the layout, independent of the model.
		dw := int(binary.LittleEndian.Uint32(b[16:20]))
		if dw < 24 {
			fail(fmt.Sprintf("ReadEFIVariableAuthencation2 returned a value and no error for a descriptor whose dwLength is %d: the declared bytes are shorter than the WIN_CERTIFICATE header plus the type GUID (24), so no type GUID can have been recovered from them", dw), "")
			return
		}
		want := fmt.Sprintf("ok time=%s len=%d rev=%d type=%d guid=%s data=%s rest=%d", hx(b[:16]), dw, binary.LittleEndian.Uint16(b[20:]), binary.LittleEndian.Uint16(b[22:]), hx(b[24:40]), hx(b[40:16+dw]), len(b)-16-dw)
		if got := goObs[:strings.Index(goObs, " reenc=")]; got != want {
			c.Fail(Failure{Kind: "property", What: "ReadEFIVariableAuthencation2 succeeded but the value does not hold the timestamp, header fields, type GUID and certificate data that the 16 + dwLength declared bytes spell out, or the source was not left exactly behind them", Case: cs, Go: clip(got), Spec: clip(want)})
			return
		}
		if !bytes.Equal(reenc, b[:16+dw]) {
			fail(fmt.Sprintf("encoding the decoded descriptor gives %d bytes, not the %d bytes that were consumed", len(reenc), 16+dw), "c10.body_written_twice")
			return
		}
	}
	// the WIN_CERTIFICATE_UEFI_GUID part has a decoder of its own (ReadWinCertificateUEFIGUID; a caller that has read
	// the timestamp itself uses it, and it accepts every certificate type): behind the 16 timestamp bytes a success
	// says that the 8-byte header and a 16-byte type GUID lie inside the dwLength declared bytes, that these were
	// present, that the value holds exactly the fields they spell out and that the source is left exactly behind
	// them; and where the descriptor decoder succeeds, this one must
	if len(b) >= 16 {
		cb := b[16:]
		r2 := newSrcReader(cs.S("reader"), cb)
		var w signature.WinCertificateUEFIGUID
		var werr error
		p2, pmsg2 := safely(func() { w, werr = signature.ReadWinCertificateUEFIGUID(r2.r) })
		r2.clobber()
		switch {
		case p2:
			fail("ReadWinCertificateUEFIGUID panicked: "+pmsg2, "")
		case werr == nil:
			dw := -1
			if len(cb) >= 8 {
				dw = int(binary.LittleEndian.Uint32(cb))
			}
			got := fmt.Sprintf("len=%d rev=%d type=%d guid=%s data=%s rest=%d", w.Header.Length, w.Header.Revision, uint16(w.Header.CertType), hx(wireGUID(w.CertType)), hx(w.CertData), r2.rest)
			if dw < 24 || dw > len(cb) {
				c.Fail(Failure{Kind: "property", What: fmt.Sprintf("ReadWinCertificateUEFIGUID returned a value and no error on %d bytes whose dwLength is %d: the declared bytes must hold the 8-byte header and the 16-byte type GUID (dwLength >= 24) and must be present", len(cb), dw), Case: cs, Go: clip(got), Spec: "an error"})
			} else if want := fmt.Sprintf("len=%d rev=%d type=%d guid=%s data=%s rest=%d", dw, binary.LittleEndian.Uint16(cb[4:]), binary.LittleEndian.Uint16(cb[6:]), hx(cb[8:24]), hx(cb[24:dw]), len(cb)-dw); got != want {
				c.Fail(Failure{Kind: "property", What: "ReadWinCertificateUEFIGUID succeeded but the value does not hold the header fields, type GUID and certificate data that the dwLength declared bytes spell out, or the source was not left exactly behind them", Case: cs, Go: clip(got), Spec: clip(want)})
			}
		case err == nil:
			c.Fail(Failure{Kind: "property", What: "ReadEFIVariableAuthencation2 decodes a descriptor whose WIN_CERTIFICATE_UEFI_GUID part ReadWinCertificateUEFIGUID rejects behind the timestamp", Case: cs, Go: "ReadWinCertificateUEFIGUID: err", Spec: clip(goObs)})
		}
	}
	// oracle: on descriptors that are well-formed by the specification's layout (revision 0x0200, type 0x0EF1)
	if strings.HasPrefix(spec, "some ") && strings.Contains(spec, " rev=512 ") && strings.Contains(spec, " type=3825 ") {
		if err != nil {
			fail("a well-formed descriptor was rejected", "")
			return
		}
		// fields and consumption: compare with the spec rendering (same field order up to "rest=")
		goFields := goObs[len("ok "):strings.Index(goObs, " reenc=")]
		if goFields != spec[len("some "):] {
			fail("decoded fields / bytes consumed differ from the declared-length layout", "")
		}
		var dw uint32
		if len(b) >= 20 {
			dw = binary.LittleEndian.Uint32(b[16:20])
		}
		consumed := b[:16+int(dw)]
		if !bytes.Equal(reenc, consumed) {
			fail(fmt.Sprintf("encoding the decoded descriptor gives %d bytes, not the %d bytes that were consumed", len(reenc), len(consumed)), "c10.body_written_twice")
		}
		// decode(encode(v)) = v
		var d2 *signature.EFIVariableAuthentication2
		p2, _ := safely(func() { d2, err = signature.ReadEFIVariableAuthencation2(bytes.NewReader(reenc)) })
		if p2 || err != nil {
			fail("decoding the encoded value failed", "c10.body_written_twice")
		} else {
			var m2 bytes.Buffer
			d2.Marshal(&m2)
			if !bytes.Equal(m2.Bytes(), reenc) || d2.Time != d.Time || d2.AuthInfo.CertType != d.AuthInfo.CertType || !bytes.Equal(d2.AuthInfo.CertData, d.AuthInfo.CertData) ||
				d2.AuthInfo.Header.Length != d.AuthInfo.Header.Length || d2.AuthInfo.Header.Revision != d.AuthInfo.Header.Revision || d2.AuthInfo.Header.CertType != d.AuthInfo.Header.CertType {
				fail("decoding the encoded value does not reproduce the value", "c10.body_written_twice")
			}
		}
	}
}

func c10EvalWinCert(c *Ctx, cs Case) {
	b := unhx(cs.S("bytes"))
	r := newSrcReader(cs.S("reader"), b)
	var w signature.WINCertificate
	var err error
	panicked, pmsg := safely(func() { w, err = signature.ReadWinCertificate(r.r) })
	r.clobber()
	goObs := "err"
	var reenc bytes.Buffer
	if panicked {
		goObs = "panic"
	} else if err == nil {
		signature.WriteWinCertificate(&reenc, &w)
		goObs = fmt.Sprintf("ok len=%d rev=%d type=%d cert=%s rest=%d reenc=%s", w.Length, w.Revision, uint16(w.CertType), hx(w.Certificate), r.rest, hx(reenc.Bytes()))
	}
	c.Count(cs.Key(), len(b) > 8, "wincert/"+cs.S("class")+"/"+r.kind+"/"+strings.SplitN(goObs, " ", 2)[0])
	if !panicked && err == nil {
		appendsTo(c, cs, "WriteWinCertificate", append([]byte{}, reenc.Bytes()...), len(b), func(buf *bytes.Buffer) { signature.WriteWinCertificate(buf, &w) })
	}
	c.Trace()
	if m := c.Drv.Ask("wincert.read", hx(b)); m != goObs {
		c.Fail(Failure{Kind: "tie", What: "ReadWinCertificate: model and implementation disagree", Case: cs, Model: clip(m), Go: clip(goObs)})
	} else {
		c.GenTie(cs, "ReadWinCertificate / WriteWinCertificate", m, "gen.wincert.read", hx(b))
	}
	if panicked {
		c.Fail(Failure{Kind: "property", What: "decoder panicked: " + pmsg, Case: cs, Go: goObs})
		return
	}
	// oracle: a success is a statement about the input, whatever its revision or type: the decoder "consumes exactly
	// the bytes its length field declares" and "recovers ... exactly" - so the header and the dwLength-8 body bytes
	// must have been there, the value must hold them, and nothing else may have been taken from the source. An input
	// that ends before them (cut inside the header or inside the body) has no such bytes: only an error is an answer,
	// never a value - least of all a zero value - with a nil error.
	if err == nil {
		dw := -1
		if len(b) >= 8 {
			dw = int(binary.LittleEndian.Uint32(b))
		}
		switch {
		case len(b) < 8:
			c.Fail(Failure{Kind: "property", What: fmt.Sprintf("ReadWinCertificate returned a value and no error on %d bytes, less than the 8-byte WIN_CERTIFICATE header", len(b)), Case: cs, Go: clip(goObs), Spec: "an error"})
			return
		case dw < 8 || dw > len(b):
			c.Fail(Failure{Kind: "property", What: fmt.Sprintf("ReadWinCertificate returned a value and no error although the input (%d bytes) ends before the %d bytes its dwLength declares: the declared bytes cannot have been consumed", len(b), dw), Case: cs, Go: clip(goObs), Spec: "an error"})
			return
		case int(w.Length) != dw || w.Revision != binary.LittleEndian.Uint16(b[4:]) || uint16(w.CertType) != binary.LittleEndian.Uint16(b[6:]) || !bytes.Equal(w.Certificate, b[8:dw]) || r.rest != len(b)-dw:
			c.Fail(Failure{Kind: "property", What: "ReadWinCertificate succeeded but the value does not hold the header fields and the dwLength-8 body bytes of the input, or the source was not left exactly behind them", Case: cs, Go: clip(goObs), Spec: fmt.Sprintf("len=%d cert=%s rest=%d", dw, clip(hx(b[8:dw])), len(b)-dw)})
			return
		}
	}
	// oracle: dwLength-delimited
	if len(b) >= 8 {
		dw := int(binary.LittleEndian.Uint32(b))
		rev := binary.LittleEndian.Uint16(b[4:])
		if rev == 0x0200 && dw >= 8 && dw <= len(b) {
			if err != nil {
				c.Fail(Failure{Kind: "property", What: "a well-formed WIN_CERTIFICATE was rejected", Case: cs, Go: goObs})
				return
			}
			if r.rest != len(b)-dw || !bytes.Equal(w.Certificate, b[8:dw]) || int(w.Length) != dw || uint16(w.CertType) != binary.LittleEndian.Uint16(b[6:]) {
				c.Fail(Failure{Kind: "property", What: "WIN_CERTIFICATE not decoded by its declared length", Case: cs, Go: clip(goObs), Spec: fmt.Sprintf("consume %d, rest %d", dw, len(b)-dw)})
			}
			if !bytes.Equal(reenc.Bytes(), b[:dw]) {
				c.Fail(Failure{Kind: "property", What: "encoding the decoded WIN_CERTIFICATE does not reproduce the bytes consumed", Case: cs, Go: clip(goObs)})
			}
		}
	}
}

// ---- sequences of operations on ONE descriptor value ----
//
// The round-trip clauses of the property speak about VALUES ("encoding a decoded value", "decoding an
// encoded value"). A value a caller holds is not only the result of one decode of one input: it is
// built (NewEFIVariableAuthentication2), decoded into a receiver that was used before (Unmarshal),
// replaced by a decoded one, and edited field by field before it is encoded. A sequence applies such
// steps to one EFIVariableAuthentication2 object and keeps, next to it, the abstract descriptor
// (time, dwLength, revision, type, type GUID, data) that the steps define. After EVERY step the object
// must hold exactly these fields, encode to exactly the declared-length layout of them (16 + dwLength
// bytes), and decoding that encoding in front of a payload must give the fields back and leave the
// payload alone.
//
// steps:  new | unmarshal,<descriptor> | read,<reader kind>,<descriptor> | readcert,<reader kind>,<descriptor>
//         | time,<16 bytes> | guid,<16 bytes> | data,<bytes>   (data sets CertData and dwLength = 24 + len)

type authRef struct {
	time     []byte
	dw       uint32
	rev, typ uint16
	guid     []byte
	data     []byte
}

func (r authRef) enc() []byte { return mkAuth(r.time, r.dw, r.rev, r.typ, r.guid, r.data, nil) }

func (r authRef) fields() string {
	return fmt.Sprintf("time=%s len=%d rev=%d type=%d guid=%s data=%s", hx(r.time), r.dw, r.rev, r.typ, hx(r.guid), hx(r.data))
}

func authObjFields(d *signature.EFIVariableAuthentication2) string {
	var tb bytes.Buffer
	binary.Write(&tb, binary.LittleEndian, d.Time)
	return fmt.Sprintf("time=%s len=%d rev=%d type=%d guid=%s data=%s", hx(tb.Bytes()), d.AuthInfo.Header.Length, d.AuthInfo.Header.Revision,
		uint16(d.AuthInfo.Header.CertType), hx(wireGUID(d.AuthInfo.CertType)), hx(d.AuthInfo.CertData))
}

// refOfWire reads a generated well-formed descriptor by its declared length (independently of the library)
func refOfWire(b []byte) (authRef, bool) {
	if len(b) < 40 {
		return authRef{}, false
	}
	dw := binary.LittleEndian.Uint32(b[16:20])
	if dw < 24 || uint64(len(b)) < 16+uint64(dw) {
		return authRef{}, false
	}
	return authRef{time: b[:16], dw: dw, rev: binary.LittleEndian.Uint16(b[20:]), typ: binary.LittleEndian.Uint16(b[22:]), guid: b[24:40], data: b[40 : 16+dw]}, true
}

func strList(v interface{}) []string {
	switch x := v.(type) {
	case []string:
		return x
	case []interface{}:
		out := []string{}
		for _, e := range x {
			if s, ok := e.(string); ok {
				out = append(out, s)
			}
		}
		return out
	}
	return nil
}

// type GUIDs in wire form, written out from UEFI 2.8 section 32.2.4 / 8.2.2 (not taken from the code under test)
var (
	wirePKCS7GUID   = unhx("9dd2af4adf68ee498aa9347d375665a7")
	wireRSA2048GUID = unhx("147471a716c677499420844712a735bf")
)

func c10Seq(c *Ctx, cs Case) {
	steps := strList(cs["steps"])
	payload := unhx(cs.S("payload"))
	var obj signature.EFIVariableAuthentication2
	ref := authRef{time: make([]byte, 16)}
	have := false // the object holds a descriptor (something was built or decoded)
	kinds := []string{}
	for _, st := range steps {
		kinds = append(kinds, strings.SplitN(st, ",", 2)[0])
	}
	c.Count(cs.Key(), len(steps) >= 2, "seq/"+cs.S("class"))
	if len(cs.Key()) < 700 {
		c.Sample(cs)
	}
	for i, st := range steps {
		f := strings.Split(st, ",")
		var out []byte
		fail := func(what string) {
			c.Fail(Failure{Kind: "property", What: fmt.Sprintf("(step %d of %s): %s", i, strings.Join(kinds, ","), what), Case: cs,
				Go: clip(authObjFields(&obj) + " enc=" + hx(out)), Spec: clip(ref.fields() + " enc=" + hx(ref.enc()))})
		}
		c.Class("seq-step/" + f[0])
		// a descriptor to decode: generated well-formed, the payload follows it
		decodeStep := func(wire []byte, readerKind string, dec func(r *srcReader) error) bool {
			nr, ok := refOfWire(wire)
			if !ok || nr.rev != 0x0200 || nr.typ != 0x0EF1 || int(16+nr.dw) != len(wire) {
				return false // not a step this evaluator defines
			}
			src := newSrcReader(readerKind, append(append([]byte{}, wire...), payload...))
			var err error
			var left []byte
			panicked, pmsg := safely(func() {
				err = dec(src)
				if buf, isBuf := src.r.(*bytes.Buffer); isBuf {
					left = append([]byte{}, buf.Bytes()...)
				}
			})
			src.clobber() // the value must not depend on the source after the call
			if f[0] != "readcert" {
				ref.time = nr.time
			}
			ref.dw, ref.rev, ref.typ, ref.guid, ref.data = nr.dw, nr.rev, nr.typ, nr.guid, nr.data
			have = true
			if panicked {
				fail("decoder panicked: " + pmsg)
				return false
			}
			if err != nil {
				fail("a well-formed descriptor was rejected: " + err.Error())
				return false
			}
			if src.rest != len(payload) || (src.kind == "bytes.Buffer" && !bytes.Equal(left, payload)) {
				fail(fmt.Sprintf("decoding left %d bytes unread, the payload has %d", src.rest, len(payload)))
			}
			return true
		}
		ok := true
		switch {
		case f[0] == "new":
			safely(func() { obj = *signature.NewEFIVariableAuthentication2() })
			var tb bytes.Buffer
			binary.Write(&tb, binary.LittleEndian, obj.Time)
			ref = authRef{time: tb.Bytes(), dw: 24, rev: 0x0200, typ: 0x0EF1, guid: wirePKCS7GUID}
			have = true
		case f[0] == "unmarshal" && len(f) == 2:
			// the SAME object is the receiver, whatever it held before
			ok = decodeStep(unhx(f[1]), "bytes.Buffer", func(r *srcReader) error { return obj.Unmarshal(r.r.(*bytes.Buffer)) })
		case f[0] == "read" && len(f) == 3:
			ok = decodeStep(unhx(f[2]), f[1], func(r *srcReader) error {
				d, err := signature.ReadEFIVariableAuthencation2(r.r)
				if err == nil {
					obj = *d
				}
				return err
			})
		case f[0] == "readcert" && len(f) == 3:
			// only the WIN_CERTIFICATE_UEFI_GUID part is decoded (from behind the timestamp) and assigned; the time stays
			w := unhx(f[2])
			if len(w) < 16 {
				return
			}
			ok = decodeStep(w, f[1], func(r *srcReader) error {
				io.ReadFull(r.r, make([]byte, 16))
				a, err := signature.ReadWinCertificateUEFIGUID(r.r)
				if err == nil {
					obj.AuthInfo = a
				}
				return err
			})
		case f[0] == "time" && len(f) == 2 && len(unhx(f[1])) == 16:
			b := unhx(f[1])
			binary.Read(bytes.NewReader(b), binary.LittleEndian, &obj.Time)
			ref.time = b
		case f[0] == "guid" && len(f) == 2 && len(unhx(f[1])) == 16:
			b := unhx(f[1])
			obj.AuthInfo.CertType = guidFromWire(b)
			ref.guid = b
		case f[0] == "data" && len(f) == 2:
			b := unhx(f[1])
			obj.AuthInfo.CertData = append([]byte{}, b...)
			obj.AuthInfo.Header.Length = uint32(24 + len(b))
			ref.data, ref.dw = b, uint32(24+len(b))
		default:
			return
		}
		if !ok {
			return
		}
		if !have {
			continue // edits of the zero value: nothing that is a descriptor yet
		}
		// 1. the object holds the descriptor the steps define
		if got := authObjFields(&obj); got != ref.fields() {
			fail("the value does not hold the fields of the descriptor that was built / decoded / edited into it")
		}
		// 2. it encodes to the declared-length layout of these fields (both encoder entry points)
		var mb bytes.Buffer
		panicked, pmsg := safely(func() {
			if i%2 == 0 {
				obj.Marshal(&mb)
			} else {
				signature.WriteEFIVariableAuthencation2(&mb, obj)
			}
		})
		if panicked {
			fail("encoder panicked: " + pmsg)
			return
		}
		out = append([]byte{}, mb.Bytes()...)
		var tb bytes.Buffer
		binary.Write(&tb, binary.LittleEndian, obj.Time)
		ask := func(t []byte, l uint32, rv, ct uint16, hc, g, d []byte) (string, string) {
			ans := c.Drv.Ask("auth.write", hx(t), fmt.Sprint(l), fmt.Sprint(rv), fmt.Sprint(ct), hx(hc), hx(g), hx(d))
			mi := strings.Index(ans, " spec=")
			if !strings.HasPrefix(ans, "model=") || mi < 0 {
				c.Fail(Failure{Kind: "tie", What: "driver answer malformed", Case: cs, Model: clip(ans)})
				return "", ""
			}
			return ans[len("model="):mi], ans[mi+len(" spec="):]
		}
		// tie: the encoder model on the value as the Go object holds it (including what the embedded header keeps)
		model, _ := ask(tb.Bytes(), obj.AuthInfo.Header.Length, obj.AuthInfo.Header.Revision, uint16(obj.AuthInfo.Header.CertType),
			obj.AuthInfo.Header.Certificate, wireGUID(obj.AuthInfo.CertType), obj.AuthInfo.CertData)
		c.Trace()
		if model != hx(out) {
			c.Fail(Failure{Kind: "tie", What: "encoding a descriptor value: model and implementation disagree", Case: cs, Model: clip(model), Go: clip(hx(out))})
		}
		// oracle: the Lean Spec encoding of the abstract descriptor (and the harness's own, which must agree)
		_, spec := ask(ref.time, ref.dw, ref.rev, ref.typ, nil, ref.guid, ref.data)
		want := ref.enc()
		if spec != hx(want) {
			c.Fail(Failure{Kind: "tie", What: "Spec.encAuth and the harness encoder disagree", Case: cs, Model: clip(spec), Go: clip(hx(want))})
		}
		if !bytes.Equal(out, want) {
			fail(fmt.Sprintf("encoding the value gives %d bytes that are not the %d bytes (16 + dwLength) of its declared-length layout", len(out), len(want)))
			continue
		}
		// 2b. ... also when the destination already holds content (both encoder entry points, and the
		// WIN_CERTIFICATE_UEFI_GUID part on its own behind a timestamp the caller wrote)
		n1 := c.NFailures()
		appendsTo(c, cs, fmt.Sprintf("(step %d of %s) Marshal", i, strings.Join(kinds, ",")), want, i+len(want), func(buf *bytes.Buffer) { obj.Marshal(buf) })
		appendsTo(c, cs, fmt.Sprintf("(step %d of %s) WriteEFIVariableAuthencation2", i, strings.Join(kinds, ",")), want, i+len(want)+1, func(buf *bytes.Buffer) { signature.WriteEFIVariableAuthencation2(buf, obj) })
		if len(want) >= 16 {
			appendsTo(c, cs, fmt.Sprintf("(step %d of %s) WriteWinCertificateUEFIGUID", i, strings.Join(kinds, ",")), want[16:], i+len(want)+2, func(buf *bytes.Buffer) { signature.WriteWinCertificateUEFIGUID(buf, &obj.AuthInfo) })
		}
		if c.NFailures() > n1 {
			continue
		}
		// 3. decoding the encoding in front of the payload gives the fields back and leaves the payload alone
		src := newSrcReader(readerKinds[(i+len(out))%len(readerKinds)], append(append([]byte{}, out...), payload...))
		var d2 *signature.EFIVariableAuthentication2
		var err error
		p2, _ := safely(func() { d2, err = signature.ReadEFIVariableAuthencation2(src.r) })
		src.clobber()
		if p2 || err != nil {
			fail("decoding the encoded value failed")
		} else if authObjFields(d2) != ref.fields() || src.rest != len(payload) {
			fail(fmt.Sprintf("decoding the encoded value does not reproduce the value (or leaves %d bytes instead of the %d of the payload)", src.rest, len(payload)))
		}
	}
}

// c10SeqShrunk evaluates a sequence; a failing one is minimised by deleting steps before it is recorded
func c10SeqShrunk(c *Ctx, cs Case) {
	n0 := c.NFailures()
	c10Seq(c, cs)
	if c.NFailures() == n0 {
		return
	}
	c.mu.Lock()
	first := c.failures[n0]
	for _, f := range c.failures[n0:] { // a violation of the property on the Go code is what gets minimised and kept
		if f.Kind == "property" {
			first = f
			break
		}
	}
	c.mu.Unlock()
	sig := failSig(first)
	cur, best := cs, []Failure{first}
	for changed := true; changed; {
		changed = false
		steps := strList(cur["steps"])
		for i := len(steps) - 1; i >= 0 && len(steps) > 1; i-- {
			ns := append(append([]string{}, steps[:i]...), steps[i+1:]...)
			cand := Case{"op": "seq", "class": strings.SplitN(ns[0], ",", 2)[0] + "-first", "payload": cur["payload"], "steps": ns}
			for _, f := range c.Probe(func(p *Ctx) { c10Seq(p, cand) }) {
				if failSig(f) == sig {
					cur, steps, best, changed = cand, ns, []Failure{f}, true
					break
				}
			}
		}
	}
	c.ReplaceFailuresFrom(n0, best)
}

// ---- several descriptor decoders at the same time ----
//
// "Decoding a descriptor consumes exactly the bytes its length field declares ... and recovers timestamp, revision,
// certificate type, type GUID and certificate data exactly" speaks about one source and one call. A program decodes
// the signed updates of several variables on different goroutines, and a source need not hand over what is asked for
// in one piece: a pipe, a socket or a slow file delivers a few bytes per Read and blocks in between. So k descriptors
// (each followed by its payload) are decoded at the same time, each through a reader that delivers at most `chunk`
// bytes per call and parks inside every Read - before it touches the destination, or after the bytes are in place
// but before Read returns - handing control to the next decoder following a switch plan that is part of the case
// (lockstep / parkReader of c07.go: exactly one goroutine runs at any time, every run is deterministic and
// replayable). Every call must return what the same call through the same kind of reader returns alone.
func c10AuthObs(d *signature.EFIVariableAuthentication2, err error, panicked bool, r *parkReader) string {
	switch {
	case panicked:
		return "panic"
	case err != nil || d == nil:
		return "err"
	}
	var mb bytes.Buffer
	if p, _ := safely(func() { d.Marshal(&mb) }); p {
		return "ok " + authObjFields(d) + " encoder-panic"
	}
	return fmt.Sprintf("ok %s rest=%d reenc=%s", authObjFields(d), len(r.data)-r.pos, hx(mb.Bytes()))
}

func c10Concurrent(c *Ctx, cs Case) {
	var descs [][]byte
	for _, h := range strList(cs["descs"]) {
		descs = append(descs, unhx(h))
	}
	if len(descs) < 2 || len(descs) > 8 {
		return
	}
	plan := unhx(cs.S("plan"))
	after := cs.S("park") == "after"
	chunk := int(cs.I("chunk"))
	decode := func(s *lockstep, which, me int) string {
		r := &parkReader{data: append([]byte{}, descs[which]...), chunk: chunk, after: after, s: s, me: me}
		var d *signature.EFIVariableAuthentication2
		var err error
		p, _ := safely(func() { d, err = signature.ReadEFIVariableAuthencation2(r) })
		return c10AuthObs(d, err, p, r)
	}
	// each call alone, through the same kind of reader (a lockstep of one decoder never hands over)
	alone := make([]string, len(descs))
	for i := range descs {
		alone[i] = decode(newLockstep(1, plan), i, 0)
	}
	s := newLockstep(len(descs), plan)
	together := make([]string, len(descs))
	var wg sync.WaitGroup
	for i := range descs {
		wg.Add(1)
		go func(i int) {
			defer wg.Done()
			s.enter(i)
			together[i] = decode(s, i, i) // still this goroutine's turn when the observation is taken: nothing else runs
			s.leave(i)
		}(i)
	}
	done := make(chan struct{})
	go func() { wg.Wait(); close(done) }()
	select {
	case <-done:
	case <-time.After(60 * time.Second):
		c.Fail(Failure{Kind: "property", What: "concurrent descriptor decoders did not return within 60 s", Case: cs})
		return
	}
	obs := "same"
	for i := range descs {
		if together[i] != alone[i] {
			obs = "differs"
		}
	}
	c.Count(cs.Key(), true, fmt.Sprintf("auth/concurrent/%d-decoders/park-%s/chunk-%d/%s", len(descs), cs.S("park"), chunk, obs))
	for i := range descs {
		if together[i] != alone[i] {
			c.Fail(Failure{Kind: "property", What: fmt.Sprintf("descriptor decoder %d of %d running at the same time returns something else than the same call alone: what ReadEFIVariableAuthencation2 recovers depends on what other decoders in the process are doing", i, len(descs)),
				Case: cs, Go: clip(together[i]), Spec: clip(alone[i])})
			return
		}
	}
}

// c10ConcurrentCases: groups of 2..3 descriptors (the same layout with other timestamps, GUIDs and data - the decoders
// are at the same point of their inputs - or unrelated ones; one in eight cut short or with a wrong revision) x switch
// plans x parking point x piece size (whole reads, 1, 3, 5 and 7 bytes: the 16-byte timestamp, the 8-byte header and
// the body then arrive in several pieces)
func c10ConcurrentCases(c *Ctx, n int) {
	sub := &Ctx{Rng: mrand.New(mrand.NewSource(c.Seed*67867967 + 19 + int64(c.Shard)*1000003)), Thorough: c.Thorough}
	plans := []string{"01", "0001", "0100", "000001", "01010001"}
	mk := func(n int) []byte {
		guid := wirePKCS7GUID
		if sub.Rng.Intn(3) == 0 {
			guid = randBytes(sub, 16)
		}
		return mkAuth(randBytes(sub, 16), uint32(24+n), 0x0200, 0x0EF1, guid, randBytes(sub, n), randBytes(sub, []int{0, 1, 28, sub.Rng.Intn(80)}[sub.Rng.Intn(4)]))
	}
	for i := 0; i < n && c.NFailures() < 8; i++ {
		k := 2 + i%2*(i/2%2)
		n0 := []int{0, 1, 7, 16, 100, sub.Rng.Intn(600)}[sub.Rng.Intn(6)]
		ds := []string{}
		for len(ds) < k {
			d := mk(n0)
			if i%3 == 2 && len(ds) > 0 {
				d = mk([]int{0, 1, 7, 16, 100, sub.Rng.Intn(600)}[sub.Rng.Intn(6)])
			}
			if i%8 == 7 && len(ds) == k-1 {
				if sub.Rng.Intn(2) == 0 {
					d = d[:sub.Rng.Intn(len(d))]
				} else {
					d[20] ^= 1
				}
			}
			ds = append(ds, hx(d))
		}
		plan := plans[i%len(plans)]
		if i%7 == 6 {
			plan = hx(randBytes(sub, 8))
		}
		c10Concurrent(c, Case{"op": "concurrent", "descs": ds, "plan": plan, "park": []string{"after", "before"}[i/2%2], "chunk": int64([]int{0, 5, 1, 3, 7}[i/4%5])})
	}
}

// c10ShortLengths: descriptors whose dwLength lies around the fixed part of the layout - EVERY value from 8 (the bare
// WIN_CERTIFICATE header) over 9..23 (a type GUID cut short) and 24 (no certificate data) to 40 - with exactly the
// declared bytes present, and with a payload of 1 / 28 bytes behind them, certificate types 0x0EF1 (and 0x0002 /
// 0x0EF0 for every fourth), through every reader kind
func c10ShortLengths(c *Ctx) {
	sub := &Ctx{Rng: mrand.New(mrand.NewSource(c.Seed*49979693 + 23 + int64(c.Shard)*1000003)), Thorough: c.Thorough}
	i := 0
	for dw := 8; dw <= 40; dw++ {
		for pi, pl := range []int{0, 1, 28} {
			for _, k := range readerKinds {
				if i++; !c.Mine(i) || c.NFailures() >= 8 {
					continue
				}
				typ := uint16(0x0EF1)
				if i%4 == 3 {
					typ = []uint16{2, 0x0EF0}[i/4%2]
				}
				b := append(randBytes(sub, 16), make([]byte, 8)...)
				binary.LittleEndian.PutUint32(b[16:], uint32(dw))
				binary.LittleEndian.PutUint16(b[20:], 0x0200)
				binary.LittleEndian.PutUint16(b[22:], typ)
				b = append(b, randBytes(sub, dw-8+pl)...)
				c10EvalAuth(c, Case{"op": "auth", "class": fmt.Sprintf("dwLength-%d-%s", dw, []string{"exact", "+payload1", "+payload28"}[pi]), "reader": k, "bytes": hx(b)})
			}
		}
	}
}

func c10Eval(c *Ctx, cs Case) {
	switch cs.S("op") {
	case "wincert":
		c10EvalWinCert(c, cs)
	case "seq":
		c10SeqShrunk(c, cs)
	case "concurrent":
		c10Concurrent(c, cs)
	default:
		c10EvalAuth(c, cs)
	}
}

func mkAuth(time []byte, dw uint32, rev, typ uint16, guid, data, payload []byte) []byte {
	var b bytes.Buffer
	b.Write(time)
	binary.Write(&b, binary.LittleEndian, dw)
	binary.Write(&b, binary.LittleEndian, rev)
	binary.Write(&b, binary.LittleEndian, typ)
	b.Write(guid)
	b.Write(data)
	b.Write(payload)
	return b.Bytes()
}

func authFixtures(c *Ctx) [][]byte {
	var out [][]byte
	for _, p := range []string{"tests/ovmf/keys/*/*.auth", "efi/signature/testdata/*.auth", "tests/data/signatures/*/*.auth", "efi/efitest/testdata/*/*.auth"} {
		ms, _ := filepath.Glob(filepath.Join(c.RepoDir, p))
		for _, m := range ms {
			if b, err := os.ReadFile(m); err == nil && len(b) > 40 {
				out = append(out, b)
			}
		}
	}
	return out
}

func c10Gen(c *Ctx) {
	fx := authFixtures(c)
	c.Note("auth_fixtures", len(fx))
	for _, b := range fx {
		for _, k := range readerKinds {
			c10EvalAuth(c, Case{"op": "auth", "class": "fixture", "reader": k, "bytes": hx(b)})
		}
	}
	pk7 := wireGUID(signature.EFI_CERT_TYPE_PKCS7_GUID)
	for i := 0; i < c.N(800, 40000) && c.NFailures() < 8; i++ {
		n := []int{0, 1, 7, 16, 100, 1500, c.Rng.Intn(4000), c.Rng.Intn(c.P(8000, 65536))}[c.Rng.Intn(8)]
		data := randBytes(c, n)
		payload := randBytes(c, []int{0, 1, 28, 76, c.Rng.Intn(300)}[c.Rng.Intn(5)])
		time := randBytes(c, 16)
		guid := pk7
		if c.Rng.Intn(3) == 0 {
			guid = randBytes(c, 16)
		}
		cls := "wf"
		dw := uint32(24 + n)
		rev, typ := uint16(0x0200), uint16(0x0EF1)
		switch c.Rng.Intn(12) {
		case 0:
			rev, cls = uint16(c.Rng.Intn(65536)), "badrev"
		case 1:
			// declared length larger than the data present
			dw, cls = dw+1+uint32(c.Rng.Intn(64)), "too-long"
			payload = nil
		case 2:
			// declared length smaller than the data present: the surplus belongs to the payload
			if n > 0 {
				dw, cls = dw-uint32(1+c.Rng.Intn(n)), "shorter"
			}
		}
		c10EvalAuth(c, Case{"op": "auth", "class": cls, "reader": readerKinds[i%len(readerKinds)], "bytes": hx(mkAuth(time, dw, rev, typ, guid, data, payload))})
	}
	// the top of the stated range: certificate data of up to 64 KiB, where dwLength crosses 2^16
	for i, n := range []int{65511, 65512, 65513, 65519, 65520, 65521, 65527, 65528, 65529, 65535, 65536} {
		if c.Quick() && i%2 == 1 {
			continue
		}
		c10EvalAuth(c, Case{"op": "auth", "class": "wf-64k", "reader": readerKinds[i%len(readerKinds)], "bytes": hx(mkAuth(randBytes(c, 16), uint32(24+n), 0x0200, 0x0EF1, pk7, randBytes(c, n), randBytes(c, 5)))})
	}
	// sequences of build / decode-into-the-same-object / decode-and-replace / edit steps on one value,
	// checked after every step (see c10Seq)
	for i := 0; i < c.N(400, 20000) && c.NFailures() < 8; i++ {
		someData := func() []byte {
			return randBytes(c, []int{0, 0, 1, 7, 16, 100, c.Rng.Intn(c.P(1500, 8000))}[c.Rng.Intn(7)])
		}
		someGUID := func() []byte {
			return [][]byte{pk7, wireRSA2048GUID, randBytes(c, 16)}[c.Rng.Intn(3)]
		}
		desc := func() string {
			d := someData()
			return hx(mkAuth(randBytes(c, 16), uint32(24+len(d)), 0x0200, 0x0EF1, someGUID(), d, nil))
		}
		step := func(k int) string {
			rk := readerKinds[c.Rng.Intn(len(readerKinds))]
			switch k {
			case 0:
				return "new"
			case 1, 2:
				return "unmarshal," + desc()
			case 3:
				return "read," + rk + "," + desc()
			case 4:
				return "readcert," + rk + "," + desc()
			case 5:
				return "time," + hx(randBytes(c, 16))
			case 6:
				return "guid," + hx(someGUID())
			default:
				return "data," + hx(someData())
			}
		}
		steps := []string{step(c.Rng.Intn(5))} // a value comes into being by construction or by decoding
		for n := 1 + c.Rng.Intn(5); n > 0; n-- {
			steps = append(steps, step(c.Rng.Intn(9)))
		}
		c10SeqShrunk(c, Case{"op": "seq", "class": strings.SplitN(steps[0], ",", 2)[0] + "-first", "steps": steps,
			"payload": hx(randBytes(c, []int{0, 1, 28, 76, c.Rng.Intn(300)}[c.Rng.Intn(5)]))})
	}
	// library-produced descriptors are exercised by C06; plain WIN_CERTIFICATEs:
	for i := 0; i < c.N(500, 20000) && c.NFailures() < 8; i++ {
		n := []int{0, 1, 7, 8, 9, 100, c.Rng.Intn(3000)}[c.Rng.Intn(7)]
		var b bytes.Buffer
		dw := uint32(8 + n)
		rev := uint16(0x0200)
		cls := "wf"
		switch c.Rng.Intn(10) {
		case 0:
			rev, cls = uint16(c.Rng.Intn(65536)), "badrev"
		case 1:
			dw, cls = dw+uint32(1+c.Rng.Intn(9)), "too-long"
		case 2:
			if n > 0 {
				dw, cls = dw-uint32(1+c.Rng.Intn(n)), "shorter"
			}
		}
		binary.Write(&b, binary.LittleEndian, dw)
		binary.Write(&b, binary.LittleEndian, rev)
		binary.Write(&b, binary.LittleEndian, uint16([]int{2, 0x0EF0, 0x0EF1, c.Rng.Intn(65536)}[c.Rng.Intn(4)]))
		b.Write(randBytes(c, n))
		if cls != "too-long" {
			b.Write(randBytes(c, c.Rng.Intn(12)))
		}
		c10EvalWinCert(c, Case{"op": "wincert", "class": cls, "reader": readerKinds[i%len(readerKinds)], "bytes": hx(b.Bytes())})
	}
	// WIN_CERTIFICATEs that END EARLY, handed to ReadWinCertificate directly (a PE certificate table entry, a file
	// that was cut): well-formed certificates of all three types cut at every position inside the header and
	// inside the body (every one for short bodies, the first and last bytes and a sample for long ones), through
	// every reader kind - among them the ones that end with a plain io.EOF and the one that hands out its last
	// data together with io.EOF. The answer must be an error.
	cutSub := &Ctx{Rng: mrand.New(mrand.NewSource(c.Seed*32452843 + 11 + int64(c.Shard)*1000003)), Thorough: c.Thorough}
	for i := 0; i < c.N(40, 2000) && c.NFailures() < 8; i++ {
		n := []int{1, 2, 7, 8, 9, 16, 17, 40, 100, 1 + cutSub.Rng.Intn(3000)}[i%10]
		var b bytes.Buffer
		binary.Write(&b, binary.LittleEndian, uint32(8+n))
		binary.Write(&b, binary.LittleEndian, uint16(0x0200))
		binary.Write(&b, binary.LittleEndian, uint16([]int{2, 0x0EF0, 0x0EF1}[i/10%3]))
		b.Write(randBytes(cutSub, n))
		full := b.Bytes()
		cuts := map[int]bool{}
		for cut := 0; cut < len(full); cut++ {
			if cut <= 12 || cut >= len(full)-4 || n <= 40 || cutSub.Rng.Intn(n/8+1) == 0 {
				cuts[cut] = true
			}
		}
		for cut := 0; cut < len(full); cut++ {
			if cuts[cut] {
				cls := "cut-in-body"
				if cut < 8 {
					cls = "cut-in-header"
				}
				c10EvalWinCert(c, Case{"op": "wincert", "class": cls, "reader": readerKinds[(i+cut)%len(readerKinds)], "bytes": hx(full[:cut])})
			}
		}
	}
	for i, n := range []int{65527, 65528, 65529, 65535, 65536} {
		var b bytes.Buffer
		binary.Write(&b, binary.LittleEndian, uint32(8+n))
		binary.Write(&b, binary.LittleEndian, uint16(0x0200))
		binary.Write(&b, binary.LittleEndian, uint16(2))
		b.Write(randBytes(c, n+3))
		c10EvalWinCert(c, Case{"op": "wincert", "class": "wf-64k", "reader": readerKinds[i%len(readerKinds)], "bytes": hx(b.Bytes())})
	}
	// declared lengths around the fixed part of the layout: every dwLength 8..40, the declared bytes present
	c10ShortLengths(c)
	// several descriptors decoded at the same time, each through a source that delivers its bytes in pieces and parks inside Read
	c10ConcurrentCases(c, c.N(100, 4000))
	// certificate data that HAS A STRUCTURE of its own (random bytes never do): see c10StructuredData
	c10StructuredData(c, fx)
}

// derShaped returns a well-formed DER element with the given tag whose content is n bytes (nested elements
// or plain bytes), with a definite length in the short, 0x81, 0x82 or 0x83 form as n demands.
func derShaped(rng *mrand.Rand, tag byte, n int) []byte {
	body := make([]byte, n)
	rng.Read(body)
	if n >= 5 && rng.Intn(2) == 0 {
		// INTEGER 1 in front, as a SignedData starts; the rest one OCTET STRING
		rest := n - 3
		for _, hl := range []int{2, 3, 4, 5} {
			if in := rest - hl; in >= 0 && len(derLen(in)) == hl-1 {
				body = append([]byte{0x02, 0x01, 0x01, 0x04}, derLen(in)...)
				tail := make([]byte, in)
				rng.Read(tail)
				body = append(body, tail...)
				break
			}
		}
		if len(body) != n { // no octet string of exactly that size: plain bytes
			body = make([]byte, n)
			rng.Read(body)
		}
	}
	return append(append([]byte{tag}, derLen(len(body))...), body...)
}

// c10StructuredData: "recovers ... certificate data exactly" and "encoding a decoded value reproduces the bytes
// that were consumed" hold for certificate data of ANY content, also for data that looks like something a
// decoder might want to interpret. The data here is a well-formed DER element (SEQUENCE most of the time: the
// shape of a PKCS#7 SignedData; also SET / OCTET STRING / context-tagged) of 0..3000 and about 65 000 content bytes, alone or
// followed INSIDE dwLength by fill: zero bytes up to the next multiple of 2 / 4 / 8 / 16 of the data or of
// dwLength (what signing tools that align the certificate table produce), 1..16 zero bytes, 0xFF fill, a second
// DER element, random bytes; under the PKCS7 type GUID, the RSA2048 one and a random one; and the SignedData of
// every .auth fixture of the repository with dwLength rounded up the same ways. Evaluated by the descriptor
// oracle (c10EvalAuth: every field and data byte of the declared bytes, the source position, the re-encoding),
// and as the descriptor decoded in a sequence on one value.
func c10StructuredData(c *Ctx, fx [][]byte) {
	sub := &Ctx{Rng: mrand.New(mrand.NewSource(c.Seed*49979687 + 23 + int64(c.Shard)*1000003)), Thorough: c.Thorough}
	rng := sub.Rng
	pk7 := wireGUID(signature.EFI_CERT_TYPE_PKCS7_GUID)
	fill := func(data []byte, k int) ([]byte, string) {
		out := append([]byte{}, data...)
		switch k % 8 {
		case 0:
			return out, "bare"
		case 1, 2:
			// the data, or dwLength (24 + data), rounded up to a multiple of 2 / 4 / 8 / 16 with zero bytes
			a := []int{2, 4, 8, 8, 16}[rng.Intn(5)]
			base := len(out)
			if k%8 == 2 {
				base += 24
			}
			pad := (a - base%a) % a
			if pad == 0 {
				pad = a
			}
			return append(out, make([]byte, pad)...), "zero-aligned"
		case 3:
			return append(out, make([]byte, 1+rng.Intn(16))...), "zero-fill"
		case 4:
			return append(out, bytes.Repeat([]byte{0xff}, 1+rng.Intn(8))...), "ff-fill"
		case 5:
			return append(out, derShaped(rng, 0x30, rng.Intn(20))...), "second-element"
		case 6:
			return append(append(out, make([]byte, 1+rng.Intn(7))...), byte(1+rng.Intn(255))), "zeros-then-nonzero"
		default:
			return append(out, randBytes(sub, 1+rng.Intn(12))...), "random-tail"
		}
	}
	emit := func(i int, cls string, guid, data []byte) {
		payload := randBytes(sub, []int{0, 1, 28, 76, rng.Intn(300)}[rng.Intn(5)])
		b := mkAuth(randBytes(sub, 16), uint32(24+len(data)), 0x0200, 0x0EF1, guid, data, payload)
		c10EvalAuth(c, Case{"op": "auth", "class": "der-data/" + cls, "reader": readerKinds[i%len(readerKinds)], "bytes": hx(b)})
		if i%4 == 0 && len(data) <= 1500 {
			// ... and as the second descriptor a value decodes, through Unmarshal and through the readers
			first := hx(mkAuth(randBytes(sub, 16), uint32(24+5), 0x0200, 0x0EF1, pk7, randBytes(sub, 5), nil))
			desc := hx(mkAuth(randBytes(sub, 16), uint32(24+len(data)), 0x0200, 0x0EF1, guid, data, nil))
			steps := []string{"unmarshal," + first, []string{"unmarshal,", "read,bytes.Reader,", "readcert,one-byte,"}[(i/4)%3] + desc}
			c10SeqShrunk(c, Case{"op": "seq", "class": "der-data-second", "steps": steps, "payload": hx(payload)})
		}
	}
	n := 0
	for i := 0; i < c.N(160, 6000) && c.NFailures() < 8; i++ {
		size := []int{0, 1, 3, 5, 100, 126, 127, 128, 129, 255, 256, 257, 1500, rng.Intn(3000)}[rng.Intn(14)]
		if i%40 == 39 {
			size = []int{65000, 65400, 65500}[(i/40)%3] // near the top of the stated range
		}
		tag := []byte{0x30, 0x30, 0x30, 0x30, 0x31, 0x04, 0xa0}[rng.Intn(7)]
		guid := [][]byte{pk7, pk7, pk7, wireRSA2048GUID, randBytes(sub, 16)}[rng.Intn(5)]
		data, cls := fill(derShaped(rng, tag, size), i)
		if len(data)+24 > 65536+24 {
			continue
		}
		emit(n, cls, guid, data)
		n++
	}
	// the SignedData of the repository's descriptors, with dwLength rounded up as an aligning tool would
	for i, b := range fx {
		if len(b) < 40 {
			continue
		}
		dw := int(binary.LittleEndian.Uint32(b[16:20]))
		if dw < 24 || 16+dw > len(b) {
			continue
		}
		for k := 1; k <= 3; k++ {
			data, cls := fill(b[40:16+dw], k)
			emit(n, "fixture-"+cls, b[24:40], data)
			n++
		}
		if c.Quick() && i >= 5 {
			break
		}
	}
}

func init() {
	register("C10", &PropDef{
		Rule:   "descriptors with any timestamp, certificate-data length in {0,1,7,16,100,1500,random<=64KiB, and 65511..65536 where dwLength crosses 2^16}, PKCS7 or random type GUID, followed by payloads of 0..300 bytes; variants with a wrong revision, a declared length beyond the data, and a declared length shorter than the data (surplus is payload); the .auth fixtures of the repository; plain WIN_CERTIFICATEs of all three certificate types (up to 64 KiB). INPUTS THAT END EARLY: 40 well-formed WIN_CERTIFICATEs (all three types, bodies of 1..3000 bytes) cut at every position inside the 8-byte header and inside the body (every position for bodies up to 40 bytes, the first 12 / last 4 positions and a sample otherwise) are handed to ReadWinCertificate DIRECTLY through every reader kind (sources ending with a plain io.EOF, and one handing out its last data together with io.EOF); oracle, independent of the model: ReadWinCertificate (any revision, any type) and ReadEFIVariableAuthencation2 may return a nil error only when the header and the bytes its length field declares were present, the value then holds exactly these fields and body bytes and the source is left exactly behind them - an input cut short is answered with an error, never with a (zero) value and a nil error. Each input is handed to the decoder through a bytes.Reader, a bytes.Buffer, a one-byte-at-a-time reader, a reader that returns its last data together with io.EOF, or a half-count reader, over a private copy, and the source (buffer drained, reset and reused; backing array overwritten) is destroyed before the decoded value is inspected and re-encoded. Sequences on ONE EFIVariableAuthentication2 value (2..6 steps): it is built by NewEFIVariableAuthentication2 or decoded, then again decoded into as the receiver of Unmarshal (so a second, third descriptor - with empty or non-empty certificate data, dwLength 24..24+1500 - lands in an object that held another one), replaced by the result of ReadEFIVariableAuthencation2, given a new AuthInfo by ReadWinCertificateUEFIGUID, and edited (Time, type GUID, certificate data with dwLength adjusted); after every step the object must hold exactly the fields these steps define, must encode (Marshal and WriteEFIVariableAuthencation2, also compared with the encoder model and Spec.encAuth through the driver op auth.write) to the 16+dwLength bytes of their declared-length layout, and decoding that encoding in front of a payload must return the fields and leave the payload; failing sequences are shrunk by deleting steps. DESTINATIONS THAT ALREADY HOLD CONTENT: every successfully decoded descriptor / WIN_CERTIFICATE and every value of a sequence step is also encoded (Marshal, WriteEFIVariableAuthencation2, WriteWinCertificateUEFIGUID, WriteWinCertificate) into three buffers that are not empty - the four attribute bytes of an efivarfs file, 1/15/16/17/40/300 bytes, a whole earlier encoding of the same value (a second descriptor appended behind the first), each also with a part of the content already read; oracle: the unread content stays as it is and exactly the bytes the same call writes into an empty destination follow it. DECLARED LENGTHS AROUND THE FIXED PART: descriptors with EVERY dwLength from 8 (the bare WIN_CERTIFICATE header) over 9..23 (a type GUID cut short) and 24 (no certificate data) to 40, with exactly the declared bytes present and with a payload of 1 / 28 bytes behind them, certificate types 0x0EF1 / 0x0002 / 0x0EF0, through every reader kind; oracle, independent of the model, on EVERY successful ReadEFIVariableAuthencation2 of the run: dwLength is at least 24 (otherwise the declared bytes hold no type GUID that could have been recovered), the value holds exactly the timestamp, length, revision, certificate type, type GUID and certificate data that the 16 + dwLength declared bytes spell out, the source is left exactly behind them and the value encodes to them again; and ReadWinCertificateUEFIGUID, the decoder of the part behind the timestamp (any certificate type), is run on every evaluated descriptor: a success requires dwLength >= 24, the declared bytes present, exactly their fields in the value and the source left exactly behind them, and it must succeed wherever the descriptor decoder does. SEVERAL DECODERS AT THE SAME TIME (100 groups of 2 or 3 descriptors, each followed by its payload; two thirds of one layout with other timestamps, GUIDs and data, one in eight with a member cut short or of a wrong revision): each descriptor is decoded on its own goroutine through a source that delivers its bytes in pieces (whole reads, or at most 1 / 3 / 5 / 7 bytes per Read, so that timestamp, header and body arrive in several pieces, as from a pipe) and parks inside every Read - before it touches the destination, or after the bytes are in place but before Read returns - handing control to the next decoder following a switch plan that is part of the case (every parking point, every 2nd / 3rd, mixed, random), so exactly one goroutine runs at a time and every run is deterministic; oracle: every call returns the fields, the bytes left in its source and the re-encoding that the same call through the same reader returns alone. CERTIFICATE DATA WITH A STRUCTURE OF ITS OWN (160 descriptors, thorough 6000, plus three per .auth fixture): the data is a well-formed DER element (SEQUENCE - the shape of a PKCS#7 SignedData - most of the time, also SET / OCTET STRING / context-tagged; content 0..3000 bytes and just below 64 KiB, so the short, 0x81 and 0x82 length forms occur) alone or followed INSIDE dwLength by fill - zero bytes up to the next multiple of 2 / 4 / 8 / 16 of the data or of dwLength (descriptors of tools that align the certificate), 1..16 zero bytes, 0xFF bytes, zeros then a non-zero byte, a second DER element, random bytes - under the PKCS7, the RSA2048 and a random type GUID, and the SignedData of the repository fixtures with dwLength rounded up the same ways; judged by the same declared-length oracle (every data byte inside dwLength is certificate data, the re-encoding is the consumed bytes) and, for data up to 1500 bytes, as the second descriptor decoded into one value in a sequence (Unmarshal / ReadEFIVariableAuthencation2 / ReadWinCertificateUEFIGUID). Inputs on which the unrepaired decoder would terminate the process (body shorter than a GUID, dwLength < 8) belong to C13/C14 and are generated there. Non-trivial: longer than the fixed header; distinct = distinct byte strings.",
		Assume: []string{},
		Eval:   c10Eval, Gen: c10Gen,
	})
}
