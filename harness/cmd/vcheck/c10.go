package main

import (
	"bytes"
	"encoding/binary"
	"fmt"
	"io"
	"os"
	"path/filepath"
	"strings"
	"testing/iotest"

	"github.com/foxboron/go-uefi/efi/signature"
)

// srcReader hands the decoder one of the io.Reader kinds callers use, over a private copy of the
// input, and afterwards overwrites everything the decoder could still be pointing into
type srcReader struct {
	r       io.Reader
	kind    string
	rest    int // bytes left unread when clobber was called
	clobber func()
}

var readerKinds = []string{"bytes.Reader", "bytes.Buffer", "one-byte", "data-err", "half"}

type countReader struct {
	r io.Reader
	n int
}

func (c *countReader) Read(p []byte) (int, error) {
	n, err := c.r.Read(p)
	c.n += n
	return n, err
}

func newSrcReader(kind string, b []byte) *srcReader {
	src := append(make([]byte, 0, len(b)+64), b...)
	s := &srcReader{kind: kind}
	scribble := func() {
		full := src[:cap(src)]
		for i := range full {
			full[i] = 0xEE
		}
	}
	switch kind {
	case "bytes.Buffer":
		buf := bytes.NewBuffer(src)
		s.r = buf
		s.clobber = func() {
			s.rest = buf.Len()
			buf.Next(buf.Len()) // drain, as a caller reading the payload would
			buf.Reset()
			buf.Write(bytes.Repeat([]byte{0xEE}, len(b)+32)) // and reuse the buffer
			scribble()
		}
	case "one-byte":
		br := bytes.NewReader(src)
		s.r = iotest.OneByteReader(br)
		s.clobber = func() { s.rest = br.Len(); scribble() }
	case "data-err": // the final data are returned together with io.EOF (this reader reads ahead: count what it hands out)
		cr := &countReader{r: iotest.DataErrReader(bytes.NewReader(src))}
		s.r = cr
		s.clobber = func() { s.rest = len(b) - cr.n; scribble() }
	case "half": // every Read delivers half of what was asked for
		cr := &countReader{r: iotest.HalfReader(bytes.NewReader(src))}
		s.r = cr
		s.clobber = func() { s.rest = len(b) - cr.n; scribble() }
	default:
		s.kind = "bytes.Reader"
		br := bytes.NewReader(src)
		s.r = br
		s.clobber = func() { s.rest = br.Len(); scribble() }
	}
	return s
}

func c10EvalAuth(c *Ctx, cs Case) {
	b := unhx(cs.S("bytes"))
	cls := cs.S("class")
	r := newSrcReader(cs.S("reader"), b)
	var d *signature.EFIVariableAuthentication2
	var err error
	panicked, pmsg := safely(func() { d, err = signature.ReadEFIVariableAuthencation2(r.r) })
	r.clobber() // the decoded value must not depend on the source after the call
	goObs := "err"
	var reenc []byte
	if panicked {
		goObs = "panic"
	} else if err == nil {
		var tb bytes.Buffer
		binary.Write(&tb, binary.LittleEndian, d.Time)
		var mb bytes.Buffer
		d.Marshal(&mb)
		reenc = mb.Bytes()
		goObs = fmt.Sprintf("ok time=%s len=%d rev=%d type=%d guid=%s data=%s rest=%d reenc=%s", hx(tb.Bytes()), d.AuthInfo.Header.Length, d.AuthInfo.Header.Revision,
			uint16(d.AuthInfo.Header.CertType), hx(wireGUID(d.AuthInfo.CertType)), hx(d.AuthInfo.CertData), r.rest, hx(reenc))
	}
	c.Count(cs.Key(), len(b) > 40, "auth/"+cls+"/"+r.kind+"/"+strings.SplitN(goObs, " ", 2)[0])
	if len(b) < 120 {
		c.Sample(cs)
	}
	ans := c.Drv.Ask("auth.read", hx(b))
	mi := strings.Index(ans, " spec=")
	if !strings.HasPrefix(ans, "model=") || mi < 0 {
		c.Fail(Failure{Kind: "tie", What: "driver answer malformed", Case: cs, Model: ans})
		return
	}
	model, spec := ans[len("model="):mi], ans[mi+len(" spec="):]
	c.Trace()
	if model != goObs {
		c.Fail(Failure{Kind: "tie", What: "ReadEFIVariableAuthencation2: model and implementation disagree", Case: cs, Model: clip(model), Go: clip(goObs)})
	}
	fail := func(what, matcher string) {
		c.Fail(Failure{Kind: "property", Matcher: matcher, What: what, Case: cs, Go: clip(goObs), Spec: clip(spec)})
	}
	if panicked {
		fail("decoder panicked: "+pmsg, "")
		return
	}
	// oracle: on descriptors that are well-formed by the specification's layout (revision 0x0200, type 0x0EF1)
	if strings.HasPrefix(spec, "some ") && strings.Contains(spec, " rev=512 ") && strings.Contains(spec, " type=3825 ") {
		if err != nil {
			fail("a well-formed descriptor was rejected", "")
			return
		}
		// fields and consumption: compare with the spec rendering (same field order up to "rest=")
		goFields := goObs[len("ok "):strings.Index(goObs, " reenc=")]
		if goFields != spec[len("some "):] {
			fail("decoded fields / bytes consumed differ from the declared-length layout", "")
		}
		var dw uint32
		if len(b) >= 20 {
			dw = binary.LittleEndian.Uint32(b[16:20])
		}
		consumed := b[:16+int(dw)]
		if !bytes.Equal(reenc, consumed) {
			fail(fmt.Sprintf("encoding the decoded descriptor gives %d bytes, not the %d bytes that were consumed", len(reenc), len(consumed)), "c10.body_written_twice")
		}
		// decode(encode(v)) = v
		var d2 *signature.EFIVariableAuthentication2
		p2, _ := safely(func() { d2, err = signature.ReadEFIVariableAuthencation2(bytes.NewReader(reenc)) })
		if p2 || err != nil {
			fail("decoding the encoded value failed", "c10.body_written_twice")
		} else {
			var m2 bytes.Buffer
			d2.Marshal(&m2)
			if !bytes.Equal(m2.Bytes(), reenc) || d2.Time != d.Time || d2.AuthInfo.CertType != d.AuthInfo.CertType || !bytes.Equal(d2.AuthInfo.CertData, d.AuthInfo.CertData) ||
				d2.AuthInfo.Header.Length != d.AuthInfo.Header.Length || d2.AuthInfo.Header.Revision != d.AuthInfo.Header.Revision || d2.AuthInfo.Header.CertType != d.AuthInfo.Header.CertType {
				fail("decoding the encoded value does not reproduce the value", "c10.body_written_twice")
			}
		}
	}
}

func c10EvalWinCert(c *Ctx, cs Case) {
	b := unhx(cs.S("bytes"))
	r := newSrcReader(cs.S("reader"), b)
	var w signature.WINCertificate
	var err error
	panicked, pmsg := safely(func() { w, err = signature.ReadWinCertificate(r.r) })
	r.clobber()
	goObs := "err"
	var reenc bytes.Buffer
	if panicked {
		goObs = "panic"
	} else if err == nil {
		signature.WriteWinCertificate(&reenc, &w)
		goObs = fmt.Sprintf("ok len=%d rev=%d type=%d cert=%s rest=%d reenc=%s", w.Length, w.Revision, uint16(w.CertType), hx(w.Certificate), r.rest, hx(reenc.Bytes()))
	}
	c.Count(cs.Key(), len(b) > 8, "wincert/"+cs.S("class")+"/"+r.kind+"/"+strings.SplitN(goObs, " ", 2)[0])
	c.Trace()
	if m := c.Drv.Ask("wincert.read", hx(b)); m != goObs {
		c.Fail(Failure{Kind: "tie", What: "ReadWinCertificate: model and implementation disagree", Case: cs, Model: clip(m), Go: clip(goObs)})
	}
	if panicked {
		c.Fail(Failure{Kind: "property", What: "decoder panicked: " + pmsg, Case: cs, Go: goObs})
		return
	}
	// oracle: dwLength-delimited
	if len(b) >= 8 {
		dw := int(binary.LittleEndian.Uint32(b))
		rev := binary.LittleEndian.Uint16(b[4:])
		if rev == 0x0200 && dw >= 8 && dw <= len(b) {
			if err != nil {
				c.Fail(Failure{Kind: "property", What: "a well-formed WIN_CERTIFICATE was rejected", Case: cs, Go: goObs})
				return
			}
			if r.rest != len(b)-dw || !bytes.Equal(w.Certificate, b[8:dw]) || int(w.Length) != dw || uint16(w.CertType) != binary.LittleEndian.Uint16(b[6:]) {
				c.Fail(Failure{Kind: "property", What: "WIN_CERTIFICATE not decoded by its declared length", Case: cs, Go: clip(goObs), Spec: fmt.Sprintf("consume %d, rest %d", dw, len(b)-dw)})
			}
			if !bytes.Equal(reenc.Bytes(), b[:dw]) {
				c.Fail(Failure{Kind: "property", What: "encoding the decoded WIN_CERTIFICATE does not reproduce the bytes consumed", Case: cs, Go: clip(goObs)})
			}
		}
	}
}

func c10Eval(c *Ctx, cs Case) {
	if cs.S("op") == "wincert" {
		c10EvalWinCert(c, cs)
	} else {
		c10EvalAuth(c, cs)
	}
}

func mkAuth(time []byte, dw uint32, rev, typ uint16, guid, data, payload []byte) []byte {
	var b bytes.Buffer
	b.Write(time)
	binary.Write(&b, binary.LittleEndian, dw)
	binary.Write(&b, binary.LittleEndian, rev)
	binary.Write(&b, binary.LittleEndian, typ)
	b.Write(guid)
	b.Write(data)
	b.Write(payload)
	return b.Bytes()
}

func authFixtures(c *Ctx) [][]byte {
	var out [][]byte
	for _, p := range []string{"tests/ovmf/keys/*/*.auth", "efi/signature/testdata/*.auth", "tests/data/signatures/*/*.auth", "efi/efitest/testdata/*/*.auth"} {
		ms, _ := filepath.Glob(filepath.Join(c.RepoDir, p))
		for _, m := range ms {
			if b, err := os.ReadFile(m); err == nil && len(b) > 40 {
				out = append(out, b)
			}
		}
	}
	return out
}

func c10Gen(c *Ctx) {
	fx := authFixtures(c)
	c.Note("auth_fixtures", len(fx))
	for _, b := range fx {
		for _, k := range readerKinds {
			c10EvalAuth(c, Case{"op": "auth", "class": "fixture", "reader": k, "bytes": hx(b)})
		}
	}
	pk7 := wireGUID(signature.EFI_CERT_TYPE_PKCS7_GUID)
	for i := 0; i < c.N(800, 40000) && c.NFailures() < 8; i++ {
		n := []int{0, 1, 7, 16, 100, 1500, c.Rng.Intn(4000), c.Rng.Intn(c.P(8000, 65536))}[c.Rng.Intn(8)]
		data := randBytes(c, n)
		payload := randBytes(c, []int{0, 1, 28, 76, c.Rng.Intn(300)}[c.Rng.Intn(5)])
		time := randBytes(c, 16)
		guid := pk7
		if c.Rng.Intn(3) == 0 {
			guid = randBytes(c, 16)
		}
		cls := "wf"
		dw := uint32(24 + n)
		rev, typ := uint16(0x0200), uint16(0x0EF1)
		switch c.Rng.Intn(12) {
		case 0:
			rev, cls = uint16(c.Rng.Intn(65536)), "badrev"
		case 1:
			// declared length larger than the data present
			dw, cls = dw+1+uint32(c.Rng.Intn(64)), "too-long"
			payload = nil
		case 2:
			// declared length smaller than the data present: the surplus belongs to the payload
			if n > 0 {
				dw, cls = dw-uint32(1+c.Rng.Intn(n)), "shorter"
			}
		}
		c10EvalAuth(c, Case{"op": "auth", "class": cls, "reader": readerKinds[i%len(readerKinds)], "bytes": hx(mkAuth(time, dw, rev, typ, guid, data, payload))})
	}
	// the top of the stated range: certificate data of up to 64 KiB, where dwLength crosses 2^16
	for i, n := range []int{65511, 65512, 65513, 65519, 65520, 65521, 65527, 65528, 65529, 65535, 65536} {
		if c.Quick() && i%2 == 1 {
			continue
		}
		c10EvalAuth(c, Case{"op": "auth", "class": "wf-64k", "reader": readerKinds[i%len(readerKinds)], "bytes": hx(mkAuth(randBytes(c, 16), uint32(24+n), 0x0200, 0x0EF1, pk7, randBytes(c, n), randBytes(c, 5)))})
	}
	// library-produced descriptors are exercised by C06; plain WIN_CERTIFICATEs:
	for i := 0; i < c.N(500, 20000) && c.NFailures() < 8; i++ {
		n := []int{0, 1, 7, 8, 9, 100, c.Rng.Intn(3000)}[c.Rng.Intn(7)]
		var b bytes.Buffer
		dw := uint32(8 + n)
		rev := uint16(0x0200)
		cls := "wf"
		switch c.Rng.Intn(10) {
		case 0:
			rev, cls = uint16(c.Rng.Intn(65536)), "badrev"
		case 1:
			dw, cls = dw+uint32(1+c.Rng.Intn(9)), "too-long"
		case 2:
			if n > 0 {
				dw, cls = dw-uint32(1+c.Rng.Intn(n)), "shorter"
			}
		}
		binary.Write(&b, binary.LittleEndian, dw)
		binary.Write(&b, binary.LittleEndian, rev)
		binary.Write(&b, binary.LittleEndian, uint16([]int{2, 0x0EF0, 0x0EF1, c.Rng.Intn(65536)}[c.Rng.Intn(4)]))
		b.Write(randBytes(c, n))
		if cls != "too-long" {
			b.Write(randBytes(c, c.Rng.Intn(12)))
		}
		c10EvalWinCert(c, Case{"op": "wincert", "class": cls, "reader": readerKinds[i%len(readerKinds)], "bytes": hx(b.Bytes())})
	}
	for i, n := range []int{65527, 65528, 65529, 65535, 65536} {
		var b bytes.Buffer
		binary.Write(&b, binary.LittleEndian, uint32(8+n))
		binary.Write(&b, binary.LittleEndian, uint16(0x0200))
		binary.Write(&b, binary.LittleEndian, uint16(2))
		b.Write(randBytes(c, n+3))
		c10EvalWinCert(c, Case{"op": "wincert", "class": "wf-64k", "reader": readerKinds[i%len(readerKinds)], "bytes": hx(b.Bytes())})
	}
}

func init() {
	register("C10", &PropDef{
		Rule:   "descriptors with any timestamp, certificate-data length in {0,1,7,16,100,1500,random<=64KiB, and 65511..65536 where dwLength crosses 2^16}, PKCS7 or random type GUID, followed by payloads of 0..300 bytes; variants with a wrong revision, a declared length beyond the data, and a declared length shorter than the data (surplus is payload); the .auth fixtures of the repository; plain WIN_CERTIFICATEs of all three certificate types (up to 64 KiB). Each input is handed to the decoder through a bytes.Reader, a bytes.Buffer, a one-byte-at-a-time reader, a reader that returns its last data together with io.EOF, or a half-count reader, over a private copy, and the source (buffer drained, reset and reused; backing array overwritten) is destroyed before the decoded value is inspected and re-encoded. Inputs on which the unrepaired decoder would terminate the process (body shorter than a GUID, dwLength < 8) belong to C13/C14 and are generated there. Non-trivial: longer than the fixed header; distinct = distinct byte strings.",
		Assume: []string{},
		Eval:   c10Eval, Gen: c10Gen,
	})
}
