package main

import (
	"bytes"
	"encoding/binary"
	"fmt"
	"io"
	mrand "math/rand"
	"os"
	"path/filepath"
	"strings"
	"testing/iotest"

	"github.com/foxboron/go-uefi/efi/signature"
)

// srcReader hands the decoder one of the io.Reader kinds callers use, over a private copy of the
// input, and afterwards overwrites everything the decoder could still be pointing into
type srcReader struct {
	r       io.Reader
	kind    string
	rest    int // bytes left unread when clobber was called
	clobber func()
}

var readerKinds = []string{"bytes.Reader", "bytes.Buffer", "one-byte", "data-err", "half"}

type countReader struct {
	r io.Reader
	n int
}

func (c *countReader) Read(p []byte) (int, error) {
	n, err := c.r.Read(p)
	c.n += n
	return n, err
}

func newSrcReader(kind string, b []byte) *srcReader {
	src := append(make([]byte, 0, len(b)+64), b...)
	s := &srcReader{kind: kind}
	scribble := func() {
		full := src[:cap(src)]
		for i := range full {
			full[i] = 0xEE
		}
	}
	switch kind {
	case "bytes.Buffer":
		buf := bytes.NewBuffer(src)
		s.r = buf
		s.clobber = func() {
			s.rest = buf.Len()
			buf.Next(buf.Len()) // drain, as a caller reading the payload would
			buf.Reset()
			buf.Write(bytes.Repeat([]byte{0xEE}, len(b)+32)) // and reuse the buffer
			scribble()
		}
	case "one-byte":
		br := bytes.NewReader(src)
		s.r = iotest.OneByteReader(br)
		s.clobber = func() { s.rest = br.Len(); scribble() }
	case "data-err": // the final data are returned together with io.EOF (this reader reads ahead: count what it hands out)
		cr := &countReader{r: iotest.DataErrReader(bytes.NewReader(src))}
		s.r = cr
		s.clobber = func() { s.rest = len(b) - cr.n; scribble() }
	case "half": // every Read delivers half of what was asked for
		cr := &countReader{r: iotest.HalfReader(bytes.NewReader(src))}
		s.r = cr
		s.clobber = func() { s.rest = len(b) - cr.n; scribble() }
	default:
		s.kind = "bytes.Reader"
		br := bytes.NewReader(src)
		s.r = br
		s.clobber = func() { s.rest = br.Len(); scribble() }
	}
	return s
}

// ---- destinations that already hold content ----
//
// The encoders do not return bytes, they write into a destination the caller supplies (*bytes.Buffer,
// io.Writer), and a caller's buffer is rarely empty: the four attribute bytes of an efivarfs file are
// written first, a descriptor is appended behind another one, a buffer is reused after part of it was
// read. "Encoding a value reproduces the bytes" is then a statement about what the call ADDS: the
// unread content of the destination stays as it is and exactly the encoding follows it. dests gives, for
// one value, destinations of these classes (content derived from the encoding itself, so that replays are
// exact): the attribute word; 1, 15, 16, 17 and 40 bytes; a whole earlier encoding; each also with a
// part of the content already read.
type destCase struct {
	pre  []byte
	read int
}

func dests(enc []byte, salt int) []destCase {
	fill := func(n int) []byte {
		o := make([]byte, n)
		for i := range o {
			o[i] = byte(0xA0 + i)
			if len(enc) > 0 {
				o[i] ^= enc[(i*7+salt)%len(enc)]
			}
		}
		return o
	}
	all := []destCase{
		{[]byte{0x27, 0x00, 0x00, 0x00}, 0},
		{fill(1), 0}, {fill(15), 0}, {fill(16), 0}, {fill(17), 0}, {fill(40), 0},
		{append([]byte{}, enc...), 0},
		{append([]byte{0x27, 0, 0, 0}, enc...), 4},
		{fill(40), 7}, {fill(16), 16}, {fill(300), 0},
	}
	// three of them per value, rotating
	return []destCase{all[0], all[1+salt%5], all[6+salt%5]}
}

// appendsTo runs an encoder on destinations that already hold content; want is what it writes into an empty one
func appendsTo(c *Ctx, cs Case, name string, want []byte, salt int, enc func(b *bytes.Buffer)) {
	for _, d := range dests(want, salt) {
		buf := &bytes.Buffer{}
		buf.Write(d.pre)
		buf.Next(d.read)
		held := append([]byte{}, buf.Bytes()...)
		if p, msg := safely(func() { enc(buf) }); p {
			c.Fail(Failure{Kind: "property", What: fmt.Sprintf("%s into a destination that already holds %d unread bytes panicked: %s", name, len(held), msg), Case: cs})
			return
		}
		c.Class(fmt.Sprintf("dest-with-content/%s/%d-held-%d-read", name, len(held), d.read))
		if exp := append(append([]byte{}, held...), want...); !bytes.Equal(buf.Bytes(), exp) {
			c.Fail(Failure{Kind: "property", What: fmt.Sprintf("%s into a destination that already holds %d unread bytes: the destination does not read as that content followed by the %d bytes of the encoding (what the same call writes into an empty destination)", name, len(held), len(want)),
				Case: cs, Go: clip(hx(buf.Bytes())), Spec: clip(hx(held) + " || " + hx(want))})
			return
		}
	}
}

func c10EvalAuth(c *Ctx, cs Case) {
	b := unhx(cs.S("bytes"))
	cls := cs.S("class")
	r := newSrcReader(cs.S("reader"), b)
	var d *signature.EFIVariableAuthentication2
	var err error
	panicked, pmsg := safely(func() { d, err = signature.ReadEFIVariableAuthencation2(r.r) })
	r.clobber() // the decoded value must not depend on the source after the call
	goObs := "err"
	var reenc []byte
	if panicked {
		goObs = "panic"
	} else if err == nil {
		var tb bytes.Buffer
		binary.Write(&tb, binary.LittleEndian, d.Time)
		var mb bytes.Buffer
		d.Marshal(&mb)
		reenc = mb.Bytes()
		goObs = fmt.Sprintf("ok time=%s len=%d rev=%d type=%d guid=%s data=%s rest=%d reenc=%s", hx(tb.Bytes()), d.AuthInfo.Header.Length, d.AuthInfo.Header.Revision,
			uint16(d.AuthInfo.Header.CertType), hx(wireGUID(d.AuthInfo.CertType)), hx(d.AuthInfo.CertData), r.rest, hx(reenc))
	}
	c.Count(cs.Key(), len(b) > 40, "auth/"+cls+"/"+r.kind+"/"+strings.SplitN(goObs, " ", 2)[0])
	if len(b) < 120 {
		c.Sample(cs)
	}
	if !panicked && err == nil {
		snap := append([]byte{}, reenc...)
		appendsTo(c, cs, "Marshal", snap, len(b), func(buf *bytes.Buffer) { d.Marshal(buf) })
		appendsTo(c, cs, "WriteEFIVariableAuthencation2", snap, len(b)+1, func(buf *bytes.Buffer) { signature.WriteEFIVariableAuthencation2(buf, *d) })
	}
	ans := c.Drv.Ask("auth.read", hx(b))
	mi := strings.Index(ans, " spec=")
	if !strings.HasPrefix(ans, "model=") || mi < 0 {
		c.Fail(Failure{Kind: "tie", What: "driver answer malformed", Case: cs, Model: ans})
		return
	}
	model, spec := ans[len("model="):mi], ans[mi+len(" spec="):]
	c.Trace()
	c.GenTie(cs, "ReadEFIVariableAuthencation2 / Marshal", model, "gen.auth.read", hx(b))
	if model != goObs {
		c.Fail(Failure{Kind: "tie", What: "ReadEFIVariableAuthencation2: model and implementation disagree", Case: cs, Model: clip(model), Go: clip(goObs)})
	}
	fail := func(what, matcher string) {
		c.Fail(Failure{Kind: "property", Matcher: matcher, What: what, Case: cs, Go: clip(goObs), Spec: clip(spec)})
	}
	if panicked {
		fail("decoder panicked: "+pmsg, "")
		return
	}
	// a success says that the 16 + dwLength bytes of the descriptor were there and were consumed: an input that ends
	// before them can only be answered with an error
	if err == nil {
		if len(b) < 40 || 16+uint64(binary.LittleEndian.Uint32(b[16:20])) > uint64(len(b)) {
			fail(fmt.Sprintf("ReadEFIVariableAuthencation2 returned a value and no error although the input (%d bytes) ends before the 16 + dwLength bytes of the descriptor", len(b)), "")
			return
		}
	}
	// oracle: on descriptors that are well-formed by the specification's layout (revision 0x0200, type 0x0EF1)
	if strings.HasPrefix(spec, "some ") && strings.Contains(spec, " rev=512 ") && strings.Contains(spec, " type=3825 ") {
		if err != nil {
			fail("a well-formed descriptor was rejected", "")
			return
		}
		// fields and consumption: compare with the spec rendering (same field order up to "rest=")
		goFields := goObs[len("ok "):strings.Index(goObs, " reenc=")]
		if goFields != spec[len("some "):] {
			fail("decoded fields / bytes consumed differ from the declared-length layout", "")
		}
		var dw uint32
		if len(b) >= 20 {
			dw = binary.LittleEndian.Uint32(b[16:20])
		}
		consumed := b[:16+int(dw)]
		if !bytes.Equal(reenc, consumed) {
			fail(fmt.Sprintf("encoding the decoded descriptor gives %d bytes, not the %d bytes that were consumed", len(reenc), len(consumed)), "c10.body_written_twice")
		}
		// decode(encode(v)) = v
		var d2 *signature.EFIVariableAuthentication2
		p2, _ := safely(func() { d2, err = signature.ReadEFIVariableAuthencation2(bytes.NewReader(reenc)) })
		if p2 || err != nil {
			fail("decoding the encoded value failed", "c10.body_written_twice")
		} else {
			var m2 bytes.Buffer
			d2.Marshal(&m2)
			if !bytes.Equal(m2.Bytes(), reenc) || d2.Time != d.Time || d2.AuthInfo.CertType != d.AuthInfo.CertType || !bytes.Equal(d2.AuthInfo.CertData, d.AuthInfo.CertData) ||
				d2.AuthInfo.Header.Length != d.AuthInfo.Header.Length || d2.AuthInfo.Header.Revision != d.AuthInfo.Header.Revision || d2.AuthInfo.Header.CertType != d.AuthInfo.Header.CertType {
				fail("decoding the encoded value does not reproduce the value", "c10.body_written_twice")
			}
		}
	}
}

func c10EvalWinCert(c *Ctx, cs Case) {
	b := unhx(cs.S("bytes"))
	r := newSrcReader(cs.S("reader"), b)
	var w signature.WINCertificate
	var err error
	panicked, pmsg := safely(func() { w, err = signature.ReadWinCertificate(r.r) })
	r.clobber()
	goObs := "err"
	var reenc bytes.Buffer
	if panicked {
		goObs = "panic"
	} else if err == nil {
		signature.WriteWinCertificate(&reenc, &w)
		goObs = fmt.Sprintf("ok len=%d rev=%d type=%d cert=%s rest=%d reenc=%s", w.Length, w.Revision, uint16(w.CertType), hx(w.Certificate), r.rest, hx(reenc.Bytes()))
	}
	c.Count(cs.Key(), len(b) > 8, "wincert/"+cs.S("class")+"/"+r.kind+"/"+strings.SplitN(goObs, " ", 2)[0])
	if !panicked && err == nil {
		appendsTo(c, cs, "WriteWinCertificate", append([]byte{}, reenc.Bytes()...), len(b), func(buf *bytes.Buffer) { signature.WriteWinCertificate(buf, &w) })
	}
	c.Trace()
	if m := c.Drv.Ask("wincert.read", hx(b)); m != goObs {
		c.Fail(Failure{Kind: "tie", What: "ReadWinCertificate: model and implementation disagree", Case: cs, Model: clip(m), Go: clip(goObs)})
	} else {
		c.GenTie(cs, "ReadWinCertificate / WriteWinCertificate", m, "gen.wincert.read", hx(b))
	}
	if panicked {
		c.Fail(Failure{Kind: "property", What: "decoder panicked: " + pmsg, Case: cs, Go: goObs})
		return
	}
	// oracle: a success is a statement about the input, whatever its revision or type: the decoder "consumes exactly
	// the bytes its length field declares" and "recovers ... exactly" - so the header and the dwLength-8 body bytes
	// must have been there, the value must hold them, and nothing else may have been taken from the source. An input
	// that ends before them (cut inside the header or inside the body) has no such bytes: only an error is an answer,
	// never a value - least of all a zero value - with a nil error.
	if err == nil {
		dw := -1
		if len(b) >= 8 {
			dw = int(binary.LittleEndian.Uint32(b))
		}
		switch {
		case len(b) < 8:
			c.Fail(Failure{Kind: "property", What: fmt.Sprintf("ReadWinCertificate returned a value and no error on %d bytes, less than the 8-byte WIN_CERTIFICATE header", len(b)), Case: cs, Go: clip(goObs), Spec: "an error"})
			return
		case dw < 8 || dw > len(b):
			c.Fail(Failure{Kind: "property", What: fmt.Sprintf("ReadWinCertificate returned a value and no error although the input (%d bytes) ends before the %d bytes its dwLength declares: the declared bytes cannot have been consumed", len(b), dw), Case: cs, Go: clip(goObs), Spec: "an error"})
			return
		case int(w.Length) != dw || w.Revision != binary.LittleEndian.Uint16(b[4:]) || uint16(w.CertType) != binary.LittleEndian.Uint16(b[6:]) || !bytes.Equal(w.Certificate, b[8:dw]) || r.rest != len(b)-dw:
			c.Fail(Failure{Kind: "property", What: "ReadWinCertificate succeeded but the value does not hold the header fields and the dwLength-8 body bytes of the input, or the source was not left exactly behind them", Case: cs, Go: clip(goObs), Spec: fmt.Sprintf("len=%d cert=%s rest=%d", dw, clip(hx(b[8:dw])), len(b)-dw)})
			return
		}
	}
	// oracle: dwLength-delimited
	if len(b) >= 8 {
		dw := int(binary.LittleEndian.Uint32(b))
		rev := binary.LittleEndian.Uint16(b[4:])
		if rev == 0x0200 && dw >= 8 && dw <= len(b) {
			if err != nil {
				c.Fail(Failure{Kind: "property", What: "a well-formed WIN_CERTIFICATE was rejected", Case: cs, Go: goObs})
				return
			}
			if r.rest != len(b)-dw || !bytes.Equal(w.Certificate, b[8:dw]) || int(w.Length) != dw || uint16(w.CertType) != binary.LittleEndian.Uint16(b[6:]) {
				c.Fail(Failure{Kind: "property", What: "WIN_CERTIFICATE not decoded by its declared length", Case: cs, Go: clip(goObs), Spec: fmt.Sprintf("consume %d, rest %d", dw, len(b)-dw)})
			}
			if !bytes.Equal(reenc.Bytes(), b[:dw]) {
				c.Fail(Failure{Kind: "property", What: "encoding the decoded WIN_CERTIFICATE does not reproduce the bytes consumed", Case: cs, Go: clip(goObs)})
			}
		}
	}
}

// ---- sequences of operations on ONE descriptor value ----
//
// The round-trip clauses of the property speak about VALUES ("encoding a decoded value", "decoding an
// encoded value"). A value a caller holds is not only the result of one decode of one input: it is
// built (NewEFIVariableAuthentication2), decoded into a receiver that was used before (Unmarshal),
// replaced by a decoded one, and edited field by field before it is encoded. A sequence applies such
// steps to one EFIVariableAuthentication2 object and keeps, next to it, the abstract descriptor
// (time, dwLength, revision, type, type GUID, data) that the steps define. After EVERY step the object
// must hold exactly these fields, encode to exactly the declared-length layout of them (16 + dwLength
// bytes), and decoding that encoding in front of a payload must give the fields back and leave the
// payload alone.
//
// steps:  new | unmarshal,<descriptor> | read,<reader kind>,<descriptor> | readcert,<reader kind>,<descriptor>
//         | time,<16 bytes> | guid,<16 bytes> | data,<bytes>   (data sets CertData and dwLength = 24 + len)

type authRef struct {
	time     []byte
	dw       uint32
	rev, typ uint16
	guid     []byte
	data     []byte
}

func (r authRef) enc() []byte { return mkAuth(r.time, r.dw, r.rev, r.typ, r.guid, r.data, nil) }

func (r authRef) fields() string {
	return fmt.Sprintf("time=%s len=%d rev=%d type=%d guid=%s data=%s", hx(r.time), r.dw, r.rev, r.typ, hx(r.guid), hx(r.data))
}

func authObjFields(d *signature.EFIVariableAuthentication2) string {
	var tb bytes.Buffer
	binary.Write(&tb, binary.LittleEndian, d.Time)
	return fmt.Sprintf("time=%s len=%d rev=%d type=%d guid=%s data=%s", hx(tb.Bytes()), d.AuthInfo.Header.Length, d.AuthInfo.Header.Revision,
		uint16(d.AuthInfo.Header.CertType), hx(wireGUID(d.AuthInfo.CertType)), hx(d.AuthInfo.CertData))
}

// refOfWire reads a generated well-formed descriptor by its declared length (independently of the library)
func refOfWire(b []byte) (authRef, bool) {
	if len(b) < 40 {
		return authRef{}, false
	}
	dw := binary.LittleEndian.Uint32(b[16:20])
	if dw < 24 || uint64(len(b)) < 16+uint64(dw) {
		return authRef{}, false
	}
	return authRef{time: b[:16], dw: dw, rev: binary.LittleEndian.Uint16(b[20:]), typ: binary.LittleEndian.Uint16(b[22:]), guid: b[24:40], data: b[40 : 16+dw]}, true
}

func strList(v interface{}) []string {
	switch x := v.(type) {
	case []string:
		return x
	case []interface{}:
		out := []string{}
		for _, e := range x {
			if s, ok := e.(string); ok {
				out = append(out, s)
			}
		}
		return out
	}
	return nil
}

// type GUIDs in wire form, written out from UEFI 2.8 section 32.2.4 / 8.2.2 (not taken from the code under test)
var (
	wirePKCS7GUID   = unhx("9dd2af4adf68ee498aa9347d375665a7")
	wireRSA2048GUID = unhx("147471a716c677499420844712a735bf")
)

func c10Seq(c *Ctx, cs Case) {
	steps := strList(cs["steps"])
	payload := unhx(cs.S("payload"))
	var obj signature.EFIVariableAuthentication2
	ref := authRef{time: make([]byte, 16)}
	have := false // the object holds a descriptor (something was built or decoded)
	kinds := []string{}
	for _, st := range steps {
		kinds = append(kinds, strings.SplitN(st, ",", 2)[0])
	}
	c.Count(cs.Key(), len(steps) >= 2, "seq/"+cs.S("class"))
	if len(cs.Key()) < 700 {
		c.Sample(cs)
	}
	for i, st := range steps {
		f := strings.Split(st, ",")
		var out []byte
		fail := func(what string) {
			c.Fail(Failure{Kind: "property", What: fmt.Sprintf("(step %d of %s): %s", i, strings.Join(kinds, ","), what), Case: cs,
				Go: clip(authObjFields(&obj) + " enc=" + hx(out)), Spec: clip(ref.fields() + " enc=" + hx(ref.enc()))})
		}
		c.Class("seq-step/" + f[0])
		// a descriptor to decode: generated well-formed, the payload follows it
		decodeStep := func(wire []byte, readerKind string, dec func(r *srcReader) error) bool {
			nr, ok := refOfWire(wire)
			if !ok || nr.rev != 0x0200 || nr.typ != 0x0EF1 || int(16+nr.dw) != len(wire) {
				return false // not a step this evaluator defines
			}
			src := newSrcReader(readerKind, append(append([]byte{}, wire...), payload...))
			var err error
			var left []byte
			panicked, pmsg := safely(func() {
				err = dec(src)
				if buf, isBuf := src.r.(*bytes.Buffer); isBuf {
					left = append([]byte{}, buf.Bytes()...)
				}
			})
			src.clobber() // the value must not depend on the source after the call
			if f[0] != "readcert" {
				ref.time = nr.time
			}
			ref.dw, ref.rev, ref.typ, ref.guid, ref.data = nr.dw, nr.rev, nr.typ, nr.guid, nr.data
			have = true
			if panicked {
				fail("decoder panicked: " + pmsg)
				return false
			}
			if err != nil {
				fail("a well-formed descriptor was rejected: " + err.Error())
				return false
			}
			if src.rest != len(payload) || (src.kind == "bytes.Buffer" && !bytes.Equal(left, payload)) {
				fail(fmt.Sprintf("decoding left %d bytes unread, the payload has %d", src.rest, len(payload)))
			}
			return true
		}
		ok := true
		switch {
		case f[0] == "new":
			safely(func() { obj = *signature.NewEFIVariableAuthentication2() })
			var tb bytes.Buffer
			binary.Write(&tb, binary.LittleEndian, obj.Time)
			ref = authRef{time: tb.Bytes(), dw: 24, rev: 0x0200, typ: 0x0EF1, guid: wirePKCS7GUID}
			have = true
		case f[0] == "unmarshal" && len(f) == 2:
			// the SAME object is the receiver, whatever it held before
			ok = decodeStep(unhx(f[1]), "bytes.Buffer", func(r *srcReader) error { return obj.Unmarshal(r.r.(*bytes.Buffer)) })
		case f[0] == "read" && len(f) == 3:
			ok = decodeStep(unhx(f[2]), f[1], func(r *srcReader) error {
				d, err := signature.ReadEFIVariableAuthencation2(r.r)
				if err == nil {
					obj = *d
				}
				return err
			})
		case f[0] == "readcert" && len(f) == 3:
			// only the WIN_CERTIFICATE_UEFI_GUID part is decoded (from behind the timestamp) and assigned; the time stays
			w := unhx(f[2])
			if len(w) < 16 {
				return
			}
			ok = decodeStep(w, f[1], func(r *srcReader) error {
				io.ReadFull(r.r, make([]byte, 16))
				a, err := signature.ReadWinCertificateUEFIGUID(r.r)
				if err == nil {
					obj.AuthInfo = a
				}
				return err
			})
		case f[0] == "time" && len(f) == 2 && len(unhx(f[1])) == 16:
			b := unhx(f[1])
			binary.Read(bytes.NewReader(b), binary.LittleEndian, &obj.Time)
			ref.time = b
		case f[0] == "guid" && len(f) == 2 && len(unhx(f[1])) == 16:
			b := unhx(f[1])
			obj.AuthInfo.CertType = guidFromWire(b)
			ref.guid = b
		case f[0] == "data" && len(f) == 2:
			b := unhx(f[1])
			obj.AuthInfo.CertData = append([]byte{}, b...)
			obj.AuthInfo.Header.Length = uint32(24 + len(b))
			ref.data, ref.dw = b, uint32(24+len(b))
		default:
			return
		}
		if !ok {
			return
		}
		if !have {
			continue // edits of the zero value: nothing that is a descriptor yet
		}
		// 1. the object holds the descriptor the steps define
		if got := authObjFields(&obj); got != ref.fields() {
			fail("the value does not hold the fields of the descriptor that was built / decoded / edited into it")
		}
		// 2. it encodes to the declared-length layout of these fields (both encoder entry points)
		var mb bytes.Buffer
		panicked, pmsg := safely(func() {
			if i%2 == 0 {
				obj.Marshal(&mb)
			} else {
				signature.WriteEFIVariableAuthencation2(&mb, obj)
			}
		})
		if panicked {
			fail("encoder panicked: " + pmsg)
			return
		}
		out = append([]byte{}, mb.Bytes()...)
		var tb bytes.Buffer
		binary.Write(&tb, binary.LittleEndian, obj.Time)
		ask := func(t []byte, l uint32, rv, ct uint16, hc, g, d []byte) (string, string) {
			ans := c.Drv.Ask("auth.write", hx(t), fmt.Sprint(l), fmt.Sprint(rv), fmt.Sprint(ct), hx(hc), hx(g), hx(d))
			mi := strings.Index(ans, " spec=")
			if !strings.HasPrefix(ans, "model=") || mi < 0 {
				c.Fail(Failure{Kind: "tie", What: "driver answer malformed", Case: cs, Model: clip(ans)})
				return "", ""
			}
			return ans[len("model="):mi], ans[mi+len(" spec="):]
		}
		// tie: the encoder model on the value as the Go object holds it (including what the embedded header keeps)
		model, _ := ask(tb.Bytes(), obj.AuthInfo.Header.Length, obj.AuthInfo.Header.Revision, uint16(obj.AuthInfo.Header.CertType),
			obj.AuthInfo.Header.Certificate, wireGUID(obj.AuthInfo.CertType), obj.AuthInfo.CertData)
		c.Trace()
		if model != hx(out) {
			c.Fail(Failure{Kind: "tie", What: "encoding a descriptor value: model and implementation disagree", Case: cs, Model: clip(model), Go: clip(hx(out))})
		}
		// oracle: the Lean Spec encoding of the abstract descriptor (and the harness's own, which must agree)
		_, spec := ask(ref.time, ref.dw, ref.rev, ref.typ, nil, ref.guid, ref.data)
		want := ref.enc()
		if spec != hx(want) {
			c.Fail(Failure{Kind: "tie", What: "Spec.encAuth and the harness encoder disagree", Case: cs, Model: clip(spec), Go: clip(hx(want))})
		}
		if !bytes.Equal(out, want) {
			fail(fmt.Sprintf("encoding the value gives %d bytes that are not the %d bytes (16 + dwLength) of its declared-length layout", len(out), len(want)))
			continue
		}
		// 2b. ... also when the destination already holds content (both encoder entry points, and the
		// WIN_CERTIFICATE_UEFI_GUID part on its own behind a timestamp the caller wrote)
		n1 := c.NFailures()
		appendsTo(c, cs, fmt.Sprintf("(step %d of %s) Marshal", i, strings.Join(kinds, ",")), want, i+len(want), func(buf *bytes.Buffer) { obj.Marshal(buf) })
		appendsTo(c, cs, fmt.Sprintf("(step %d of %s) WriteEFIVariableAuthencation2", i, strings.Join(kinds, ",")), want, i+len(want)+1, func(buf *bytes.Buffer) { signature.WriteEFIVariableAuthencation2(buf, obj) })
		if len(want) >= 16 {
			appendsTo(c, cs, fmt.Sprintf("(step %d of %s) WriteWinCertificateUEFIGUID", i, strings.Join(kinds, ",")), want[16:], i+len(want)+2, func(buf *bytes.Buffer) { signature.WriteWinCertificateUEFIGUID(buf, &obj.AuthInfo) })
		}
		if c.NFailures() > n1 {
			continue
		}
		// 3. decoding the encoding in front of the payload gives the fields back and leaves the payload alone
		src := newSrcReader(readerKinds[(i+len(out))%len(readerKinds)], append(append([]byte{}, out...), payload...))
		var d2 *signature.EFIVariableAuthentication2
		var err error
		p2, _ := safely(func() { d2, err = signature.ReadEFIVariableAuthencation2(src.r) })
		src.clobber()
		if p2 || err != nil {
			fail("decoding the encoded value failed")
		} else if authObjFields(d2) != ref.fields() || src.rest != len(payload) {
			fail(fmt.Sprintf("decoding the encoded value does not reproduce the value (or leaves %d bytes instead of the %d of the payload)", src.rest, len(payload)))
		}
	}
}

// c10SeqShrunk evaluates a sequence; a failing one is minimised by deleting steps before it is recorded
func c10SeqShrunk(c *Ctx, cs Case) {
	n0 := c.NFailures()
	c10Seq(c, cs)
	if c.NFailures() == n0 {
		return
	}
	c.mu.Lock()
	first := c.failures[n0]
	for _, f := range c.failures[n0:] { // a violation of the property on the Go code is what gets minimised and kept
		if f.Kind == "property" {
			first = f
			break
		}
	}
	c.mu.Unlock()
	sig := failSig(first)
	cur, best := cs, []Failure{first}
	for changed := true; changed; {
		changed = false
		steps := strList(cur["steps"])
		for i := len(steps) - 1; i >= 0 && len(steps) > 1; i-- {
			ns := append(append([]string{}, steps[:i]...), steps[i+1:]...)
			cand := Case{"op": "seq", "class": strings.SplitN(ns[0], ",", 2)[0] + "-first", "payload": cur["payload"], "steps": ns}
			for _, f := range c.Probe(func(p *Ctx) { c10Seq(p, cand) }) {
				if failSig(f) == sig {
					cur, steps, best, changed = cand, ns, []Failure{f}, true
					break
				}
			}
		}
	}
	c.ReplaceFailuresFrom(n0, best)
}

func c10Eval(c *Ctx, cs Case) {
	switch cs.S("op") {
	case "wincert":
		c10EvalWinCert(c, cs)
	case "seq":
		c10SeqShrunk(c, cs)
	default:
		c10EvalAuth(c, cs)
	}
}

func mkAuth(time []byte, dw uint32, rev, typ uint16, guid, data, payload []byte) []byte {
	var b bytes.Buffer
	b.Write(time)
	binary.Write(&b, binary.LittleEndian, dw)
	binary.Write(&b, binary.LittleEndian, rev)
	binary.Write(&b, binary.LittleEndian, typ)
	b.Write(guid)
	b.Write(data)
	b.Write(payload)
	return b.Bytes()
}

func authFixtures(c *Ctx) [][]byte {
	var out [][]byte
	for _, p := range []string{"tests/ovmf/keys/*/*.auth", "efi/signature/testdata/*.auth", "tests/data/signatures/*/*.auth", "efi/efitest/testdata/*/*.auth"} {
		ms, _ := filepath.Glob(filepath.Join(c.RepoDir, p))
		for _, m := range ms {
			if b, err := os.ReadFile(m); err == nil && len(b) > 40 {
				out = append(out, b)
			}
		}
	}
	return out
}

func c10Gen(c *Ctx) {
	fx := authFixtures(c)
	c.Note("auth_fixtures", len(fx))
	for _, b := range fx {
		for _, k := range readerKinds {
			c10EvalAuth(c, Case{"op": "auth", "class": "fixture", "reader": k, "bytes": hx(b)})
		}
	}
	pk7 := wireGUID(signature.EFI_CERT_TYPE_PKCS7_GUID)
	for i := 0; i < c.N(800, 40000) && c.NFailures() < 8; i++ {
		n := []int{0, 1, 7, 16, 100, 1500, c.Rng.Intn(4000), c.Rng.Intn(c.P(8000, 65536))}[c.Rng.Intn(8)]
		data := randBytes(c, n)
		payload := randBytes(c, []int{0, 1, 28, 76, c.Rng.Intn(300)}[c.Rng.Intn(5)])
		time := randBytes(c, 16)
		guid := pk7
		if c.Rng.Intn(3) == 0 {
			guid = randBytes(c, 16)
		}
		cls := "wf"
		dw := uint32(24 + n)
		rev, typ := uint16(0x0200), uint16(0x0EF1)
		switch c.Rng.Intn(12) {
		case 0:
			rev, cls = uint16(c.Rng.Intn(65536)), "badrev"
		case 1:
			// declared length larger than the data present
			dw, cls = dw+1+uint32(c.Rng.Intn(64)), "too-long"
			payload = nil
		case 2:
			// declared length smaller than the data present: the surplus belongs to the payload
			if n > 0 {
				dw, cls = dw-uint32(1+c.Rng.Intn(n)), "shorter"
			}
		}
		c10EvalAuth(c, Case{"op": "auth", "class": cls, "reader": readerKinds[i%len(readerKinds)], "bytes": hx(mkAuth(time, dw, rev, typ, guid, data, payload))})
	}
	// the top of the stated range: certificate data of up to 64 KiB, where dwLength crosses 2^16
	for i, n := range []int{65511, 65512, 65513, 65519, 65520, 65521, 65527, 65528, 65529, 65535, 65536} {
		if c.Quick() && i%2 == 1 {
			continue
		}
		c10EvalAuth(c, Case{"op": "auth", "class": "wf-64k", "reader": readerKinds[i%len(readerKinds)], "bytes": hx(mkAuth(randBytes(c, 16), uint32(24+n), 0x0200, 0x0EF1, pk7, randBytes(c, n), randBytes(c, 5)))})
	}
	// sequences of build / decode-into-the-same-object / decode-and-replace / edit steps on one value,
	// checked after every step (see c10Seq)
	for i := 0; i < c.N(400, 20000) && c.NFailures() < 8; i++ {
		someData := func() []byte {
			return randBytes(c, []int{0, 0, 1, 7, 16, 100, c.Rng.Intn(c.P(1500, 8000))}[c.Rng.Intn(7)])
		}
		someGUID := func() []byte {
			return [][]byte{pk7, wireRSA2048GUID, randBytes(c, 16)}[c.Rng.Intn(3)]
		}
		desc := func() string {
			d := someData()
			return hx(mkAuth(randBytes(c, 16), uint32(24+len(d)), 0x0200, 0x0EF1, someGUID(), d, nil))
		}
		step := func(k int) string {
			rk := readerKinds[c.Rng.Intn(len(readerKinds))]
			switch k {
			case 0:
				return "new"
			case 1, 2:
				return "unmarshal," + desc()
			case 3:
				return "read," + rk + "," + desc()
			case 4:
				return "readcert," + rk + "," + desc()
			case 5:
				return "time," + hx(randBytes(c, 16))
			case 6:
				return "guid," + hx(someGUID())
			default:
				return "data," + hx(someData())
			}
		}
		steps := []string{step(c.Rng.Intn(5))} // a value comes into being by construction or by decoding
		for n := 1 + c.Rng.Intn(5); n > 0; n-- {
			steps = append(steps, step(c.Rng.Intn(9)))
		}
		c10SeqShrunk(c, Case{"op": "seq", "class": strings.SplitN(steps[0], ",", 2)[0] + "-first", "steps": steps,
			"payload": hx(randBytes(c, []int{0, 1, 28, 76, c.Rng.Intn(300)}[c.Rng.Intn(5)]))})
	}
	// library-produced descriptors are exercised by C06; plain WIN_CERTIFICATEs:
	for i := 0; i < c.N(500, 20000) && c.NFailures() < 8; i++ {
		n := []int{0, 1, 7, 8, 9, 100, c.Rng.Intn(3000)}[c.Rng.Intn(7)]
		var b bytes.Buffer
		dw := uint32(8 + n)
		rev := uint16(0x0200)
		cls := "wf"
		switch c.Rng.Intn(10) {
		case 0:
			rev, cls = uint16(c.Rng.Intn(65536)), "badrev"
		case 1:
			dw, cls = dw+uint32(1+c.Rng.Intn(9)), "too-long"
		case 2:
			if n > 0 {
				dw, cls = dw-uint32(1+c.Rng.Intn(n)), "shorter"
			}
		}
		binary.Write(&b, binary.LittleEndian, dw)
		binary.Write(&b, binary.LittleEndian, rev)
		binary.Write(&b, binary.LittleEndian, uint16([]int{2, 0x0EF0, 0x0EF1, c.Rng.Intn(65536)}[c.Rng.Intn(4)]))
		b.Write(randBytes(c, n))
		if cls != "too-long" {
			b.Write(randBytes(c, c.Rng.Intn(12)))
		}
		c10EvalWinCert(c, Case{"op": "wincert", "class": cls, "reader": readerKinds[i%len(readerKinds)], "bytes": hx(b.Bytes())})
	}
	// WIN_CERTIFICATEs that END EARLY, handed to ReadWinCertificate directly (a PE certificate table entry, a file
	// that was cut): well-formed certificates of all three types cut at every position inside the header and
	// inside the body (every one for short bodies, the first and last bytes and a sample for long ones), through
	// every reader kind - among them the ones that end with a plain io.EOF and the one that hands out its last
	// data together with io.EOF. The answer must be an error.
	cutSub := &Ctx{Rng: mrand.New(mrand.NewSource(c.Seed*32452843 + 11 + int64(c.Shard)*1000003)), Thorough: c.Thorough}
	for i := 0; i < c.N(40, 2000) && c.NFailures() < 8; i++ {
		n := []int{1, 2, 7, 8, 9, 16, 17, 40, 100, 1 + cutSub.Rng.Intn(3000)}[i%10]
		var b bytes.Buffer
		binary.Write(&b, binary.LittleEndian, uint32(8+n))
		binary.Write(&b, binary.LittleEndian, uint16(0x0200))
		binary.Write(&b, binary.LittleEndian, uint16([]int{2, 0x0EF0, 0x0EF1}[i/10%3]))
		b.Write(randBytes(cutSub, n))
		full := b.Bytes()
		cuts := map[int]bool{}
		for cut := 0; cut < len(full); cut++ {
			if cut <= 12 || cut >= len(full)-4 || n <= 40 || cutSub.Rng.Intn(n/8+1) == 0 {
				cuts[cut] = true
			}
		}
		for cut := 0; cut < len(full); cut++ {
			if cuts[cut] {
				cls := "cut-in-body"
				if cut < 8 {
					cls = "cut-in-header"
				}
				c10EvalWinCert(c, Case{"op": "wincert", "class": cls, "reader": readerKinds[(i+cut)%len(readerKinds)], "bytes": hx(full[:cut])})
			}
		}
	}
	for i, n := range []int{65527, 65528, 65529, 65535, 65536} {
		var b bytes.Buffer
		binary.Write(&b, binary.LittleEndian, uint32(8+n))
		binary.Write(&b, binary.LittleEndian, uint16(0x0200))
		binary.Write(&b, binary.LittleEndian, uint16(2))
		b.Write(randBytes(c, n+3))
		c10EvalWinCert(c, Case{"op": "wincert", "class": "wf-64k", "reader": readerKinds[i%len(readerKinds)], "bytes": hx(b.Bytes())})
	}
}

func init() {
	register("C10", &PropDef{
		Rule:   "descriptors with any timestamp, certificate-data length in {0,1,7,16,100,1500,random<=64KiB, and 65511..65536 where dwLength crosses 2^16}, PKCS7 or random type GUID, followed by payloads of 0..300 bytes; variants with a wrong revision, a declared length beyond the data, and a declared length shorter than the data (surplus is payload); the .auth fixtures of the repository; plain WIN_CERTIFICATEs of all three certificate types (up to 64 KiB). INPUTS THAT END EARLY: 40 well-formed WIN_CERTIFICATEs (all three types, bodies of 1..3000 bytes) cut at every position inside the 8-byte header and inside the body (every position for bodies up to 40 bytes, the first 12 / last 4 positions and a sample otherwise) are handed to ReadWinCertificate DIRECTLY through every reader kind (sources ending with a plain io.EOF, and one handing out its last data together with io.EOF); oracle, independent of the model: ReadWinCertificate (any revision, any type) and ReadEFIVariableAuthencation2 may return a nil error only when the header and the bytes its length field declares were present, the value then holds exactly these fields and body bytes and the source is left exactly behind them - an input cut short is answered with an error, never with a (zero) value and a nil error. Each input is handed to the decoder through a bytes.Reader, a bytes.Buffer, a one-byte-at-a-time reader, a reader that returns its last data together with io.EOF, or a half-count reader, over a private copy, and the source (buffer drained, reset and reused; backing array overwritten) is destroyed before the decoded value is inspected and re-encoded. Sequences on ONE EFIVariableAuthentication2 value (2..6 steps): it is built by NewEFIVariableAuthentication2 or decoded, then again decoded into as the receiver of Unmarshal (so a second, third descriptor - with empty or non-empty certificate data, dwLength 24..24+1500 - lands in an object that held another one), replaced by the result of ReadEFIVariableAuthencation2, given a new AuthInfo by ReadWinCertificateUEFIGUID, and edited (Time, type GUID, certificate data with dwLength adjusted); after every step the object must hold exactly the fields these steps define, must encode (Marshal and WriteEFIVariableAuthencation2, also compared with the encoder model and Spec.encAuth through the driver op auth.write) to the 16+dwLength bytes of their declared-length layout, and decoding that encoding in front of a payload must return the fields and leave the payload; failing sequences are shrunk by deleting steps. DESTINATIONS THAT ALREADY HOLD CONTENT: every successfully decoded descriptor / WIN_CERTIFICATE and every value of a sequence step is also encoded (Marshal, WriteEFIVariableAuthencation2, WriteWinCertificateUEFIGUID, WriteWinCertificate) into three buffers that are not empty - the four attribute bytes of an efivarfs file, 1/15/16/17/40/300 bytes, a whole earlier encoding of the same value (a second descriptor appended behind the first), each also with a part of the content already read; oracle: the unread content stays as it is and exactly the bytes the same call writes into an empty destination follow it. Inputs on which the unrepaired decoder would terminate the process (body shorter than a GUID, dwLength < 8) belong to C13/C14 and are generated there. Non-trivial: longer than the fixed header; distinct = distinct byte strings.",
		Assume: []string{},
		Eval:   c10Eval, Gen: c10Gen,
	})
}
