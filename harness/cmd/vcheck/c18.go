package main

import (
	"bufio"
	"bytes"
	"io"
	"testing/iotest"
	"encoding/binary"
	"fmt"
	"hash/crc32"
	mrand "math/rand"
	"os"
	"path/filepath"
	"strconv"
	"strings"
	"testing/fstest"

	"github.com/foxboron/go-uefi/efi"
	"github.com/foxboron/go-uefi/efi/attributes"
	"github.com/foxboron/go-uefi/efi/device"
	"github.com/foxboron/go-uefi/efivar"
	efs "github.com/foxboron/go-uefi/efi/fs"
	"github.com/foxboron/go-uefi/efivarfs/testfs"
	"github.com/spf13/afero"
)

const globalGUIDText = "8be4df61-93ca-11d2-aa0d-00e098032b8c"

func bootFile(name string) string {
	return "/sys/firmware/efi/efivars/" + name + "-" + globalGUIDText
}

// a minimal valid load option (description "x", end node only)
var tinyLoadOption = []byte{1, 0, 0, 0, 4, 0, 'x', 0, 0, 0, 0x7f, 0xff, 4, 0}

// boot order: names, and resolution through GetBootEntry on a store that holds the firmware-named variables
func c18EvalOrder(c *Ctx, cs Case) {
	order := unhx(cs.S("order"))
	nums := []int{}
	for i := 0; i+1 < len(order); i += 2 {
		nums = append(nums, int(order[i])|int(order[i+1])<<8)
	}
	files := fstest.MapFS{bootFile("BootOrder"): {Data: append([]byte{7, 0, 0, 0}, order...)}}
	for _, n := range nums {
		files[bootFile(fmt.Sprintf("Boot%04X", n))] = &fstest.MapFile{Data: append([]byte{7, 0, 0, 0}, tinyLoadOption...)}
	}
	var names []string
	var resolveErr []string
	panicked, pmsg := safely(func() {
		fs := testfs.NewTestFS().With(files).Open()
		names = fs.GetBootOrder()
		for _, nm := range names {
			if _, err := fs.GetBootEntry(nm); err != nil {
				resolveErr = append(resolveErr, nm+": "+err.Error())
			}
		}
	})
	c.Count(cs.Key(), len(nums) > 0, fmt.Sprintf("order/len%d", min(len(nums), 8)))
	if len(nums) <= 4 {
		c.Sample(cs)
	}
	if panicked {
		c.Fail(Failure{Kind: "property", What: "boot order decoding panicked: " + pmsg, Case: cs})
		return
	}
	want := []string{}
	for _, n := range nums {
		want = append(want, fmt.Sprintf("Boot%04X", n)) // firmware naming: four upper-case hex digits
	}
	// a value of odd length holds len/2 16-bit entries and one byte that is no entry: the names are those of the entries
	{
		what, matcher := "BootOrder does not decode to the firmware names of the Boot#### variables", "c18.lowercase_boot_names"
		if len(order)%2 == 1 {
			matcher = "c18.odd_length_phantom_entry" // F35
			what = "BootOrder of odd length does not decode to exactly the names of its 16-bit entries (the trailing byte is not an entry)"
		}
		if strings.Join(names, ",") != strings.Join(want, ",") {
			c.Fail(Failure{Kind: "property", Matcher: matcher, What: what, Case: cs, Go: strings.Join(names, ","), Spec: strings.Join(want, ",")})
		} else if len(resolveErr) > 0 {
			c.Fail(Failure{Kind: "property", What: "a returned boot name does not resolve through GetBootEntry although the variable exists", Case: cs, Go: strings.Join(resolveErr, "; ")})
		}
	}
	// the legacy package-level accessors (efi.GetBootOrder / efi.GetBootEntry over the efi/fs filesystem)
	{
		mem := afero.NewMemMapFs()
		dir := "/sys/firmware/efi/efivars"
		for path, f := range files {
			afero.WriteFile(mem, path, f.Data, 0o644)
		}
		var lnames, lerrs []string
		oldDir, oldFs := attributes.Efivars, efs.Fs
		attributes.Efivars = dir
		efs.SetFS(mem)
		lpan, lmsg := safely(func() {
			lnames = efi.GetBootOrder()
			for _, nm := range lnames {
				if _, err := efi.GetBootEntry(nm); err != nil {
					lerrs = append(lerrs, nm+": "+err.Error())
				}
			}
		})
		attributes.Efivars = oldDir
		efs.SetFS(oldFs)
		if lpan {
			c.Fail(Failure{Kind: "property", Matcher: "c18.legacy_boot_order", What: "efi.GetBootOrder / efi.GetBootEntry panicked: " + lmsg, Case: cs})
		} else {
			if strings.Join(lnames, ",") != strings.Join(want, ",") {
				c.Fail(Failure{Kind: "property", Matcher: "c18.legacy_boot_order", What: "efi.GetBootOrder (legacy API) does not decode BootOrder to the firmware names of the Boot#### variables", Case: cs, Go: fmt.Sprintf("%q", lnames), Spec: fmt.Sprintf("%q", want)})
			} else if len(lerrs) > 0 {
				c.Fail(Failure{Kind: "property", Matcher: "c18.legacy_boot_order", What: "a name returned by efi.GetBootOrder does not resolve through efi.GetBootEntry although the variable exists", Case: cs, Go: strings.Join(lerrs, "; ")})
			}
		}
	}
	c.Trace()
	if m := c.Drv.Ask("boot.order", hx(order)); m != strings.Join(names, ",") {
		c.Fail(Failure{Kind: "tie", What: "boot.order", Case: cs, Model: m, Go: strings.Join(names, ",")})
	}
	// the code TRANSLATED from bootorder.Unmarshal (Gen.lean; theorems C18g_unmarshal*) on the same buffer content,
	// against the names the real library returned (odd lengths included: the trailing byte is not an entry)
	c.GenTieGo(cs, "bootorder.Unmarshal", strings.Join(names, ","), "gen.bootorder", hx(order))
}

func c18EvalNumber(c *Ctx, cs Case) {
	n := int(cs.I("n"))
	c18EvalOrder(c, Case{"op": "order", "order": hx([]byte{byte(n), byte(n >> 8)})})
	c.Trace()
	if m := c.Drv.Ask("boot.name", fmt.Sprint(n)); m != fmt.Sprintf("Boot%04X", n) {
		c.Fail(Failure{Kind: "tie", What: "Spec.fwBootName", Case: cs, Model: m, Go: fmt.Sprintf("Boot%04X", n)})
	}
}

// ---- load options ----

func goNodeStr(p device.EFIDevicePaths) string {
	hdr := func(e device.EFIDevicePath) string {
		return hx([]byte{byte(e.Type), byte(e.SubType), e.Length[0], e.Length[1]})
	}
	switch n := p.(type) {
	case nil:
		return "nil"
	case device.PCIDevicePath:
		return fmt.Sprintf("pci:%s:%d:%d", hdr(n.EFIDevicePath), n.Function[0], n.Device[0])
	case device.ACPIDevicePath:
		return fmt.Sprintf("acpi:%s:%s:%s", hdr(n.EFIDevicePath), hx(n.HID[:]), hx(n.UID[:]))
	case device.HardDriveMediaDevicePath:
		return fmt.Sprintf("hd:%s:%d:%s:%s:%s:%d:%d:text=%s", hdr(n.EFIDevicePath), n.PartitionNumber, hx(n.PartitionStart[:]), hx(n.PartitionSize[:]), hx(n.PartitionSignature[:]), n.PartitionFormat, n.SignatureType, hx([]byte(strings.ToLower(fmtSafe(n)))))
	case device.FileTypeMediaDevicePath:
		return fmt.Sprintf("file:%s:%s:text=%s", hdr(n.EFIDevicePath), hx([]byte(n.PathName)), hx([]byte(fmtSafe(n))))
	case device.FirmwareFielMediaDevicePath:
		return fmt.Sprintf("fw:%s:%s", hdr(n.EFIDevicePath), hx(n.FirmwareFileName[:]))
	case device.VendorMessagingDevicePath:
		return fmt.Sprintf("vendor:%s:%s", hdr(n.EFIDevicePath), hx(wireGUID(n.Guid)))
	case device.EFIDevicePath:
		return fmt.Sprintf("generic:%s", hdr(n))
	case device.USBMessagingDevicePath:
		return fmt.Sprintf("usb:%s:%d:%d", hdr(n.EFIDevicePath), n.USBParentPortNumber, n.Interface)
	}
	return fmt.Sprintf("other:%T", p)
}

func fmtSafe(p device.EFIDevicePaths) (s string) {
	if pan, msg := safely(func() { s = p.Format() }); pan {
		return "PANIC:" + msg
	}
	return
}

func goLoadOptionStr(lo *device.EFILoadOption) string {
	ns := []string{}
	for _, p := range lo.FilePath {
		ns = append(ns, goNodeStr(p))
	}
	return fmt.Sprintf("attrs=%d len=%d desc=%s nodes=%s", uint32(lo.Attributes), lo.FilePathListLength, hx([]byte(lo.Description)), strings.Join(ns, "|"))
}

// lower-cases the text= parts so that GUID digit case is not compared
func lowerTexts(s string) string {
	parts := strings.Split(s, "text=")
	for i := 1; i < len(parts); i++ {
		end := strings.IndexAny(parts[i], "|")
		if end < 0 {
			end = len(parts[i])
		}
		t := unhx(parts[i][:end])
		if strings.HasPrefix(string(t), "HD(") {
			parts[i] = hx([]byte(strings.ToLower(string(t)))) + parts[i][end:]
		}
	}
	return strings.Join(parts, "text=")
}

// specLoadOption encodes a load option from its field description (the node syntax of genOption), written here from
// the UEFI specification (EFI_LOAD_OPTION: Attributes u32, FilePathListLength u16, Description as NUL-terminated
// UTF-16LE, then the device path nodes and the end node 7f ff 04 00; node = Type, SubType, Length u16 and: PCI
// Function, Device; ACPI _HID, _UID; hard drive PartitionNumber u32, PartitionStart u64, PartitionSize u64,
// Signature[16], MBRType (partition format), SignatureType; file path NUL-terminated UTF-16LE; firmware file GUID;
// USB parent port, interface). It uses neither the library nor the Lean model, so that the expectation the decoder
// is held against does not rest on either; the model's encoder is tied to it.
func specLoadOption(attrs, plen int64, descHex, nodes string) ([]byte, bool) {
	out := []byte{byte(attrs), byte(attrs >> 8), byte(attrs >> 16), byte(attrs >> 24), byte(plen), byte(plen >> 8)}
	out = append(out, specUtf16(string(unhx(descHex)))...)
	u32 := func(s string) []byte {
		v, _ := strconv.ParseUint(s, 10, 32)
		return []byte{byte(v), byte(v >> 8), byte(v >> 16), byte(v >> 24)}
	}
	u8 := func(s string) byte { v, _ := strconv.ParseUint(s, 10, 8); return byte(v) }
	if nodes != "-" && nodes != "" {
		for _, n := range strings.Split(nodes, "|") {
			f := strings.Split(n, ":")
			if len(f) < 2 {
				return nil, false
			}
			out = append(out, unhx(f[1])...) // the four header bytes as the case gives them
			switch {
			case f[0] == "pci" && len(f) == 4, f[0] == "usb" && len(f) == 4:
				out = append(out, u8(f[2]), u8(f[3]))
			case f[0] == "acpi" && len(f) == 4:
				out = append(append(out, unhx(f[2])...), unhx(f[3])...)
			case f[0] == "hd" && len(f) == 8:
				out = append(out, u32(f[2])...)
				out = append(append(append(out, unhx(f[3])...), unhx(f[4])...), unhx(f[5])...)
				out = append(out, u8(f[6]), u8(f[7]))
			case f[0] == "file" && len(f) == 3:
				out = append(out, specUtf16(string(unhx(f[2])))...)
			case f[0] == "fw" && len(f) == 3:
				out = append(out, unhx(f[2])...)
			default:
				return nil, false
			}
		}
	}
	return append(out, 0x7f, 0xff, 4, 0), true
}

// bootEntryVia decodes the load option b through the other public entry points of the same functionality:
// device.ParseEFILoadOption followed by device.ParseDevicePath (what a caller of the two exported parsers does),
// Efivarfs.GetBootEntry on an in-memory store that holds b as Boot0001, and the package-level efi.GetBootEntry.
func bootEntryVia(b []byte) map[string]string {
	out := map[string]string{}
	obs := func(name string, f func() (*device.EFILoadOption, error)) {
		var lo *device.EFILoadOption
		var err error
		switch p, _ := safely(func() { lo, err = f() }); {
		case p:
			out[name] = "panic"
		case err != nil || lo == nil:
			out[name] = "err"
		default:
			out[name] = "ok " + goLoadOptionStr(lo)
		}
	}
	obs("ParseEFILoadOption+ParseDevicePath", func() (*device.EFILoadOption, error) {
		buf := bytes.NewBuffer(append([]byte{}, b...))
		lo, err := device.ParseEFILoadOption(buf)
		if err != nil {
			return nil, err
		}
		lo.FilePath, err = device.ParseDevicePath(buf)
		return lo, err
	})
	files := fstest.MapFS{bootFile("Boot0001"): {Data: append([]byte{7, 0, 0, 0}, b...)}}
	obs("Efivarfs.GetBootEntry", func() (*device.EFILoadOption, error) {
		return testfs.NewTestFS().With(files).Open().GetBootEntry("Boot0001")
	})
	mem := afero.NewMemMapFs()
	afero.WriteFile(mem, bootFile("Boot0001"), files[bootFile("Boot0001")].Data, 0o644)
	withLegacyFs(mem, func() {
		obs("efi.GetBootEntry", func() (*device.EFILoadOption, error) { return efi.GetBootEntry("Boot0001") })
	})
	return out
}

// decode bytes with the real decoder (in-process: the generator only emits complete options)
func c18EvalOption(c *Ctx, cs Case) {
	var b []byte
	want := ""
	if cs.S("bytes") != "" {
		b = unhx(cs.S("bytes"))
	} else {
		// described by fields: the bytes come from the encoder written here from the specification; the
		// model's Spec encoder must give the same bytes
		var ok bool
		if b, ok = specLoadOption(cs.I("attrs"), cs.I("len"), cs.S("desc"), cs.S("nodes")); !ok {
			return
		}
		r := c.Drv.Ask("boot.encode", fmt.Sprint(cs.I("attrs")), fmt.Sprint(cs.I("len")), cs.S("desc"), cs.S("nodes"))
		if r != hx(b) {
			c.Fail(Failure{Kind: "tie", What: "the model's load option encoder and the harness's encoder (both written from the specification) give different bytes", Case: cs, Model: clip(r), Go: clip(hx(b))})
		}
		// the independent expectation: exactly the generated fields, with the specification's text forms
		want = fmt.Sprintf("attrs=%d len=%d desc=%s nodes=%s", cs.I("attrs"), cs.I("len"), cs.S("desc"), cs.S("want_nodes"))
	}
	var lo device.EFILoadOption
	var err error
	panicked, pmsg := safely(func() { err = lo.Unmarshal(bytes.NewBuffer(append([]byte{}, b...))) })
	goObs := "err"
	if panicked {
		goObs = "panic"
	} else if err == nil {
		goObs = "ok " + goLoadOptionStr(&lo)
	}
	nk := strings.Count(cs.S("nodes"), "|") + 1
	c.Count(cs.Key(), len(b) > 14, fmt.Sprintf("option/%s/%s", cs.S("class"), strings.SplitN(goObs, " ", 2)[0]))
	if len(b) < 150 {
		c.Sample(cs)
	}
	_ = nk
	c.Trace()
	m := lowerTexts(c.Drv.Ask("boot.option", hx(b)))
	if m != goObs {
		c.Fail(Failure{Kind: "tie", What: "EFILoadOption.Unmarshal: model and implementation disagree", Case: cs, Model: clip(m), Go: clip(goObs)})
	}
	if panicked {
		c.Fail(Failure{Kind: "property", What: "load option decoding panicked: " + pmsg, Case: cs, Go: goObs})
		return
	}
	// the device path decoder takes an io.Reader: what it returns must not depend on how the reader hands out
	// the bytes (one at a time, half of what is asked for, the last ones together with io.EOF, small buffers)
	if err == nil && len(lo.FilePath) > 0 {
		if off := loadOptionPathOffset(b); off > 0 && off < len(b) {
			pathBytes := b[off:]
			ref, rerr := device.ParseDevicePath(bytes.NewReader(pathBytes))
			if rerr == nil {
				refStr := nodesStr(ref)
				for _, kind := range []string{"one-byte", "half", "data-err", "bufio-16"} {
					var rd io.Reader
					switch kind {
					case "one-byte":
						rd = iotest.OneByteReader(bytes.NewReader(pathBytes))
					case "half":
						rd = iotest.HalfReader(bytes.NewReader(pathBytes))
					case "data-err":
						rd = iotest.DataErrReader(bytes.NewReader(pathBytes))
					default:
						rd = bufio.NewReaderSize(iotest.HalfReader(bytes.NewReader(pathBytes)), 16)
					}
					var got []device.EFIDevicePaths
					var gerr error
					if pan, msg := safely(func() { got, gerr = device.ParseDevicePath(rd) }); pan {
						c.Fail(Failure{Kind: "property", What: "ParseDevicePath panicked through a " + kind + " reader: " + msg, Case: cs})
						continue
					}
					c.Count(cs.Key()+"|reader|"+kind, true, "path-reader/"+kind)
					if gerr != nil || nodesStr(got) != refStr {
						c.Fail(Failure{Kind: "property", Matcher: "c18.reader_kind", What: "ParseDevicePath decodes the same bytes differently through a " + kind + " reader than from memory", Case: cs, Go: clip(fmt.Sprint(gerr, " ", nodesStr(got))), Spec: clip(refStr)})
					}
				}
			}
		}
	}
	// the other public entry points decode the same bytes to the same load option (and to the fields it was built from)
	// (quick tier: for every captured option and every second built one, chosen by a hash of the case so that a replay does the same)
	if c.Thorough || cs.S("class") == "captured" || crc32.ChecksumIEEE([]byte(cs.Key()))%2 == 0 {
		for name, got := range bootEntryVia(b) {
			c.Count(cs.Key()+"|via|"+name, true, "option-via/"+name+"/"+strings.SplitN(got, " ", 2)[0])
			exp := goObs
			if want != "" {
				exp = "ok " + want
			}
			if got != exp {
				c.Fail(Failure{Kind: "property", What: name + " decodes the load option differently than the fields it was built from / than EFILoadOption.Unmarshal decodes the same bytes", Case: cs, Go: clip(got), Spec: clip(exp)})
			}
		}
	}
	if want != "" {
		if goObs != "ok "+want {
			matcher := ""
			if strings.Contains(goObs, "PANIC") {
				matcher = "c18.hd_format_panics"
			}
			c.Fail(Failure{Kind: "property", Matcher: matcher, What: "decoded load option differs from the fields it was built from (or a node's text form is not the UEFI one)", Case: cs, Go: clip(goObs), Spec: clip("ok " + want)})
		}
	}
}

// c18EvalOptionSeq decodes SEVERAL load options, in order, into ONE EFILoadOption value - the way a
// caller that walks BootOrder with one variable does - and keeps every successfully decoded result the
// way such a caller keeps it (a copy of the struct, which shares the FilePath slice, and the FilePath
// slice itself). Members may be incomplete options on which the decoder returns an error. At the end
// every kept result must still read exactly as it read when it was decoded, and that reading must be
// the one a fresh value (and the model, which is a function of the bytes alone) gives for its bytes:
// what an option decodes to depends on its bytes only, not on what was decoded before or after.
func c18EvalOptionSeq(c *Ctx, cs Case) {
	var opts [][]byte
	for _, h := range strings.Split(cs.S("options"), ",") {
		opts = append(opts, unhx(h))
	}
	type keptT struct {
		i    int
		lo   device.EFILoadOption
		path []device.EFIDevicePaths
		then string
	}
	var keeps []keptT
	var one device.EFILoadOption // the one value every member is decoded into
	outcome := make([]string, len(opts))
	panicked, pmsg := safely(func() {
		for i, b := range opts {
			if err := one.Unmarshal(bytes.NewBuffer(append([]byte{}, b...))); err != nil {
				outcome[i] = "err"
				continue
			}
			outcome[i] = "ok"
			keeps = append(keeps, keptT{i, one, one.FilePath, "ok " + goLoadOptionStr(&one)})
		}
	})
	c.Count(cs.Key(), len(opts) > 1, fmt.Sprintf("option-seq/%s/len%d/%s", cs.S("class"), len(opts), strings.Join(outcome, "-")))
	if len(cs.S("options")) < 400 {
		c.Sample(cs)
	}
	if panicked {
		c.Fail(Failure{Kind: "property", What: "decoding a sequence of load options into one value panicked: " + pmsg, Case: cs})
		return
	}
	for _, k := range keeps {
		// the same bytes into a fresh value, and through the model
		var fresh device.EFILoadOption
		freshStr := "err"
		if pan, _ := safely(func() {
			if fresh.Unmarshal(bytes.NewBuffer(append([]byte{}, opts[k.i]...))) == nil {
				freshStr = "ok " + goLoadOptionStr(&fresh)
			}
		}); pan {
			freshStr = "panic"
		}
		c.Trace()
		if m := lowerTexts(c.Drv.Ask("boot.option", hx(opts[k.i]))); m != k.then {
			c.Fail(Failure{Kind: "tie", What: fmt.Sprintf("EFILoadOption.Unmarshal of member %d into a value decoded into before: model and implementation disagree", k.i), Case: cs, Model: clip(m), Go: clip(k.then)})
		}
		if k.then != freshStr {
			c.Fail(Failure{Kind: "property", What: fmt.Sprintf("member %d of the sequence decodes differently into an EFILoadOption value that was decoded into before than into a fresh value", k.i), Case: cs, Go: clip(k.then), Spec: clip(freshStr)})
			continue
		}
		now := "ok " + goLoadOptionStr(&k.lo)
		pathNow := nodesStr(k.path)
		if now != k.then || pathNow != nodesStr(fresh.FilePath) {
			c.Fail(Failure{Kind: "property", What: fmt.Sprintf("the load option decoded from member %d and kept by the caller no longer reads as decoded after the later members (outcomes %s) were decoded into the same EFILoadOption value", k.i, strings.Join(outcome[k.i+1:], ",")), Case: cs,
				Go: clip("kept struct now: " + now + " ; kept FilePath now: " + pathNow), Spec: clip(k.then)})
		}
	}
}

// emitOptionSeq evaluates a sequence; a failing one is reduced to the shortest failing contiguous pair
// / sub-sequence that still fails before it is recorded.
func emitOptionSeq(c *Ctx, class string, opts [][]byte) {
	mk := func(o [][]byte) Case {
		hs := make([]string, len(o))
		for i, b := range o {
			hs[i] = hx(b)
		}
		return Case{"op": "option-seq", "class": class, "options": strings.Join(hs, ",")}
	}
	n0 := c.NFailures()
	c18EvalOptionSeq(c, mk(opts))
	if c.NFailures() == n0 || len(opts) <= 2 {
		return
	}
	for i := 0; i < len(opts); i++ {
		for j := i + 1; j < len(opts); j++ {
			pair := [][]byte{opts[i], opts[j]}
			if fs := c.Probe(func(p *Ctx) { c18EvalOptionSeq(p, mk(pair)) }); len(fs) > 0 {
				c.ReplaceFailuresFrom(n0, fs)
				return
			}
		}
	}
}

// c18EvalEntryHistory runs a HISTORY on ONE Efivarfs handle over an in-memory store that holds several Boot####
// variables: look an entry up (GetBootEntry), rewrite the variable through the same handle (WriteVar with a complete
// load option - what a boot manager does when it updates an entry), let the caller change the struct a lookup returned
// (description, attributes, path-list length, first node: the value is the caller's), and look the entry up again.
// "Decoding a load option ... recovers its attributes, path-list length, description and each node's fields", "each
// returned name resolves through the boot-entry accessor": every lookup must give the decode of the bytes the variable
// holds AT THE TIME OF THAT CALL - the decode of the same bytes into a fresh EFILoadOption value, and the model's -
// whatever was looked up, written or changed by the caller before; and what a lookup returned and the caller did not
// touch must still read as it read when it was returned after the later steps.
func c18EvalEntryHistory(c *Ctx, cs Case) {
	cur := map[string][]byte{}
	files := fstest.MapFS{}
	var names []string
	for _, kv := range strings.Split(cs.S("vars"), ";") {
		if f := strings.SplitN(kv, "=", 2); len(f) == 2 {
			cur[f[0]] = unhx(f[1])
			names = append(names, f[0])
			files[bootFile(f[0])] = &fstest.MapFile{Data: append([]byte{7, 0, 0, 0}, cur[f[0]]...)}
		}
	}
	steps := strings.Split(cs.S("steps"), ",")
	decodeFresh := func(b []byte) string {
		var lo device.EFILoadOption
		out := "err"
		if pan, _ := safely(func() {
			if lo.Unmarshal(bytes.NewBuffer(append([]byte{}, b...))) == nil {
				out = "ok " + goLoadOptionStr(&lo)
			}
		}); pan {
			out = "panic"
		}
		return out
	}
	type keptT struct {
		step    int
		lo      *device.EFILoadOption
		then    string
		touched bool
	}
	var kept []*keptT
	last := map[string]*keptT{}
	kinds := map[string]bool{}
	var fails []Failure
	panicked, pmsg := safely(func() {
		fs := testfs.NewTestFS().With(files).Open()
		for i, st := range steps {
			f := strings.Split(st, ":")
			if len(f) < 2 {
				continue
			}
			name := f[1]
			switch f[0] {
			case "get":
				lo, err := fs.GetBootEntry(name)
				got := "err"
				if err == nil && lo != nil {
					got = "ok " + goLoadOptionStr(lo)
				}
				b, exists := cur[name]
				want := "err"
				if exists {
					want = decodeFresh(b)
					c.Trace()
					if m := lowerTexts(c.Drv.Ask("boot.option", hx(b))); m != want {
						fails = append(fails, Failure{Kind: "tie", What: "EFILoadOption.Unmarshal: model and implementation disagree on the bytes a boot variable holds", Case: cs, Model: clip(m), Go: clip(want)})
					}
				}
				if got != want {
					fails = append(fails, Failure{Kind: "property", What: fmt.Sprintf("step %d (%s): GetBootEntry(%s) does not give the decode of the bytes the variable holds at the time of the call (earlier steps on the same handle: %s)", i, st, name, strings.Join(steps[:i], ",")), Case: cs, Go: clip(got), Spec: clip(want)})
				}
				if err == nil && lo != nil {
					k := &keptT{step: i, lo: lo, then: got}
					kept = append(kept, k)
					last[name] = k
				}
			case "write":
				if len(f) < 3 {
					continue
				}
				b := unhx(f[2])
				v := efivar.BootEntry
				v.Name = name
				if err := fs.WriteVar(v, rawValue(b)); err != nil {
					fails = append(fails, Failure{Kind: "property", What: fmt.Sprintf("step %d: writing %s through the handle failed: %v", i, name, err), Case: cs})
					return
				}
				cur[name] = b
				kinds["write"] = true
			case "mutate":
				// the caller changes what it was given
				if k := last[name]; k != nil {
					k.touched = true
					k.lo.Description = "scratch " + k.lo.Description
					k.lo.Attributes ^= 0x5a5a
					k.lo.FilePathListLength++
					if len(k.lo.FilePath) > 0 {
						k.lo.FilePath[0] = device.EFIDevicePath{Type: 0x7e, SubType: 0x7e}
						k.lo.FilePath = k.lo.FilePath[:len(k.lo.FilePath)-1]
					} else {
						k.lo.FilePath = append(k.lo.FilePath, device.EFIDevicePath{Type: 0x7e, SubType: 0x7e})
					}
					kinds["mutate"] = true
				}
			}
		}
	})
	ks := []string{}
	for _, k := range []string{"write", "mutate"} {
		if kinds[k] {
			ks = append(ks, k)
		}
	}
	c.Count(cs.Key(), len(steps) > 1, fmt.Sprintf("entry-history/vars%d/%s", len(names), strings.Join(ks, "+")))
	if len(cs.S("vars"))+len(cs.S("steps")) < 600 {
		c.Sample(cs)
	}
	if panicked {
		c.Fail(Failure{Kind: "property", What: "a history of boot entry lookups and writes on one handle panicked: " + pmsg, Case: cs})
		return
	}
	for _, f := range fails {
		c.Fail(f)
	}
	if len(fails) > 0 {
		return
	}
	for _, k := range kept {
		if k.touched {
			continue
		}
		if now := "ok " + goLoadOptionStr(k.lo); now != k.then {
			c.Fail(Failure{Kind: "property", What: fmt.Sprintf("the load option returned by the lookup of step %d, which the caller did not change, no longer reads as returned after the later steps (%s) on the same handle", k.step, strings.Join(steps[k.step+1:], ",")), Case: cs, Go: clip(now), Spec: clip(k.then)})
			return
		}
	}
}

// emitEntryHistory evaluates a history; a failing one is reduced by dropping steps while it still fails.
func emitEntryHistory(c *Ctx, vars string, steps []string) {
	mk := func(st []string) Case {
		return Case{"op": "entry-history", "vars": vars, "steps": strings.Join(st, ",")}
	}
	n0 := c.NFailures()
	c18EvalEntryHistory(c, mk(steps))
	if c.NFailures() == n0 {
		return
	}
	best := steps
	for changed := true; changed && len(best) > 1; {
		changed = false
		for i := 0; i < len(best); i++ {
			cand := append(append([]string{}, best[:i]...), best[i+1:]...)
			if fs := c.Probe(func(p *Ctx) { c18EvalEntryHistory(p, mk(cand)) }); len(fs) > 0 {
				best, changed = cand, true
				c.ReplaceFailuresFrom(n0, fs)
				break
			}
		}
	}
}

func nodesStr(ps []device.EFIDevicePaths) string {
	var xs []string
	for _, p := range ps {
		xs = append(xs, goNodeStr(p))
	}
	return strings.Join(xs, "|")
}

// loadOptionPathOffset: where the device path list starts (attributes 4, length 2, NUL-terminated UTF-16 description)
func loadOptionPathOffset(b []byte) int {
	for i := 6; i+1 < len(b); i += 2 {
		if b[i] == 0 && b[i+1] == 0 {
			return i + 2
		}
	}
	return -1
}

func c18Eval(c *Ctx, cs Case) {
	switch cs.S("op") {
	case "number":
		c18EvalNumber(c, cs)
	case "order":
		c18EvalOrder(c, cs)
	case "option":
		c18EvalOption(c, cs)
	case "option-seq":
		c18EvalOptionSeq(c, cs)
	case "entry-history":
		c18EvalEntryHistory(c, cs)
	}
}

func guidTextLE(sig []byte) string {
	return fmt.Sprintf("%08x-%04x-%04x-%02x%02x-%02x%02x%02x%02x%02x%02x", binary.LittleEndian.Uint32(sig), binary.LittleEndian.Uint16(sig[4:]), binary.LittleEndian.Uint16(sig[6:]),
		sig[8], sig[9], sig[10], sig[11], sig[12], sig[13], sig[14], sig[15])
}

func genOption(c *Ctx) Case {
	descs := []string{"", "x", "Linux Boot Manager", "UEFI: é\U0001F600 disk", "Windows Boot Manager"}
	desc := descs[c.Rng.Intn(len(descs))]
	if c.Rng.Intn(3) == 0 {
		// arbitrary descriptions: random scalar values from the classes whose UTF-16 code units have a
		// zero low or high byte (U+0100, U+4E00, Latin-1), other BMP, and non-BMP characters; no NUL
		pool := []rune{'a', 'Z', ' ', 0xe9, 0xff, 0x100, 0x200, 0x4e00, 0x4e01, 0x3042, 0xfffd, 0xd7ff, 0xe000, 0x1f600, 0x10000, 0x10ffff}
		rs := make([]rune, c.Rng.Intn(12))
		for i := range rs {
			if c.Rng.Intn(4) == 0 {
				rs[i] = rune(1 + c.Rng.Intn(0xd7ff))
			} else {
				rs[i] = pool[c.Rng.Intn(len(pool))]
			}
		}
		desc = string(rs)
	}
	var nodes, want []string
	n := c.Rng.Intn(6)
	u8 := func() int { return c.Rng.Intn(256) }
	for i := 0; i < n; i++ {
		switch c.Rng.Intn(6) {
		case 0:
			s := fmt.Sprintf("pci:01010600:%d:%d", u8(), u8())
			nodes, want = append(nodes, s), append(want, s)
		case 1:
			s := fmt.Sprintf("acpi:02010c00:%s:%s", hx(randBytes(c, 4)), hx(randBytes(c, 4)))
			nodes, want = append(nodes, s), append(want, s)
		case 2:
			part := []int{1, 2, 0, 128, c.Rng.Intn(1 << 31)}[c.Rng.Intn(5)]
			start, size := randBytes(c, 8), randBytes(c, 8)
			if c.Rng.Intn(2) == 0 {
				start = []byte{0, 8, 0, 0, 0, 0, 0, 0}
				size = []byte{0, 0xf8, 0x0f, 0, 0, 0, 0, 0}
			}
			sig := randBytes(c, 16)
			var text string
			// signature type (byte 41) and partition format (byte 40) are independent fields: usually
			// equal (GPT/GPT, MBR/MBR), but any pair is a valid node; the text form follows the signature type
			st := []int{1, 2, 1, 2, 0, c.Rng.Intn(256)}[c.Rng.Intn(6)]
			fm := []int{st, st, 1, 2, c.Rng.Intn(256)}[c.Rng.Intn(5)]
			switch st {
			case 2: // GPT
				text = fmt.Sprintf("HD(%d,GPT,%s,0x%x,0x%x)", part, guidTextLE(sig), binary.LittleEndian.Uint64(start), binary.LittleEndian.Uint64(size))
			case 1: // MBR: 32-bit signature, rest zero
				for j := 4; j < 16; j++ {
					sig[j] = 0
				}
				text = fmt.Sprintf("HD(%d,MBR,0x%08x,0x%x,0x%x)", part, binary.LittleEndian.Uint32(sig), binary.LittleEndian.Uint64(start), binary.LittleEndian.Uint64(size))
			default:
				text = fmt.Sprintf("HD(%d,%d,0,0x%x,0x%x)", part, st, binary.LittleEndian.Uint64(start), binary.LittleEndian.Uint64(size))
			}
			s := fmt.Sprintf("hd:04012a00:%d:%s:%s:%s:%d:%d", part, hx(start), hx(size), hx(sig), fm, st)
			nodes = append(nodes, s)
			want = append(want, s+":text="+hx([]byte(strings.ToLower(text))))
		case 3:
			paths := []string{"\\EFI\\systemd\\systemd-bootx64.efi", "\\EFI\\BOOT\\BOOTX64.EFI", "a", "\\é\\\U0001F600.efi", "", "a\u0100b\u4e00", "\\EFI\\" + strings.Repeat("long-directory-name\\", 8) + "x.efi"}
			p := paths[c.Rng.Intn(len(paths))]
			l := 4 + 2*len([]rune(p)) + 2
			s := fmt.Sprintf("file:0404%02x%02x:%s", l&255, l>>8, hx([]byte(p)))
			nodes = append(nodes, s)
			want = append(want, s+":text="+hx([]byte("File("+p+")")))
		case 4:
			s := fmt.Sprintf("fw:04061400:%s", hx(randBytes(c, 16)))
			nodes, want = append(nodes, s), append(want, s)
		case 5:
			s := fmt.Sprintf("usb:03050600:%d:%d", u8(), u8())
			nodes, want = append(nodes, s), append(want, s)
		}
	}
	ns, ws := "-", ""
	if len(nodes) > 0 {
		ns, ws = strings.Join(nodes, "|"), strings.Join(want, "|")
	}
	return Case{"op": "option", "class": fmt.Sprintf("built/%dnodes", len(nodes)), "attrs": int64(c.Rng.Uint32()), "len": int64(c.Rng.Intn(65536)), "desc": hx([]byte(desc)), "nodes": ns, "want_nodes": ws}
}

// genBoundaryOption: load options whose description and whose file-path names BEGIN with a character that sits at
// a boundary of the UTF-16 code space - the property says "arbitrary descriptions", and a decoder treats the first
// code unit of a string differently from the others far more easily than it treats one value differently from
// another: U+FEFF and U+FFFE (the code units a byte order mark consists of), U+FFFD (what decoders substitute),
// U+FFFF, the two ends of the surrogate gap, the first and last non-BMP characters, and code units with a zero
// low / high byte. The same characters also occur later in the string, where they must decode the same way.
var leadRunes = []rune{0xfeff, 0xfffe, 0xfffd, 0xffff, 0xd7ff, 0xe000, 0x10000, 0x10ffff, 0x100, 0xff, 0x1}

func genBoundaryOption(c *Ctx, i int) Case {
	g := genOption(c)
	lead := string(leadRunes[i%len(leadRunes)])
	other := string(leadRunes[(i/len(leadRunes)+1)%len(leadRunes)])
	tails := []string{"", "x", "Boot Manager", lead, "a" + lead + "b" + other, other + lead}
	k := i / len(leadRunes)
	desc := lead + tails[k%len(tails)]
	names := []string{lead, lead + "\\EFI\\BOOT\\BOOTX64.EFI", lead + other + ".efi", "\\EFI\\" + lead + "\\" + lead + ".efi"}
	name := names[(k/len(tails))%len(names)]
	l := 4 + len(specUtf16(name))
	node := fmt.Sprintf("file:0404%02x%02x:%s", l&255, l>>8, hx([]byte(name)))
	wnode := node + ":text=" + hx([]byte("File("+name+")"))
	ns, ws := g.S("nodes"), g.S("want_nodes")
	switch {
	case ns == "-" || ns == "":
		ns, ws = node, wnode
	case k%2 == 0:
		ns, ws = node+"|"+ns, wnode+"|"+ws
	default:
		ns, ws = ns+"|"+node, ws+"|"+wnode
	}
	g["class"] = fmt.Sprintf("boundary-first/U+%04X", leadRunes[i%len(leadRunes)])
	g["desc"], g["nodes"], g["want_nodes"] = hx([]byte(desc)), ns, ws
	return g
}

// genFormatOption: load options whose description and whose file-path names contain the characters that a text
// formatting layer gives a meaning of its own - the property says the file-path node renders in the UEFI text form
// File(<path name>) for ARBITRARY names, and a rendering that passes the name through a formatter, a template or a
// quoting step shows only on names that hold such characters: '%' alone and followed by a verb letter, a flag, a
// digit, another '%' or nothing (%s %d %v %x %q %! %% %5 %-), a backslash before a letter, braces, '$', quotes,
// parentheses and commas (the separators of the text form itself).  Each at the start, in the middle and at the
// end of an otherwise ordinary name, alone, and twice in one name.
var formatMarks = []string{"%", "%s", "%d", "%v", "%x", "%q", "%!", "%%", "%5", "%-", "%+v", "%[1]s", "%%%", "\\n", "\\t", "{}", "{{.}}", "${x}", "$1", "\"", "'", "(", ")", ",", "()"}

func genFormatOption(c *Ctx, i int) Case {
	g := genOption(c)
	mark := formatMarks[i%len(formatMarks)]
	k := i / len(formatMarks)
	var name string
	switch k % 5 {
	case 0:
		name = mark + "EFI\\BOOT\\BOOTX64.EFI" // at the start
	case 1:
		name = "\\EFI\\tools\\100" + mark + ".efi" // in the middle
	case 2:
		name = "\\EFI\\BOOT\\BOOTX64" + mark // at the end
	case 3:
		name = mark // alone
	default:
		name = mark + "\\EFI\\" + mark + "\\x.efi" + mark // several times
	}
	desc := []string{mark + " Boot Manager", "Boot " + mark + " Manager", "Boot Manager " + mark, mark}[(k/5)%4]
	l := 4 + len(specUtf16(name))
	node := fmt.Sprintf("file:0404%02x%02x:%s", l&255, l>>8, hx([]byte(name)))
	wnode := node + ":text=" + hx([]byte("File("+name+")"))
	ns, ws := g.S("nodes"), g.S("want_nodes")
	switch {
	case ns == "-" || ns == "":
		ns, ws = node, wnode
	case k%2 == 0:
		ns, ws = node+"|"+ns, wnode+"|"+ws
	default:
		ns, ws = ns+"|"+node, ws+"|"+wnode
	}
	g["class"] = "format-characters/" + mark
	g["desc"], g["nodes"], g["want_nodes"] = hx([]byte(desc)), ns, ws
	return g
}

func c18Gen(c *Ctx) {
	// all 65536 boot numbers, exhaustively
	for n := 0; n < 65536; n++ {
		if !c.Mine(n) { // with shard processes each takes a residue class; together they cover all numbers
			continue
		}
		c18EvalNumber(c, Case{"op": "number", "n": int64(n)})
		if c.NFailures() >= 4 {
			break
		}
	}
	c.Note("boot_numbers_exhaustive", true)
	for i := 0; i < c.N(200, 5000) && c.NFailures() < 8; i++ {
		k := c.Rng.Intn(65)
		o := make([]byte, 2*k)
		// even lengths here; the odd ones (2k+1 bytes: k entries and a trailing byte that is no 16-bit entry) are the
		// 25 orders of the next loop, kept apart so that the random stream of the cases below is what it was
		c.Rng.Read(o)
		if c.Rng.Intn(2) == 0 {
			for j := 1; j < len(o); j += 2 {
				o[j] = 0 // small numbers as on real machines
			}
		}
		c18EvalOrder(c, Case{"op": "order", "order": hx(o)})
	}
	// odd lengths: a trailing single byte behind 0..24 complete entries. It is no entry: the names are those of the
	// k complete entries and nothing else (naming oracle in c18EvalOrder, matcher c18.odd_length_phantom_entry; model:
	// C18_names_every; translated code: C18g_unmarshal_trailing), on Efivarfs.GetBootOrder, on the legacy
	// efi.GetBootOrder and on the two ties. F35 (fixed in b2ed0f9): Efivarfs.GetBootOrder returned k+1 names, the last
	// one made up from the trailing byte and a zero byte (order fe16...2cca -> ..., Boot2CC0, Boot00CA). Derived from
	// the index, so that the random stream of the cases below is what it was.
	for k := 0; k < 25 && c.NFailures() < 8; k++ {
		o := make([]byte, 2*k+1)
		for j := range o {
			o[j] = byte(37*j + 11*k + 1)
			if k%2 == 0 && j%2 == 1 {
				o[j] = 0
			}
		}
		c18EvalOrder(c, Case{"op": "order", "order": hx(o)})
	}
	// captured Boot#### variables of the repository
	ms, _ := filepath.Glob(filepath.Join(c.RepoDir, "tests/data/boot/Boot*"))
	c.Note("captured_boot_variables", len(ms))
	for _, m := range ms {
		if b, err := os.ReadFile(m); err == nil && len(b) > 4 {
			c18EvalOption(c, Case{"op": "option", "class": "captured", "bytes": hx(b[4:])})
		}
	}
	for i := 0; i < c.N(500, 20000) && c.NFailures() < 8; i++ {
		c18EvalOption(c, genOption(c))
	}
	// descriptions and file names that begin with a boundary character of the UTF-16 decoder (generator of its
	// own, so that the cases before and behind stay what they were)
	bsub := &Ctx{Rng: mrand.New(mrand.NewSource(c.Seed*86028121 + 17 + int64(c.Shard)*1000003)), Thorough: c.Thorough}
	for i := 0; i < c.N(6*4*len(leadRunes), 40*len(leadRunes)*24) && c.NFailures() < 8; i++ {
		c18EvalOption(c, genBoundaryOption(bsub, i))
	}
	// descriptions and file names that hold characters a text formatting layer gives a meaning of its own ('%'
	// sequences, backslash escapes, braces, '$', quotes, the separators of the text form), at the start, in the middle,
	// at the end, alone and repeated (generator of its own, as above)
	fsub := &Ctx{Rng: mrand.New(mrand.NewSource(c.Seed*49979687 + 29 + int64(c.Shard)*1000003)), Thorough: c.Thorough}
	for i := 0; i < c.N(5*len(formatMarks), 40*len(formatMarks)) && c.NFailures() < 8; i++ {
		c18EvalOption(c, genFormatOption(fsub, i))
	}
	// sequences of 2..5 load options decoded into ONE EFILoadOption value, every result kept: captured and
	// generated options in random order (so that a later member has fewer, as many and more nodes than
	// an earlier one, and the same option occurs twice), some members cut inside their device path list
	// or emptied, on which the decoder returns an error
	var pool [][]byte
	for _, m := range ms {
		if b, err := os.ReadFile(m); err == nil && len(b) > 4 {
			pool = append(pool, b[4:])
		}
	}
	nCaptured := len(pool)
	for i := 0; i < 24+nCaptured; i++ {
		g := genOption(c)
		if r := c.Drv.Ask("boot.encode", fmt.Sprint(g.I("attrs")), fmt.Sprint(g.I("len")), g.S("desc"), g.S("nodes")); r != "bad-op" {
			pool = append(pool, unhx(r))
		}
	}
	for i := 0; i < c.N(300, 6000) && c.NFailures() < 8 && len(pool) > 0; i++ {
		n := 2 + c.Rng.Intn(4)
		seq := make([][]byte, n)
		class := "complete"
		for j := range seq {
			b := pool[c.Rng.Intn(len(pool))]
			if j > 0 && c.Rng.Intn(4) == 0 {
				class = "with-failing-members"
				off := loadOptionPathOffset(b)
				switch {
				case c.Rng.Intn(6) == 0 || off < 0 || off >= len(b)-1:
					b = b[:c.Rng.Intn(6)] // not even the fixed header
				default:
					b = b[:off+c.Rng.Intn(len(b)-off)] // the description is complete, the path list is not
				}
			}
			seq[j] = b
		}
		emitOptionSeq(c, class, seq)
	}
	// histories on ONE Efivarfs handle over a store of 1..3 Boot#### variables (names with hex letters included):
	// 3..8 steps of lookups, rewrites of a variable through the same handle (another option of the pool) and changes
	// the caller makes to the struct a lookup returned; a lookup follows every rewrite and every change sooner or
	// later (the last steps look every variable up once more). Generator of its own, so that the cases above stay.
	hsub := mrand.New(mrand.NewSource(c.Seed*15485863 + 41 + int64(c.Shard)*1000003))
	var whole [][]byte
	for _, b := range pool {
		if decodeOK(b) {
			whole = append(whole, b)
		}
	}
	for i := 0; i < c.N(150, 4000) && c.NFailures() < 8 && len(whole) > 1; i++ {
		nv := 1 + hsub.Intn(3)
		var vnames, vars []string
		for j := 0; j < nv; j++ {
			nm := fmt.Sprintf("Boot%04X", []int{0, 1, 0xA, 0x1F, 0xABCD, hsub.Intn(65536)}[hsub.Intn(6)]+j)
			vnames = append(vnames, nm)
			vars = append(vars, nm+"="+hx(whole[hsub.Intn(len(whole))]))
		}
		var steps []string
		for j, n := 0, 2+hsub.Intn(6); j < n; j++ {
			nm := vnames[hsub.Intn(nv)]
			switch r := hsub.Intn(10); {
			case r < 5 || j == 0:
				steps = append(steps, "get:"+nm)
			case r < 8:
				steps = append(steps, "write:"+nm+":"+hx(whole[hsub.Intn(len(whole))]))
			default:
				steps = append(steps, "mutate:"+nm)
			}
		}
		for _, nm := range vnames {
			steps = append(steps, "get:"+nm)
		}
		emitEntryHistory(c, strings.Join(vars, ";"), steps)
	}
}

// decodeOK: the load option decodes (in-process; only used on complete options)
func decodeOK(b []byte) (ok bool) {
	var lo device.EFILoadOption
	pan, _ := safely(func() { ok = lo.Unmarshal(bytes.NewBuffer(append([]byte{}, b...))) == nil })
	return ok && !pan
}

func init() {
	register("C18", &PropDef{
		Rule:   "all 65536 boot numbers (exhaustive), each resolved through GetBootEntry on an in-memory store holding the firmware-named variable; boot orders of 0..64 entries; the captured Boot#### variables of tests/data/boot; generated load options of 0..5 nodes over PCI, ACPI, hard-drive (signature types GPT, MBR, none and arbitrary, with an equal or a different partition-format byte; partition numbers incl. 0), file-path (ASCII, non-BMP, empty), firmware-file and USB nodes with arbitrary field values, five fixed descriptions and random descriptions (Latin-1, code units with a zero low byte such as U+0100 and U+4E00, other BMP, non-BMP), plus 264 options whose description AND one file-path name BEGIN with a boundary character of the UTF-16 code space - U+FEFF and U+FFFE (the code units of a byte order mark: a leading U+FEFF is a character of the string, not a mark), U+FFFD, U+FFFF, U+D7FF, U+E000, U+10000, U+10FFFF, U+0100, U+00FF, U+0001 - alone, followed by text, and with the same characters again later in the string (description and file name must come back exactly, the File(...) text form included), plus 125 options [thorough: 1000] whose description and one file-path name hold a character sequence that a text formatting layer gives a meaning of its own - '%' alone and before a verb letter, flag, digit or another '%' (%s %d %v %x %q %! %% %5 %- %+v %[1]s %%%), backslash-n / backslash-t, {} {{.}} ${x} $1, quotes, parentheses and commas - at the start, in the middle, at the end of an ordinary name, alone, and several times in one name (the text form must be File(<path name>) with the name exactly as decoded), encoded by an encoder written in the harness from the UEFI specification (the model's Spec encoder is tied to it byte for byte); every captured option and every second generated one [thorough: every one] is also decoded through the other public entry points - ParseEFILoadOption followed by ParseDevicePath, Efivarfs.GetBootEntry on an in-memory store that holds it as Boot0001, and the package-level efi.GetBootEntry - and must give the fields it was built from (captured: what Unmarshal gives); boot orders of odd length (a trailing single byte behind 0..24 complete entries, 25 orders) must decode to exactly the names of the complete entries on both accessors (F35 repair: Efivarfs.GetBootOrder made up a last entry from the trailing byte); sequences of 2..5 captured and generated load options decoded one after the other into ONE EFILoadOption value (300 sequences [thorough: 6000]; a quarter of the later members cut inside the device path list or down to 0..5 bytes, so that their decode returns an error) with every decoded result kept by the caller (struct copy and FilePath slice): each result must equal the decode of the same bytes into a fresh value and the model's, and every kept result must still read the same after all later decodes, failed ones included; histories on ONE Efivarfs handle over an in-memory store of 1..3 Boot#### variables (150 histories [thorough: 4000] of 3..11 steps: GetBootEntry(name), the variable rewritten through the same handle's WriteVar with another complete load option, the caller changing the struct a lookup returned - description, attributes, path-list length, nodes -, and a closing lookup of every variable): every lookup must give the decode of the bytes the variable holds at the time of that call (decode into a fresh value, and the model's), and what a lookup returned and the caller left alone must still read as returned after the later steps; a failing history is reduced step by step. Non-trivial: a non-empty order / an option longer than the minimal one / a sequence of at least two members; distinct = distinct cases.",
		Assume: []string{"load options handed to the in-process decoder are complete (truncated ones end the process on the unrepaired tree and are C14's domain), except the failing members of the decode sequences, which are cut inside the description / device path list and must come back as an error"},
		Eval:   c18Eval, Gen: c18Gen,
	})
}

// decode a BootOrder value through the public accessor (the bootorder type is unexported)
func bootOrderVia(order []byte) string {
	files := fstest.MapFS{bootFile("BootOrder"): {Data: append([]byte{7, 0, 0, 0}, order...)}}
	fs := testfs.NewTestFS().With(files).Open()
	fs.GetBootOrder()
	return "ok"
}
