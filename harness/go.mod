module verif/harness

go 1.21.0

require (
	github.com/foxboron/go-uefi v0.0.0
	github.com/spf13/afero v1.9.3
	go.mozilla.org/pkcs7 v0.0.0-20200128120323-432b2356ecb1
)

require (
	github.com/pkg/errors v0.9.1 // indirect
	golang.org/x/crypto v0.31.0 // indirect
	golang.org/x/sys v0.28.0 // indirect
	golang.org/x/text v0.21.0 // indirect
)

replace github.com/foxboron/go-uefi => /repo
